package main

func init() {
	addMutant(mutant{Name: "fd/deleterange-head-arg-off-by-one", Fire: []string{"FD-09"},
		Edits: []edit{{"wal.go", "		return w.truncateHeadLocked(max + 1)", "		return w.truncateHeadLocked(max)"}}})
	addMutant(mutant{Name: "fd/deleterange-min-lt-first", Fire: []string{"FD-01"},
		Edits: []edit{{"wal.go", "	case min <= first: // max >= first implied", "	case min < first: // max >= first implied"}}})
	addMutant(mutant{Name: "fd/deleterange-max-gt-last", Fire: []string{"FD-01"},
		Edits: []edit{{"wal.go", "	case max >= last: // min <= last implied", "	case max > last: // min <= last implied"}}})
	addMutant(mutant{Name: "fd/deleterange-noop-clause-dropped", Fire: []string{"FD-01"},
		Edits: []edit{{"wal.go", "	case max < first || min > last:", "	case max < first:"}}})
	addMutant(mutant{Name: "fd/deleterange-middle-allowed", Fire: []string{"FD-01"},
		Edits: []edit{{"wal.go", "		return fmt.Errorf(\"only suffix or prefix ranges may be deleted from log\")", "		return w.truncateTailLocked(min - 1)"}}})
	addMutant(mutant{Name: "fd/deleterange-tail-arg-min", Fire: []string{"FD-09"},
		Edits: []edit{{"wal.go", "		return w.truncateTailLocked(min - 1)\n\n	//    |min----max|\n	// |first========last|", "		return w.truncateTailLocked(min)\n\n	//    |min----max|\n	// |first========last|"}}})
	addMutant(mutant{Name: "fd/offsetforframe-last-exclusive", Fire: []string{"FD-02"},
		Edits: []edit{{"segment/writer.go", "idx < w.info.MinIndex || idx > w.LastIndex() {", "idx < w.info.MinIndex || idx >= w.LastIndex() {"}}})
	addMutant(mutant{Name: "fd/offsetforframe-no-upper-bound", Fire: []string{"FD-02"},
		Edits: []edit{{"segment/writer.go", "idx < w.info.MinIndex || idx > w.LastIndex() {", "idx < w.info.MinIndex {"}}, Note: "readers could see uncommitted entries"})
	addMutant(mutant{Name: "fd/findsegment-min-exclusive", Fire: []string{"FD-02"},
		Edits: []edit{{"state.go", "	if ok && seg.MinIndex <= idx && (", "	if ok && seg.MinIndex < idx && ("}}})
	addMutant(mutant{Name: "fd/findframeoffset-ignores-max", Fire: []string{"FD-02"},
		Edits: []edit{{"segment/reader.go", "	if idx < r.info.MinIndex || (r.info.MaxIndex > 0 && idx > r.info.MaxIndex) {", "	if idx < r.info.MinIndex {"}}})
	addMutant(mutant{Name: "fd/getlog-first-inclusive", Fire: []string{"FD-02"},
		Edits: []edit{{"state.go", "first == 0 || index < first {", "first == 0 || index <= first {"}}})
	addMutant(mutant{Name: "fd/padlen-wrong-mask", Fire: []string{"FD-04"},
		Edits: []edit{{"segment/format.go", "	return (frameHeaderLen - (n % frameHeaderLen)) & (frameHeaderLen - 1)", "	return (frameHeaderLen - (n % frameHeaderLen)) & frameHeaderLen"}}})
	addMutant(mutant{Name: "fd/scan-step-without-padding", Fire: []string{"FD-04"},
		Edits: []edit{{"segment/writer.go", "		offset += int64(encodedFrameSize(int(fh.len)))", "		offset += int64(frameHeaderLen + int(fh.len))"}}})
	addMutant(mutant{Name: "fd/verify-loop-inclusive-end", Fire: []string{"FD-05"},
		Edits: []edit{{"verifier/verifier.go", "	for idx := report.Range.Start; idx < report.Range.End; idx++ {", "	for idx := report.Range.Start; idx <= report.Range.End; idx++ {"}}})
	addMutant(mutant{Name: "fd/copylogs-exclusive-last", Fire: []string{"FD-05"},
		Edits: []edit{{"migrate/migrate.go", "	for idx := first; idx <= last; idx++ {", "	for idx := first; idx < last; idx++ {"}}})
	addMutant(mutant{Name: "fd/reserved-codec-gate-inverted", Fire: []string{"FD-06"},
		Edits: []edit{{"options.go", "w.codec.ID() < FirstExternalCodecID {", "w.codec.ID() > FirstExternalCodecID {"}}})
	addMutant(mutant{Name: "fd/persisted-codec-gate-dropped", Fire: []string{"FD-06"},
		Edits: []edit{{"wal.go", "		if si.Codec != w.codec.ID() {\n			return nil, fmt.Errorf(\"segment with BasedIndex=%d uses an unknown codec\", si.BaseIndex)\n		}\n", ""}}})
	addMutant(mutant{Name: "fd/storelogs-monotonic-check-weakened", Fire: []string{"FD-07"},
		Edits: []edit{{"wal.go", "		if lastIdx > 0 && l.Index != (lastIdx+1) {", "		if lastIdx > 0 && l.Index < (lastIdx+1) {"}}})
	addMutant(mutant{Name: "fd/segment-monotonic-check-dropped", Fire: []string{"FD-07"},
		Edits: []edit{{"segment/writer.go", "	if e.Index != w.info.BaseIndex+uint64(len(offsets)) {", "	if false && e.Index != w.info.BaseIndex+uint64(len(offsets)) {"}}})
	addMutant(mutant{Name: "fd/verify-written-sum-zero-not-skipped", Fire: []string{"FD-08"},
		Edits: []edit{{"verifier/verifier.go", "	if report.WrittenSum != 0 && report.WrittenSum != report.ExpectedSum {", "	if report.WrittenSum != report.ExpectedSum {"}}})
	addMutant(mutant{Name: "fd/verify-range-check-inverted", Fire: []string{"FD-08"},
		Edits: []edit{{"verifier/verifier.go", "	if first > report.Range.Start {", "	if first < report.Range.Start {"}}})
	addMutant(mutant{Name: "fd/verify-read-compare-dropped", Fire: []string{"FD-08"},
		Edits: []edit{{"verifier/verifier.go", "	if report.ReadSum != report.ExpectedSum {", "	if report.ReadSum != report.ExpectedSum && false {"}}})
	addMutant(mutant{Name: "fd/written-sum-never-suppressed", Fire: []string{"FD-08"},
		Edits: []edit{{"verifier/store.go", "			if cpStartIdx != startIdx {\n				r.WrittenSum = 0\n			}\n", ""}}})
	addMutant(mutant{Name: "silent/deleterange-switch-as-if-else", Silent: true,
		Edits: []edit{{"wal.go", "	switch {\n	// |min----max|\n	//               |first====last|", "	if max < first || min > last {\n		return nil\n	}\n	switch {\n	// |min----max|\n	//               |first====last|"}}})
}

func init() {
	addMutant(mutant{Name: "verifier/hash-drops-term", Fire: []string{"VF-04"},
		Edits: []edit{{"verifier/verifier.go", "	sum = fnv1a.AddUint64(sum, log.Term)\n", ""}}})
	addMutant(mutant{Name: "verifier/hash-restarts-at-data", Fire: []string{"VF-04"},
		Edits: []edit{{"verifier/verifier.go", "	sum = fnv1a.AddBytes64(sum, log.Data)", "	sum = fnv1a.AddBytes64(0, log.Data)"}}})
	addMutant(mutant{Name: "verifier/second-hash-routine", Fire: []string{"ACC-04", "VF-04"},
		Edits: []edit{{"verifier/store.go", "	checksum = checksumLog(checksum, log)\n	return checksum, startIdx, r, nil", "	checksum = fnv1a.AddUint64(checksum, log.Index)\n	return checksum, startIdx, r, nil"},
			{"verifier/store.go", "	\"github.com/hashicorp/raft-wal/metrics\"\n)", "	\"github.com/hashicorp/raft-wal/metrics\"\n	\"github.com/segmentio/fasthash/fnv1a\"\n)"}}})
	addMutant(mutant{Name: "verifier/getlog-shifted-index", Fire: []string{"VF-08"},
		Edits: []edit{{"verifier/store.go", "	return s.s.GetLog(index, log)", "	return s.s.GetLog(index+1, log)"}}})
	addMutant(mutant{Name: "verifier/firstindex-via-lastindex", Fire: []string{"VF-08"},
		Edits: []edit{{"verifier/store.go", "	return s.s.FirstIndex()", "	return s.s.LastIndex()"}}})
	addMutant(mutant{Name: "verifier/storelogs-swallows-inner-error", Fire: []string{"VF-08", "ORD-24"},
		Edits: []edit{{"verifier/store.go", "	err := s.s.StoreLogs(logs)\n	if err != nil {\n		return err\n	}\n", "	s.s.StoreLogs(logs)\n"}}})
	addMutant(mutant{Name: "verifier/overwrites-foreign-extensions", Fire: []string{"VF-09"},
		Edits: []edit{{"verifier/store.go", "		if len(log.Extensions) == 0 {\n			// It's a new checkpoint and we must be the leader. Set our state.", "		if len(log.Extensions) >= 0 {\n			// It's a new checkpoint and we must be the leader. Set our state."}}})
	addMutant(mutant{Name: "verifier/mutates-log-data", Fire: []string{"VF-09"},
		Edits: []edit{{"verifier/store.go", "	if startIdx == 0 {\n		startIdx = log.Index\n	}", "	if startIdx == 0 {\n		startIdx = log.Index\n		log.Term = 0\n	}"}}})
	addMutant(mutant{Name: "verifier/state-before-inner-write", Fire: []string{"ORD-24"},
		Edits: []edit{{"verifier/store.go", "	err := s.s.StoreLogs(logs)\n	if err != nil {\n		return err\n	}\n\n	// Update the checksum state now logs are committed.\n	atomic.StoreUint64(&s.checksum, cs)\n", "	atomic.StoreUint64(&s.checksum, cs)\n	err := s.s.StoreLogs(logs)\n	if err != nil {\n		return err\n	}\n"}}})
	addMutant(mutant{Name: "verifier/read-without-firstindex", Fire: []string{"ORD-24", "FD-08"},
		Edits: []edit{{"verifier/verifier.go", "	first, err := s.s.FirstIndex()\n	if err != nil {\n		report.Err = fmt.Errorf(\"unable to verify log range %s: %w\", report.Range, err)\n		return\n	}\n	if first > report.Range.Start {\n		// We don't have enough logs to calculate this correctly.\n		report.Err = ErrRangeMismatch\n		return\n	}\n", ""}}})
	addMutant(mutant{Name: "verifier/report-skipped-on-error", Fire: []string{"ORD-24"},
		Edits: []edit{{"verifier/verifier.go", "		report.Elapsed = time.Since(st)\n		s.reportFn(report)", "		report.Elapsed = time.Since(st)\n		if report.Err == nil {\n			s.reportFn(report)\n		}"}}})
	addMutant(mutant{Name: "verifier/blocking-handoff", Fire: []string{"ORD-25"},
		Edits: []edit{{"verifier/store.go", "	select {\n	case s.verifyCh <- r:\n	default:\n		s.metrics.IncrementCounter(\"dropped_reports\", 1)\n	}", "	s.verifyCh <- r"}}})
	addMutant(mutant{Name: "verifier/drop-not-counted", Fire: []string{"ORD-25"},
		Edits: []edit{{"verifier/store.go", "	default:\n		s.metrics.IncrementCounter(\"dropped_reports\", 1)\n	}", "	default:\n	}"}}})
	addMutant(mutant{Name: "verifier/report-from-storelogs", Fire: []string{"ORD-25"},
		Edits: []edit{{"verifier/store.go", "	for _, r := range triggeredReports {\n		s.triggerVerify(r)\n	}", "	for _, r := range triggeredReports {\n		s.reportFn(r)\n	}"}}})
}

func init() {
	addMutant(mutant{Name: "fd/firstindex-ignores-empty-tail", Fire: []string{"FD-10"},
		Edits: []edit{{"state.go", "		if s.tail.LastIndex() == 0 {\n			// No logs in the WAL\n			return 0\n		}\n", ""}}})
	addMutant(mutant{Name: "fd/lastindex-off-by-one", Fire: []string{"FD-10"},
		Edits: []edit{{"state.go", "	return tailSeg.BaseIndex - 1\n", "	return tailSeg.BaseIndex\n"}}})
	addMutant(mutant{Name: "fd/next-segment-base-overlaps", Fire: []string{"FD-10"},
		Edits: []edit{{"wal.go", "		nextBaseIndex = tail.MaxIndex + 1\n", "		nextBaseIndex = tail.MaxIndex\n"}}})
	addMutant(mutant{Name: "fd/next-base-index-ignored", Fire: []string{"FD-10"},
		Edits: []edit{{"wal.go", "	} else if newState.nextBaseIndex > 0 {\n		nextBaseIndex = newState.nextBaseIndex\n	}", "	}"}}})
	addMutant(mutant{Name: "fd/head-keeps-empty-tail", Fire: []string{"FD-09"},
		Edits: []edit{{"wal.go", "				if maxIdx >= newMin {\n					head = &seg", "				if maxIdx >= newMin || newState.tail.LastIndex() == 0 {\n					head = &seg"}}})
	addMutant(mutant{Name: "fd/tail-truncation-keeps-boundary-segment", Fire: []string{"FD-09"},
		Edits: []edit{{"wal.go", "			if seg.BaseIndex <= newMax {\n				// We're done", "			if seg.BaseIndex <= newMax+1 {\n				// We're done"}}})
}
