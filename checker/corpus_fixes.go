package main

// Reverts of the repairs made to /repo (DESIGN.md section 5): each must be reported again.
func init() {
	addMutant(mutant{Name: "revert/F02-seal-marker-survives-rewind", Fire: []string{"VF-12"},
		Edits: []edit{{"segment/writer.go", "		if w.writer.indexStart >= uint64(w.writer.writeOffset) {\n			w.writer.indexStart = 0\n		}\n", ""}}})
	addMutant(mutant{Name: "revert/F11-forceseal-no-rollback", Fire: []string{"VF-13"},
		Edits: []edit{{"segment/writer.go", "			// segment as sealed although its index frame never reached the disk.\n			w.writer.commitBuf = beforeBuf\n			w.writer.crc = beforeCRC\n			w.writer.indexStart = beforeIndexStart\n", "			w.writer.commitBuf = beforeBuf\n			w.writer.crc = beforeCRC\n			_ = beforeIndexStart\n"}}})
	addMutant(mutant{Name: "writer/append-rollback-misses-offsets", Fire: []string{"VF-13"},
		Edits: []edit{{"segment/writer.go", "			w.offsets.Store(beforeOffsets)\n", "			_ = beforeOffsets\n"}}})
	addMutant(mutant{Name: "revert/F06-close-no-wakeup", Fire: []string{"ORD-21"},
		Edits: []edit{{"wal.go", "	if w.awaitRotate != nil {\n		close(w.awaitRotate)\n		w.awaitRotate = nil\n	}\n", "	w.awaitRotate = nil\n"}}})
	addMutant(mutant{Name: "revert/F05-reader-no-recheck", Fire: []string{"ORD-22"},
		Edits: []edit{{"wal.go", "	// Close may have swapped in the empty state since we checked.\n	if err := w.checkClosed(); err != nil {\n		return err\n	}\n", ""}}})
	addMutant(mutant{Name: "revert/F05-writer-recheck-before-await", Fire: []string{"ORD-22"},
		Edits: []edit{{"wal.go", "	w.awaitRotationLocked()\n\n	// Close may have completed while we waited for the lock or the rotation.\n	if err := w.checkClosed(); err != nil {\n		return err\n	}\n\n	s, release := w.acquireState()\n	defer release()\n\n	// Work out",
			"	if err := w.checkClosed(); err != nil {\n		return err\n	}\n	w.awaitRotationLocked()\n\n	s, release := w.acquireState()\n	defer release()\n\n	// Work out"}}})
	addMutant(mutant{Name: "revert/F04-open-leaks-metadb", Fire: []string{"ORD-20"},
		Edits: []edit{{"wal.go", "		w.closeSegments(toClose)\n		w.metaDB.Close()\n	}()", "		w.closeSegments(toClose)\n	}()"}}})
	addMutant(mutant{Name: "revert/F04-open-leaks-segments", Fire: []string{"ORD-20"},
		Edits: []edit{{"wal.go", "		w.closeSegments(toClose)\n		w.metaDB.Close()\n	}()", "		_ = toClose\n		w.metaDB.Close()\n	}()"}}})
	addMutant(mutant{Name: "revert/F01-open-sealed-tail", Fire: []string{"ORD-19"},
		Edits: []edit{{"wal.go", "		if sealed {\n			w.writeMu.Lock()\n			err := w.rotateSegmentLocked(indexStart)\n			w.writeMu.Unlock()\n			if err != nil {\n				return nil, err\n			}\n		}\n", "		_, _ = sealed, indexStart\n"}}})
	addMutant(mutant{Name: "wal/close-check-dropped-from-api-method", Fire: []string{"ORD-22"},
		Edits: []edit{{"wal.go", "func (w *WAL) Set(key []byte, val []byte) error {\n	if err := w.checkClosed(); err != nil {\n		return err\n	}\n", "func (w *WAL) Set(key []byte, val []byte) error {\n"}}})
	addMutant(mutant{Name: "wal/close-skips-metadb-close", Fire: []string{"ORD-21"},
		Edits: []edit{{"wal.go", "	return w.metaDB.Close()\n}", "	return nil\n}"}}})
	addMutant(mutant{Name: "wal/close-lock-before-flag", Fire: []string{"ORD-21"},
		Edits: []edit{{"wal.go", "	if old := atomic.SwapUint32(&w.closed, 1); old != 0 {\n		// Only close once\n		return nil\n	}\n\n	// Wait for writes\n	w.writeMu.Lock()\n	defer w.writeMu.Unlock()\n",
			"	// Wait for writes\n	w.writeMu.Lock()\n	defer w.writeMu.Unlock()\n	if old := atomic.SwapUint32(&w.closed, 1); old != 0 {\n		// Only close once\n		return nil\n	}\n"}}})
	addMutant(mutant{Name: "wal/missing-defer-release", Fire: []string{"ACC-05"},
		Edits: []edit{{"wal.go", "	s, release := w.acquireState()\n	defer release()\n	// Close may have swapped in the empty state since we checked.\n	if err := w.checkClosed(); err != nil {\n		return 0, err\n	}\n	return s.firstIndex(), nil",
			"	s, release := w.acquireState()\n	_ = release\n	// Close may have swapped in the empty state since we checked.\n	if err := w.checkClosed(); err != nil {\n		return 0, err\n	}\n	return s.firstIndex(), nil"}}})
	addMutant(mutant{Name: "wal/plain-read-of-closed", Fire: []string{"ACC-01"},
		Edits: []edit{{"wal.go", "	closed := atomic.LoadUint32(&w.closed)\n	if closed != 0 {\n		return ErrClosed", "	closed := w.closed\n	if closed != 0 {\n		return ErrClosed"}}})
	addMutant(mutant{Name: "writer/plain-read-of-commitIdx", Fire: []string{"ACC-01"},
		Edits: []edit{{"segment/writer.go", "	return atomic.LoadUint64(&w.commitIdx)\n", "	return w.commitIdx\n"}}})
	addMutant(mutant{Name: "writer/reader-peeks-writeOffset", Fire: []string{"ACC-03"},
		Edits: []edit{{"segment/writer.go", "	os := w.getOffsets()\n	entryIndex := idx - w.info.BaseIndex", "	os := w.getOffsets()\n	if w.writer.writeOffset == 0 {\n		return 0, types.ErrNotFound\n	}\n	entryIndex := idx - w.info.BaseIndex"}}})
	addMutant(mutant{Name: "wal/rotation-without-lock", Fire: []string{"ACC-02"},
		Edits: []edit{{"wal.go", "		indexStart := <-w.triggerRotate\n\n		w.writeMu.Lock()\n", "		indexStart := <-w.triggerRotate\n"},
			{"wal.go", "		if closed == 1 {\n			w.writeMu.Unlock()\n			return\n		}", "		if closed == 1 {\n			return\n		}"},
			{"wal.go", "		w.awaitRotate = nil\n		w.writeMu.Unlock()\n", "		w.awaitRotate = nil\n"}}})
}

func init() {
	addMutant(mutant{Name: "revert/F10-constant-codec", Fire: []string{"VF-05"},
		Edits: []edit{{"wal.go", "		Codec:      w.codec.ID(),", "		Codec:      CodecBinaryV1,"}}})
	addMutant(mutant{Name: "revert/F12-getlog-no-first-bound", Fire: []string{"VF-17"},
		Edits: []edit{{"state.go", "	if first := s.firstIndex(); first == 0 || index < first {\n		return nil, ErrNotFound\n	}\n", ""}}})
	addMutant(mutant{Name: "state/getlog-first-bound-inverted", Fire: []string{"VF-17"},
		Edits: []edit{{"state.go", "first == 0 || index < first {", "first == 0 || index > first {"}}})
	addMutant(mutant{Name: "revert/F13-verifier-delete-no-reset", Fire: []string{"VF-18"},
		Edits: []edit{{"verifier/store.go", "		atomic.StoreUint64(&s.checksum, 0)\n		atomic.StoreUint64(&s.sumStartIdx, 0)\n	}\n	return err", "	}\n	return err"}}})
	addMutant(mutant{Name: "revert/F08-head-truncation-wrap", Fire: []string{"VF-10"},
		Edits: []edit{{"wal.go", "			if maxIdx >= seg.MinIndex {\n", "			{\n"}}})
	addMutant(mutant{Name: "revert/F09-copylogs-empty-source", Fire: []string{"VF-10"},
		Edits: []edit{{"migrate/migrate.go", "	if last == 0 {\n		// Empty source log: nothing to copy (index 0 is not a log entry).\n		update(\"DONE: source log is empty, nothing to copy\")\n		return nil\n	}\n", ""}}})
}

func init() {
	addMutant(mutant{Name: "revert/F03-varint-count-unchecked", Fire: []string{"VF-02"},
		Edits: []edit{{"codec.go", "	if n <= 0 {\n", "	if false {\n"}}})
	addMutant(mutant{Name: "revert/F07-no-write-size-limit", Fire: []string{"FD-03"},
		Edits: []edit{{"segment/writer.go", "	if len(e.Data) > MaxEntrySize {\n		return ErrTooBig\n	}\n", ""}}})
	addMutant(mutant{Name: "reader/drop-maxentrysize-guard", Fire: []string{"VF-01", "FD-03"},
		Edits: []edit{{"segment/reader.go", "	if fh.len > MaxEntrySize {\n		return fh, nil, fmt.Errorf(\"%w: frame header indicates a record larger than MaxEntrySize (%d bytes)\", types.ErrCorrupt, MaxEntrySize)\n	}\n", ""}}})
	addMutant(mutant{Name: "reader/drop-fits-in-buffer-check", Fire: []string{"VF-02"},
		Edits: []edit{{"segment/reader.go", "	if (frameHeaderLen + int(fh.len)) <= len(buf.Bs) {", "	if true {"}}})
	addMutant(mutant{Name: "codec/drop-length-guard-in-bytes", Fire: []string{"VF-01", "VF-02"},
		Edits: []edit{{"codec.go", "	if n > uint64(len(d.buf)) {\n		d.err = io.ErrShortBuffer\n		return nil\n	}\n", ""}}})
	addMutant(mutant{Name: "filer/dump-drop-realloc", Fire: []string{"VF-02"},
		Edits: []edit{{"segment/filer.go", "				if frame.Len > uint32(len(buf)) {\n					buf = make([]byte, frame.Len)\n				}\n", ""}}})
	addMutant(mutant{Name: "writer/size-guard-after-buffering", Fire: []string{"FD-03"},
		Edits: []edit{{"segment/writer.go", "	if len(e.Data) > MaxEntrySize {\n		return ErrTooBig\n	}\n\n	fh := frameHeader{\n		typ: FrameEntry,\n		len: uint32(len(e.Data)),\n	}\n	bufOffset, err := w.appendFrame(fh, e.Data)\n	if err != nil {\n		return err\n	}",
			"	fh := frameHeader{\n		typ: FrameEntry,\n		len: uint32(len(e.Data)),\n	}\n	bufOffset, err := w.appendFrame(fh, e.Data)\n	if err != nil {\n		return err\n	}\n	if len(e.Data) > MaxEntrySize {\n		return ErrTooBig\n	}"}}})
}

func init() {
	addMutant(mutant{Name: "revert/F14-plain-bolt-handle", Fire: []string{"ACC-06"},
		Edits: []edit{{"metadb/metadb.go", "	db atomic.Pointer[bbolt.DB]\n}", "	db atomic.Pointer[bbolt.DB]\n	closing bool\n}"},
			{"metadb/metadb.go", "	bb := db.db.Swap(nil)\n	if bb == nil {\n		return nil\n	}\n	return bb.Close()", "	db.closing = true\n	bb := db.db.Swap(nil)\n	if bb == nil {\n		return nil\n	}\n	return bb.Close()"},
			{"metadb/metadb.go", "func (db *BoltMetaDB) GetStable(key []byte) ([]byte, error) {\n	bb := db.db.Load()\n	if bb == nil {", "func (db *BoltMetaDB) GetStable(key []byte) ([]byte, error) {\n	bb := db.db.Load()\n	if bb == nil || db.closing {"}},
		Note: "a plain flag written by Close and read by GetStable: same race shape as the original db field"})
}
