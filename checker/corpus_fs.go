package main

func init() {
	addMutant(mutant{Name: "fs/revert-F15-swap-before-dirsync", Fire: []string{"ORD-05"},
		Edits: []edit{{"fs/file.go", "	if atomic.LoadUint32(&f.new) == 0 {\n		if err := syncDir(f.dir); err != nil {", "	if atomic.SwapUint32(&f.new, 1) == 0 {\n		if err := syncDir(f.dir); err != nil {"}}})
	addMutant(mutant{Name: "fs/drop-dirsync-in-File.Sync", Fire: []string{"ORD-05"},
		Edits: []edit{{"fs/file.go", "		if err := syncDir(f.dir); err != nil {", "		if err := error(nil); err != nil {"}}})
	addMutant(mutant{Name: "fs/ignore-dirsync-error", Fire: []string{"ORD-05"},
		Edits: []edit{{"fs/file.go", "		if err := syncDir(f.dir); err != nil {", "		if err := syncDir(f.dir); err != nil && false {"}}})
	addMutant(mutant{Name: "fs/inverted-flag-test", Fire: []string{"ORD-05"},
		Edits: []edit{{"fs/file.go", "	if atomic.LoadUint32(&f.new) == 0 {", "	if atomic.LoadUint32(&f.new) != 0 {"}}})
	addMutant(mutant{Name: "fs/drop-file-fsync", Fire: []string{"ORD-05"},
		Edits: []edit{{"fs/file.go", "	if err := f.File.Sync(); err != nil {\n		return err\n	}\n", ""}}})
	addMutant(mutant{Name: "fs/drop-O_EXCL", Fire: []string{"ORD-08"},
		Edits: []edit{{"fs/fs.go", "os.O_CREATE|os.O_EXCL|os.O_RDWR", "os.O_CREATE|os.O_RDWR"}}})
	addMutant(mutant{Name: "fs/return-bare-os-file", Fire: []string{"ORD-08"},
		Edits: []edit{{"fs/fs.go", "	return fi, nil\n}", "	_ = fi\n	return f, nil\n}"}}})
	addMutant(mutant{Name: "fs/preallocate-no-extend", Fire: []string{"ORD-08"},
		Edits: []edit{{"fs/fs.go", "fileutil.Preallocate(f, int64(size), true)", "fileutil.Preallocate(f, int64(size), false)"}}})
	addMutant(mutant{Name: "fs/preallocate-error-ignored", Fire: []string{"ORD-08"},
		Edits: []edit{{"fs/fs.go", "		if err := fileutil.Preallocate(f, int64(size), true); err != nil {\n			f.Close()\n			return nil, err\n		}", "		fileutil.Preallocate(f, int64(size), true)"}}})
	addMutant(mutant{Name: "fs/delete-without-dirsync", Fire: []string{"ORD-06"},
		Edits: []edit{{"fs/fs.go", "	return syncDir(dir)\n}", "	return nil\n}"}}})
	addMutant(mutant{Name: "fs/delete-dirsync-before-remove", Fire: []string{"ORD-06"},
		Edits: []edit{{"fs/fs.go", "	if err := os.Remove(filepath.Join(dir, name)); err != nil {\n		return err\n	}\n	// Make sure parent directory metadata is fsynced too before we call this\n	// \"done\".\n	return syncDir(dir)",
			"	if err := syncDir(dir); err != nil {\n		return err\n	}\n	return os.Remove(filepath.Join(dir, name))"}}})
	addMutant(mutant{Name: "fs/syncDir-drops-sync-error", Fire: []string{"ORD-07"},
		Edits: []edit{{"fs/fs.go", "	err = f.Sync()\n	closeErr := f.Close()\n	if err != nil {\n		return err\n	}\n	return closeErr", "	f.Sync()\n	return f.Close()"}}})
	addMutant(mutant{Name: "metadb/rename-before-commit", Fire: []string{"ORD-09"},
		Edits: []edit{{"metadb/metadb.go", "	if err := tx.Commit(); err != nil {\n		return err\n	}\n", ""},
			{"metadb/metadb.go", "	// And Fsync that parent dir to make sure the new new file with it's new name\n", "	if err := tx.Commit(); err != nil {\n		return err\n	}\n"}}})
	addMutant(mutant{Name: "metadb/init-in-place", Fire: []string{"ORD-09"},
		Edits: []edit{{"metadb/metadb.go", "	if err := safeInitBoltDB(dir); err != nil {\n		return fmt.Errorf(\"failed initializing meta DB: %w\", err)\n	}\n", ""}}})
	addMutant(mutant{Name: "metadb/no-dirsync-after-rename", Fire: []string{"ORD-09"},
		Edits: []edit{{"metadb/metadb.go", "	err = dirF.Sync()\n	closeErr := dirF.Close()\n	if err != nil {\n		return err\n	}\n	return closeErr", "	return dirF.Close()"}}})
	addMutant(mutant{Name: "metadb/missing-stable-bucket", Fire: []string{"ORD-09"},
		Edits: []edit{{"metadb/metadb.go", "	_, err = tx.CreateBucket([]byte(StableBucket))\n	if err != nil {\n		return err\n	}\n", ""}}})
	addMutant(mutant{Name: "metadb/setstable-no-commit", Fire: []string{"ORD-10"},
		Edits: []edit{{"metadb/metadb.go", "	if err != nil {\n		return err\n	}\n\n	return tx.Commit()\n}\n\n// Close", "	if err != nil {\n		return err\n	}\n\n	return nil\n}\n\n// Close"}}})
	addMutant(mutant{Name: "metadb/setstable-commit-error-dropped", Fire: []string{"ORD-10"},
		Edits: []edit{{"metadb/metadb.go", "	if err != nil {\n		return err\n	}\n\n	return tx.Commit()\n}\n\n// Close", "	if err != nil {\n		return err\n	}\n\n	tx.Commit()\n	return nil\n}\n\n// Close"}}})
	addMutant(mutant{Name: "metadb/getstable-wrong-bucket", Fire: []string{"ORD-10"},
		Edits: []edit{{"metadb/metadb.go", "	stable := tx.Bucket([]byte(StableBucket))\n\n	val := stable.Get(key)", "	stable := tx.Bucket([]byte(MetaBucket))\n\n	val := stable.Get(key)"}}})
	addMutant(mutant{Name: "metadb/commitstate-readonly-txn", Fire: []string{"ORD-10"},
		Edits: []edit{{"metadb/metadb.go", "	tx, err := bb.Begin(true)\n	if err != nil {\n		return err\n	}\n	defer tx.Rollback()\n	meta := tx.Bucket([]byte(MetaBucket))\n\n	if err := meta.Put(", "	tx, err := bb.Begin(false)\n	if err != nil {\n		return err\n	}\n	defer tx.Rollback()\n	meta := tx.Bucket([]byte(MetaBucket))\n\n	if err := meta.Put("}}})
	addMutant(mutant{Name: "silent/fs-always-dirsync", Silent: true, Note: "syncing the directory on every Sync is slower but satisfies the property",
		Edits: []edit{{"fs/file.go", "	if atomic.LoadUint32(&f.new) == 0 {\n		if err := syncDir(f.dir); err != nil {", "	{\n		if err := syncDir(f.dir); err != nil {"}}})
}
