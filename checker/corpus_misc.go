package main

func init() {
	addMutant(mutant{Name: "migrate/final-flush-dropped", Fire: []string{"ORD-26"},
		Edits: []edit{{"migrate/migrate.go", "	if len(batch) > 0 {\n		// Flush the batch\n		batchSummary := fmt.Sprintf(\"batch %6d: %d entries ending at %d\", batchN, len(batch), last)\n		err := dst.StoreLogs(batch)\n		if err != nil {\n			return fmt.Errorf(\"failed writing %s: %w\", batchSummary, err)\n		}\n", "	if len(batch) > 0 {\n		batchSummary := fmt.Sprintf(\"batch %6d: %d entries ending at %d\", batchN, len(batch), last)\n"}}})
	addMutant(mutant{Name: "migrate/batch-not-reset", Fire: []string{"ORD-26"},
		Edits: []edit{{"migrate/migrate.go", "			batchN++\n			batch = batch[:0]\n			totalBytes += batchSize", "			batchN++\n			totalBytes += batchSize"}}})
	addMutant(mutant{Name: "migrate/log-hoisted-out-of-loop", Fire: []string{"ORD-26"},
		Edits: []edit{{"migrate/migrate.go", "	for idx := first; idx <= last; idx++ {\n		if ctx.Err() != nil {\n			return ctx.Err()\n		}\n		var log raft.Log\n", "	var log raft.Log\n	for idx := first; idx <= last; idx++ {\n		if ctx.Err() != nil {\n			return ctx.Err()\n		}\n"}}})
	addMutant(mutant{Name: "migrate/no-ctx-check-in-copylogs", Fire: []string{"ORD-26"},
		Edits: []edit{{"migrate/migrate.go", "	for idx := first; idx <= last; idx++ {\n		if ctx.Err() != nil {\n			return ctx.Err()\n		}\n", "	for idx := first; idx <= last; idx++ {\n"}}})
	addMutant(mutant{Name: "migrate/progress-not-closed-on-error", Fire: []string{"ORD-26"},
		Edits: []edit{{"migrate/migrate.go", "func CopyLogs(ctx context.Context, dst, src raft.LogStore, batchBytes int, progress chan<- string) error {\n	defer func() {\n		if progress != nil {\n			close(progress)\n		}\n	}()\n", "func CopyLogs(ctx context.Context, dst, src raft.LogStore, batchBytes int, progress chan<- string) error {\n"},
			{"migrate/migrate.go", "	update(\"DONE: took %s to copy %d entries (%d bytes)\", time.Since(st), total, totalBytes)\n	return nil", "	update(\"DONE: took %s to copy %d entries (%d bytes)\", time.Since(st), total, totalBytes)\n	if progress != nil {\n		close(progress)\n	}\n	return nil"}}})
	addMutant(mutant{Name: "filer/open-skips-header-validation", Fire: []string{"ORD-27"},
		Edits: []edit{{"segment/filer.go", "	if err := validateFileHeader(*gotInfo, info); err != nil {\n		return nil, err\n	}\n\n	return openReader(info, rf, &f.bufPool)", "	_ = gotInfo\n	return openReader(info, rf, &f.bufPool)"}}})
	addMutant(mutant{Name: "writer/recovery-skips-header-validation", Fire: []string{"ORD-27"},
		Edits: []edit{{"segment/writer.go", "		w.offsets.Store(offsets)\n\n		// Since at least one commit was found, the header better be valid!\n		return validateFileHeader(*readInfo, w.info)\n	}\n\n	// Last commit was incomplete", "		w.offsets.Store(offsets)\n		return nil\n	}\n\n	// Last commit was incomplete"}}})
	addMutant(mutant{Name: "codec/decode-returns-subslice", Fire: []string{"VF-03"},
		Edits: []edit{{"codec.go", "	bs := make([]byte, n)\n	copy(bs, d.buf[:n])\n	d.buf = d.buf[n:]\n	return bs", "	bs := d.buf[:n]\n	d.buf = d.buf[n:]\n	return bs"}}})
	addMutant(mutant{Name: "metadb/getstable-returns-bolt-memory", Fire: []string{"VF-03"},
		Edits: []edit{{"metadb/metadb.go", "	ret := make([]byte, len(val))\n	copy(ret, val)\n	return ret, nil", "	return val, nil"}}})
	addMutant(mutant{Name: "wal/segment-id-not-incremented", Fire: []string{"VF-07"},
		Edits: []edit{{"wal.go", "	newTail := w.newSegment(newState.nextSegmentID, nextBaseIndex)\n	newState.nextSegmentID++\n", "	newTail := w.newSegment(newState.nextSegmentID, nextBaseIndex)\n"}}})
	addMutant(mutant{Name: "wal/segment-id-from-base-index", Fire: []string{"VF-07"},
		Edits: []edit{{"wal.go", "	newTail := w.newSegment(newState.nextSegmentID, nextBaseIndex)", "	newTail := w.newSegment(nextBaseIndex, nextBaseIndex)"}}})
	addMutant(mutant{Name: "wal/next-id-not-persisted", Fire: []string{"VF-07"},
		Edits: []edit{{"state.go", "		NextSegmentID: s.nextSegmentID,\n", ""}}})
	addMutant(mutant{Name: "wal/clone-resets-next-id", Fire: []string{"VF-07"},
		Edits: []edit{{"state.go", "	return state{\n		nextSegmentID: s.nextSegmentID,", "	return state{\n		nextSegmentID: 0,"}}})
	addMutant(mutant{Name: "wal/open-sweeps-live-segments", Fire: []string{"VF-14"},
		Edits: []edit{{"wal.go", "		// We want to keep this segment since it's still in the metaDB list!\n		delete(toDelete, si.ID)\n", ""}}})
	addMutant(mutant{Name: "wal/open-unlist-after-open", Fire: []string{"VF-14"},
		Edits: []edit{{"wal.go", "		// We want to keep this segment since it's still in the metaDB list!\n		delete(toDelete, si.ID)\n", ""},
			{"wal.go", "		// Store the open reader to get logs from\n", "		delete(toDelete, si.ID)\n		// Store the open reader to get logs from\n"}}, Note: "the unsealed-tail path no longer removes its segment from the sweep set"})
	addMutant(mutant{Name: "wal/truncation-forgets-to-delete-file", Fire: []string{"VF-15"},
		Edits: []edit{{"wal.go", "			toDelete[seg.ID] = seg.BaseIndex\n			toClose = append(toClose, seg.r)\n			newState.segments = newState.segments.Delete(seg.BaseIndex)\n			nTruncated += (maxIdx - seg.MinIndex + 1) // +1 because MaxIndex is inclusive\n		}\n\n		tail := newState.getTailInfo()",
			"			toClose = append(toClose, seg.r)\n			newState.segments = newState.segments.Delete(seg.BaseIndex)\n			nTruncated += (maxIdx - seg.MinIndex + 1) // +1 because MaxIndex is inclusive\n		}\n\n		tail := newState.getTailInfo()"}}})
	addMutant(mutant{Name: "wal/list-error-dropped", Fire: []string{"VF-16"},
		Edits: []edit{{"wal.go", "	toDelete, err := w.sf.List()\n	if err != nil {\n		return nil, err\n	}", "	toDelete, _ := w.sf.List()"}}})
	addMutant(mutant{Name: "metadb/put-error-dropped", Fire: []string{"VF-16", "ORD-10"},
		Edits: []edit{{"metadb/metadb.go", "	if err := meta.Put([]byte(MetaKey), encoded); err != nil {\n		return err\n	}", "	meta.Put([]byte(MetaKey), encoded)"}}})
	addMutant(mutant{Name: "silent/extract-crc-helper", Silent: true,
		Edits: []edit{{"segment/writer.go", "	gotCrc := crc32.Checksum(batchBuf, castagnoliTable)\n	if gotCrc == finalCommit.fh.crc {", "	gotCrc := crcOf(batchBuf)\n	if gotCrc == finalCommit.fh.crc {"},
			{"segment/writer.go", "// Close implements io.Closer\nfunc (w *Writer) Close() error {", "func crcOf(b []byte) uint32 { return crc32.Checksum(b, castagnoliTable) }\n\n// Close implements io.Closer\nfunc (w *Writer) Close() error {"}}})
	addMutant(mutant{Name: "writer/recovery-crc-check-inverted", Fire: []string{"VF-11"},
		Edits: []edit{{"segment/writer.go", "	if gotCrc == finalCommit.fh.crc {", "	if gotCrc != finalCommit.fh.crc {"}}})
	addMutant(mutant{Name: "writer/recovery-crc-check-removed", Fire: []string{"VF-11"},
		Edits: []edit{{"segment/writer.go", "	if gotCrc == finalCommit.fh.crc {", "	if gotCrc == gotCrc {"}}})
	addMutant(mutant{Name: "writer/recovery-no-rewind-on-mismatch", Fire: []string{"VF-11"},
		Edits: []edit{{"segment/writer.go", "	w.writer.writeOffset = uint32(prevCommit.offset + frameHeaderLen)\n	offsets = offsets[:prevCommit.offsetsLen]", "	offsets = offsets[:prevCommit.offsetsLen]"}}})
}

func init() {
	// obligations added after seeded round 3
	addMutant(mutant{Name: "recovery/skip-crc-when-commit-adds-no-entries", Fire: []string{"VF-11"},
		Edits: []edit{{"segment/writer.go", "	// Last frame was a commit frame! Let's check that all the data written in\n	// that commit frame made it to disk.\n",
			"	if prevCommit != nil && finalCommit.offsetsLen == prevCommit.offsetsLen {\n		return validateFileHeader(*readInfo, w.info)\n	}\n"}}})
	addMutant(mutant{Name: "recovery/trailing-test-inverted", Fire: []string{"VF-11"},
		Edits: []edit{{"segment/writer.go", "	if finalCommit.offsetsLen < len(offsets) {", "	if finalCommit.offsetsLen <= len(offsets) {"}}})
	addMutant(mutant{Name: "metadb/stale-tmp-not-removed", Fire: []string{"ORD-09"},
		Edits: []edit{{"metadb/metadb.go", "	if err := os.RemoveAll(tmpFileName); err != nil {\n		return err\n	}\n", ""}}})
	addMutant(mutant{Name: "metadb/removes-final-instead-of-tmp", Fire: []string{"ORD-09"},
		Edits: []edit{{"metadb/metadb.go", "	if err := os.RemoveAll(tmpFileName); err != nil {", "	if err := os.RemoveAll(filepath.Join(dir, FileName+\".old\")); err != nil {"}}})
	addMutant(mutant{Name: "writer/offsets-loaded-before-commitidx", Fire: []string{"ORD-28"},
		Edits: []edit{{"segment/writer.go", "	if idx < w.info.BaseIndex || idx < w.info.MinIndex || idx > w.LastIndex() {\n		return 0, types.ErrNotFound\n	}\n	os := w.getOffsets()\n",
			"	os := w.getOffsets()\n	if idx < w.info.BaseIndex || idx < w.info.MinIndex || idx > w.LastIndex() {\n		return 0, types.ErrNotFound\n	}\n"}}})
	addMutant(mutant{Name: "writer/offsets-stored-after-publish", Fire: []string{"ORD-28"},
		Edits: []edit{{"segment/writer.go", "	// Update commitIdx atomically\n	offsets := w.getOffsets()\n", "	// Update commitIdx atomically\n	offsets := w.getOffsets()\n	defer w.offsets.Store(offsets)\n"}}})
	addMutant(mutant{Name: "wal/post-commit-recovers-existing-file", Fire: []string{"ACC-07"},
		Edits: []edit{{"wal.go", "		sw, err := w.sf.Create(newTail)\n		if err != nil {\n			return err\n		}\n",
			"		sw, err := w.sf.Create(newTail)\n		if err != nil {\n			sw, err = w.sf.RecoverTail(newTail)\n		}\n		if err != nil {\n			return err\n		}\n"}}})
	addMutant(mutant{Name: "wal/close-closes-readers-inline", Fire: []string{"ACC-07"},
		Edits: []edit{{"wal.go", "		if seg.r != nil {\n			toClose = append(toClose, seg.r)\n		}\n	}\n	// Store finalizer to run once all readers are done.",
			"		if seg.r != nil {\n			seg.r.Close()\n		}\n	}\n	// Store finalizer to run once all readers are done."}}})
	addMutant(mutant{Name: "wal/truncation-deletes-inline", Fire: []string{"ACC-07"},
		Edits: []edit{{"wal.go", "		fin := func() {\n			w.closeSegments(toClose)\n			w.deleteSegments(toDelete)\n		}\n		return fin, postCommit, nil",
			"		w.deleteSegments(toDelete)\n		fin := func() {\n			w.closeSegments(toClose)\n		}\n		return fin, postCommit, nil"}}})
	addMutant(mutant{Name: "silent/finalizer-built-by-helper", Silent: true,
		Edits: []edit{{"wal.go", "		fin := func() {\n			w.closeSegments(toClose)\n			w.deleteSegments(toDelete)\n		}\n		return fin, postCommit, nil",
			"		return w.mkFin(toClose, toDelete), postCommit, nil"},
			{"wal.go", "func (w *WAL) deleteSegments(toDelete map[uint64]uint64) {", "func (w *WAL) mkFin(toClose []io.Closer, toDelete map[uint64]uint64) func() {\n	return func() {\n		w.closeSegments(toClose)\n		w.deleteSegments(toDelete)\n	}\n}\n\nfunc (w *WAL) deleteSegments(toDelete map[uint64]uint64) {"}}})
	addMutant(mutant{Name: "silent/offsetforframe-split-conditions", Silent: true,
		Edits: []edit{{"segment/writer.go", "	if idx < w.info.BaseIndex || idx < w.info.MinIndex || idx > w.LastIndex() {\n		return 0, types.ErrNotFound\n	}\n	os := w.getOffsets()\n",
			"	if idx < w.info.BaseIndex || idx < w.info.MinIndex {\n		return 0, types.ErrNotFound\n	}\n	if last := w.LastIndex(); idx > last {\n		return 0, types.ErrNotFound\n	}\n	os := w.getOffsets()\n"}}})
}

func init() {
	// whole-identifier renames of unexported names: anchors must be found by role
	addMutant(mutant{Name: "silent/rename-state-methods", Silent: true,
		Renames: map[string]string{"firstIndex": "firstIdx", "lastIndex": "lastIdx", "getLog": "readEntry", "findSegmentReader": "readerFor", "getTailInfo": "tailInfo"}})
	addMutant(mutant{Name: "silent/rename-state-type-and-txn", Silent: true,
		Renames: map[string]string{"state": "snapshot", "stateTxn": "txnBody", "createNextSegment": "allocTail", "mutateStateLocked": "applyTxnLocked"}})
	addMutant(mutant{Name: "silent/rename-state-release", Silent: true,
		Renames: map[string]string{"release": "unpin", "acquire": "pin", "acquireState": "pinState"}})
	addMutant(mutant{Name: "silent/rename-verifier-internals", Silent: true,
		Renames: map[string]string{"verify": "checkRange", "updateVerifyState": "stepChecksum", "checksum": "runningSum", "sumStartIdx": "rangeStart", "runVerifier": "verifyLoop", "triggerVerify": "handOff"}})
	addMutant(mutant{Name: "silent/rename-segment-functions", Silent: true,
		Renames: map[string]string{"findFrameOffset": "locateFrame", "padLen": "padding", "encodedFrameSize": "frameSizeOnDisk", "readFrameHeader": "parseFrameHeader", "writeFrameHeader": "putFrameHeader"}})
	addMutant(mutant{Name: "silent/rename-writer-fields", Silent: true,
		Renames: map[string]string{"commitIdx": "durableIdx", "commitBuf": "pending", "writeOffset": "fileOffset", "indexStart": "sealOffset", "offsets": "entryOffsets"}})
	addMutant(mutant{Name: "silent/rename-writer-crc", Silent: true,
		Renames: map[string]string{"crc": "runningCRC"}})
	addMutant(mutant{Name: "silent/rename-metadb-and-wal-fields", Silent: true,
		Renames: map[string]string{"ensureOpen": "openOnce", "safeInitBoltDB": "createMetaDB", "codec": "entryCodec", "awaitRotate": "rotationDone", "triggerRotate": "rotateCh"}})
}

func init() {
	// obligations added after seeded round 4
	addMutant(mutant{Name: "wal/open-cleanup-gets-defer-time-snapshot", Fire: []string{"ORD-20"},
		Edits: []edit{{"wal.go", "	defer func() {\n		if opened {\n			return\n		}\n		toClose := make([]io.Closer, 0, newState.segments.Len())\n		it := newState.segments.Iterator()",
			"	defer func(segs *immutable.SortedMap[uint64, segmentState]) {\n		if opened {\n			return\n		}\n		toClose := make([]io.Closer, 0, segs.Len())\n		it := segs.Iterator()"},
			{"wal.go", "		w.closeSegments(toClose)\n		w.metaDB.Close()\n	}()", "		w.closeSegments(toClose)\n		w.metaDB.Close()\n	}(newState.segments)"}}})
	addMutant(mutant{Name: "silent/open-cleanup-named-helper-by-pointer", Silent: true,
		Edits: []edit{{"wal.go", "	defer func() {\n		if opened {\n			return\n		}\n		toClose := make([]io.Closer, 0, newState.segments.Len())\n		it := newState.segments.Iterator()\n		for !it.Done() {\n			_, seg, _ := it.Next()\n			if seg.r != nil {\n				toClose = append(toClose, seg.r)\n			}\n		}\n		w.closeSegments(toClose)\n		w.metaDB.Close()\n	}()",
			"	defer w.abortOpen(&opened, &newState)"},
			{"wal.go", "func (w *WAL) deleteSegments(toDelete map[uint64]uint64) {", "func (w *WAL) abortOpen(opened *bool, st *state) {\n	if *opened {\n		return\n	}\n	toClose := make([]io.Closer, 0, st.segments.Len())\n	it := st.segments.Iterator()\n	for !it.Done() {\n		_, seg, _ := it.Next()\n		if seg.r != nil {\n			toClose = append(toClose, seg.r)\n		}\n	}\n	w.closeSegments(toClose)\n	w.metaDB.Close()\n}\n\nfunc (w *WAL) deleteSegments(toDelete map[uint64]uint64) {"}}})
	addMutant(mutant{Name: "reader/reuse-closed-pooled-buffer", Fire: []string{"VF-22"},
		Edits: []edit{{"segment/reader.go", "	buf = &types.PooledBuffer{\n		Bs: make([]byte, fh.len),", "	buf.Bs = make([]byte, fh.len)\n	_ = &types.PooledBuffer{\n		Bs: nil,"}}})
	addMutant(mutant{Name: "reader/double-close-on-error", Fire: []string{"VF-22"},
		Edits: []edit{{"segment/reader.go", "	if fh.len > MaxEntrySize {\n		return fh, nil,", "	if fh.len > MaxEntrySize {\n		buf.Close()\n		return fh, nil,"}}})
	addMutant(mutant{Name: "writer/early-flush-in-appendFrame", Fire: []string{"ORD-29"},
		Edits: []edit{{"segment/writer.go", "	w.writer.crc = crc32.Update(w.writer.crc, castagnoliTable, w.writer.commitBuf[bufOffset:bufOffset+l])\n	return bufOffset, nil",
			"	w.writer.crc = crc32.Update(w.writer.crc, castagnoliTable, w.writer.commitBuf[bufOffset:bufOffset+l])\n	if len(w.writer.commitBuf) >= 16*1024*1024 {\n		if err := w.flush(); err != nil {\n			return 0, err\n		}\n	}\n	return bufOffset, nil"}}})
	addMutant(mutant{Name: "verifier/hash-skips-every-config-entry", Fire: []string{"VF-04"},
		Edits: []edit{{"verifier/verifier.go", "	if log.Index == 1 && log.Type == raft.LogConfiguration {", "	if log.Type == raft.LogConfiguration {"}}})
	addMutant(mutant{Name: "verifier/hash-skips-noop-entries", Fire: []string{"VF-04"},
		Edits: []edit{{"verifier/verifier.go", "	if log.Index == 1 && log.Type == raft.LogConfiguration {\n		return 0\n	}", "	if log.Index == 1 && log.Type == raft.LogConfiguration {\n		return 0\n	}\n	if log.Type == raft.LogNoop {\n		return sum\n	}"}}})
	addMutant(mutant{Name: "verifier/checkpoint-counted-before-store", Fire: []string{"ORD-24"},
		Edits: []edit{{"verifier/store.go", "				triggeredReports = append(triggeredReports, *vr)\n", "				triggeredReports = append(triggeredReports, *vr)\n				s.metrics.IncrementCounter(\"checkpoints_written\", 1)\n"},
			{"verifier/store.go", "	if len(triggeredReports) > 0 {\n		s.metrics.IncrementCounter(\"checkpoints_written\", uint64(len(triggeredReports)))\n	}\n", ""}}})
	addMutant(mutant{Name: "wal/tail-truncation-counter-uses-writer-lastindex", Fire: []string{"VF-10"},
		Edits: []edit{{"wal.go", "			if seg.SealTime.IsZero() {\n				maxIdx = newState.lastIndex()\n			}", "			if seg.SealTime.IsZero() {\n				maxIdx = newState.tail.LastIndex()\n			}"}}})
}

func init() {
	addMutant(mutant{Name: "silent/rename-verifier-channel-and-callback", Silent: true,
		Renames: map[string]string{"verifyCh": "reports", "reportFn": "onReport", "checkpointFn": "isCheckpoint"}})
	addMutant(mutant{Name: "silent/rename-codec-helpers", Silent: true,
		Renames: map[string]string{"encoder": "fieldWriter", "decoder": "fieldReader", "scratch": "tmp"}})
}

func init() {
	addMutant(mutant{Name: "migrate/copystable-swaps-extra-lists", Fire: []string{"VF-23"},
		Edits: []edit{{"migrate/migrate.go", "	for _, k := range append(knownIntKeys, extraIntKeys...) {", "	for _, k := range append(knownIntKeys, extraKeys...) {"},
			{"migrate/migrate.go", "	for _, k := range append(knownKeys, extraKeys...) {", "	for _, k := range append(knownKeys, extraIntKeys...) {"}}})
	addMutant(mutant{Name: "migrate/copystable-ignores-extra-int-keys", Fire: []string{"VF-23"},
		Edits: []edit{{"migrate/migrate.go", "	for _, k := range append(knownIntKeys, extraIntKeys...) {", "	for _, k := range knownIntKeys {"}}})
	addMutant(mutant{Name: "migrate/copystable-reads-destination", Fire: []string{"VF-23"},
		Edits: []edit{{"migrate/migrate.go", "		v, err := src.Get(k)", "		v, err := dst.Get(k)"}}})
	addMutant(mutant{Name: "migrate/copystable-skips-unreadable-key", Fire: []string{"VF-23"},
		Edits: []edit{{"migrate/migrate.go", "		v, err := src.Get(k)\n		if err != nil {\n			return fmt.Errorf(\"failed to read key %s: %w\", k, err)\n		}", "		v, err := src.Get(k)\n		if err != nil {\n			continue\n		}"}}})
}

func init() {
	// obligations added after seeded round 5
	addMutant(mutant{Name: "fs/create-via-tmp-and-rename", Fire: []string{"ORD-08"},
		Edits: []edit{{"fs/fs.go", "	f, err := os.OpenFile(filepath.Join(dir, name), os.O_CREATE|os.O_EXCL|os.O_RDWR, os.FileMode(0644))\n	if err != nil {\n		return nil, err\n	}",
			"	f, err := os.OpenFile(filepath.Join(dir, name+\".tmp\"), os.O_CREATE|os.O_EXCL|os.O_RDWR, os.FileMode(0644))\n	if err != nil {\n		return nil, err\n	}\n	if err := os.Rename(filepath.Join(dir, name+\".tmp\"), filepath.Join(dir, name)); err != nil {\n		return nil, err\n	}"}}})
	addMutant(mutant{Name: "silent/setuint64-encode-helper-local-array", Silent: true,
		Edits: []edit{{"wal.go", "	var buf [8]byte\n	binary.LittleEndian.PutUint64(buf[:], val)\n	return w.Set(key, buf[:])", "	return w.Set(key, encodeU64(val))"},
			{"wal.go", "func (w *WAL) triggerRotateLocked(", "func encodeU64(val uint64) []byte {\n	var buf [8]byte\n	binary.LittleEndian.PutUint64(buf[:], val)\n	return buf[:]\n}\n\nfunc (w *WAL) triggerRotateLocked("}}})
	addMutant(mutant{Name: "wal/setuint64-returns-pooled-buffer", Fire: []string{"VF-24"},
		Edits: []edit{{"wal.go", "	var buf [8]byte\n	binary.LittleEndian.PutUint64(buf[:], val)\n	return w.Set(key, buf[:])", "	return w.Set(key, encodeU64(val))"},
			{"wal.go", "func (w *WAL) triggerRotateLocked(", "var u64Pool = sync.Pool{New: func() interface{} { return new([8]byte) }}\n\nfunc encodeU64(val uint64) []byte {\n	buf := u64Pool.Get().(*[8]byte)\n	defer u64Pool.Put(buf)\n	binary.LittleEndian.PutUint64(buf[:], val)\n	return buf[:]\n}\n\nfunc (w *WAL) triggerRotateLocked("}}})
	addMutant(mutant{Name: "reader/bytes-of-closed-buffer-copied-later", Fire: []string{"VF-22"},
		Edits: []edit{{"segment/reader.go", "	// Need to read again, with a bigger buffer, return this one\n	buf.Close()\n", "	head := buf.Bs[frameHeaderLen:]\n	buf.Close()\n"},
			{"segment/reader.go", "	if _, err := r.rf.ReadAt(buf.Bs, int64(offset+frameHeaderLen)); err != nil {", "	n = copy(buf.Bs, head)\n	if _, err := r.rf.ReadAt(buf.Bs[n:], int64(offset)+int64(frameHeaderLen+n)); err != nil {"}}})
	addMutant(mutant{Name: "recovery/indexstart-from-record-without-header-len", Fire: []string{"TAB-03"},
		Edits: []edit{{"segment/writer.go", "			w.writer.indexStart = uint64(offset) + frameHeaderLen\n", "			pendingIndex = uint64(offset)\n"},
			{"segment/writer.go", "	offsets := make([]uint32, 0, 32*1024)\n\n	readInfo, err := readThroughSegment(", "	offsets := make([]uint32, 0, 32*1024)\n	var pendingIndex uint64\n	defer func() {\n		if pendingIndex != 0 {\n			w.writer.indexStart = pendingIndex\n		}\n	}()\n\n	readInfo, err := readThroughSegment("}}})
	addMutant(mutant{Name: "wal/deleterange-skips-rotation-wait-for-head", Fire: []string{"ORD-15"},
		Edits: []edit{{"wal.go", "	// Ensure queued rotation has completed before us if we raced with it for\n	// write lock.\n	w.awaitRotationLocked()\n\n	// Close may have completed while we waited for the lock or the rotation.\n	if err := w.checkClosed(); err != nil {\n		return err\n	}\n\n	s, release := w.acquireState()\n	defer release()\n\n	// Work out what type of truncation this is.",
			"	if err := w.checkClosed(); err != nil {\n		return err\n	}\n	if min > w.loadState().firstIndex() {\n		w.awaitRotationLocked()\n		if err := w.checkClosed(); err != nil {\n			return err\n		}\n	}\n\n	s, release := w.acquireState()\n	defer release()\n\n	// Work out what type of truncation this is."}}})
}

func init() {
	// a *correct* chunked CRC of the last batch must raise no alarm (cf. seed C15-r5, which is declined)
	addMutant(mutant{Name: "silent/recovery-crc-in-correct-chunks", Silent: true,
		Edits: []edit{{"segment/writer.go", "	batchBuf := make([]byte, bufLen)\n\n	if _, err := w.wf.ReadAt(batchBuf, finalCommit.crcStart); err != nil {\n		return fmt.Errorf(\"failed to read last committed batch for CRC validation: %w\", err)\n	}\n\n	gotCrc := crc32.Checksum(batchBuf, castagnoliTable)\n",
			"	gotCrc, err := w.checksumRange(finalCommit.crcStart, bufLen)\n	if err != nil {\n		return fmt.Errorf(\"failed to read last committed batch for CRC validation: %w\", err)\n	}\n"},
			{"segment/writer.go", "// Close implements io.Closer\nfunc (w *Writer) Close() error {", "func (w *Writer) checksumRange(start, length int64) (uint32, error) {\n	buf := make([]byte, minBufSize)\n	crc := uint32(0)\n	for done := int64(0); done < length; {\n		chunk := buf\n		if rest := length - done; rest < int64(len(chunk)) {\n			chunk = buf[:rest%minBufSize]\n		}\n		if _, err := w.wf.ReadAt(chunk, start+done); err != nil {\n			return 0, err\n		}\n		crc = crc32.Update(crc, castagnoliTable, chunk)\n		done += int64(len(chunk))\n	}\n	return crc, nil\n}\n\n// Close implements io.Closer\nfunc (w *Writer) Close() error {"}}})
}

func init() {
	addMutant(mutant{Name: "filer/open-accepts-short-header-read", Fire: []string{"VF-26"},
		Edits: []edit{{"segment/filer.go", "	if _, err := rf.ReadAt(hdr[:], 0); err != nil {", "	n, err := rf.ReadAt(hdr[:], 0)\n	if errors.Is(err, io.EOF) && n >= frameHeaderLen {\n		err = nil\n	}\n	if err != nil {"}}})
	addMutant(mutant{Name: "silent/filer-open-tolerates-eof-with-full-header", Silent: true,
		Edits: []edit{{"segment/filer.go", "	if _, err := rf.ReadAt(hdr[:], 0); err != nil {", "	n, err := rf.ReadAt(hdr[:], 0)\n	if errors.Is(err, io.EOF) && n == fileHeaderLen {\n		err = nil\n	}\n	if err != nil {"}}})
	addMutant(mutant{Name: "wal/rotation-counted-only-by-goroutine", Fire: []string{"VF-25"},
		Edits: []edit{{"wal.go", "		return nil, func() error {\n			w.metrics.IncrementCounter(\"segment_rotations\", 1)\n			return post()\n		}, nil\n	}\n	return w.mutateStateLocked(txn)", "		return nil, post, nil\n	}\n	return w.mutateStateLocked(txn)"},
			{"wal.go", "			w.log.Error(\"rotate error\", \"err\", err)\n		}", "			w.log.Error(\"rotate error\", \"err\", err)\n		} else {\n			w.metrics.IncrementCounter(\"segment_rotations\", 1)\n		}"}}})
}

func init() {
	addMutant(mutant{Name: "writer/offsetforframe-wraps-not-found", Fire: []string{"ORD-18c"},
		Edits: []edit{{"segment/writer.go", "	if idx < w.info.BaseIndex || idx < w.info.MinIndex || idx > w.LastIndex() {\n		return 0, types.ErrNotFound\n	}", "	if idx < w.info.BaseIndex || idx < w.info.MinIndex || idx > w.LastIndex() {\n		return 0, fmt.Errorf(\"index %d not in tail segment: %w\", idx, types.ErrNotFound)\n	}"}}})
	addMutant(mutant{Name: "reader/getlog-adds-context-to-lookup-error", Fire: []string{"ORD-18c"},
		Edits: []edit{{"segment/reader.go", "	offset, err := r.findFrameOffset(idx)\n	if err != nil {\n		return nil, err\n	}", "	offset, err := r.findFrameOffset(idx)\n	if err != nil {\n		return nil, fmt.Errorf(\"segment %d: %w\", r.info.ID, err)\n	}"}}})
	addMutant(mutant{Name: "wal/storelogs-release-reassigned-after-defer", Fire: []string{"VF-27", "ACC-05"},
		Edits: []edit{{"wal.go", "		s2, release2 := w.acquireState()\n		defer release2()\n\n		// Overwrite the state we read before so the code below uses the new state\n		s = s2\n", "		s, release = w.acquireState()\n"}}})
}

func init() {
	addMutant(mutant{Name: "format/readfileheader-wraps-corrupt-sentinel", Fire: []string{"ORD-18c"},
		Edits: []edit{{"segment/format.go", "	if m != magic {\n		return nil, types.ErrCorrupt\n	}", "	if m != magic {\n		return nil, fmt.Errorf(\"%w: bad magic %x\", types.ErrCorrupt, m)\n	}"}}})
}

func init() {
	addMutant(mutant{Name: "wal/rotation-goroutine-exits-with-lock-held", Fire: []string{"ACC-08"},
		Edits: []edit{{"wal.go", "		if closed == 1 {\n			w.writeMu.Unlock()\n			return\n		}\n\n		err := w.rotateSegmentLocked(indexStart)", "		if closed == 1 {\n			return\n		}\n\n		err := w.rotateSegmentLocked(indexStart)"}}})
	addMutant(mutant{Name: "wal/rotation-error-path-skips-unlock", Fire: []string{"ACC-08"},
		Edits: []edit{{"wal.go", "			w.log.Error(\"rotate error\", \"err\", err)\n		}\n		done := w.awaitRotate", "			w.log.Error(\"rotate error\", \"err\", err)\n			continue\n		}\n		done := w.awaitRotate"}}})
	addMutant(mutant{Name: "wal/await-rotation-forgets-to-relock", Fire: []string{"ACC-08"},
		Edits: []edit{{"wal.go", "		w.writeMu.Unlock()\n		<-awaitCh\n		w.writeMu.Lock()", "		w.writeMu.Unlock()\n		<-awaitCh"}}})
}

func init() {
	addMutant(mutant{Name: "fs/create-drops-max-size-check", Fire: []string{"ORD-08"},
		Edits: []edit{{"fs/fs.go", "		if size > math.MaxInt32 {\n			return nil, fmt.Errorf(\"maximum file size is %d bytes\", math.MaxInt32)\n		}\n", "		_ = fmt.Sprint(math.MaxInt32)\n"}}})
}

func init() {
	// obligations added after seeded round 6
	addMutant(mutant{Name: "verifier/skipped-range-only-with-written-sum", Fire: []string{"FD-11"},
		Edits: []edit{{"verifier/verifier.go", "		if lastCheckPointIdx > 0 && lastCheckPointIdx != report.Range.Start {", "		if lastCheckPointIdx > 0 && report.WrittenSum != 0 && lastCheckPointIdx != report.Range.Start {"}}})
	addMutant(mutant{Name: "verifier/skipped-range-never-set", Fire: []string{"FD-11"},
		Edits: []edit{{"verifier/verifier.go", "		if lastCheckPointIdx > 0 && lastCheckPointIdx != report.Range.Start {", "		if lastCheckPointIdx > 0 && lastCheckPointIdx > report.Range.Start {"}}})
	addMutant(mutant{Name: "migrate/copylogs-single-entry-is-empty", Fire: []string{"FD-05"},
		Edits: []edit{{"migrate/migrate.go", "	if last == 0 {\n		// Empty source log", "	if last <= first {\n		// Empty source log"}}})
}
