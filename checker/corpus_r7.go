package main

func init() {
	// obligations added after seeded round 7
	addMutant(mutant{Name: "wal/postcommit-failure-not-marked (revert F16)", Fire: []string{"ORD-30"},
		Edits: []edit{{"wal.go", "			w.failed = err\n			return err", "			return err"}}})
	addMutant(mutant{Name: "wal/storelogs-ignores-failure-mark", Fire: []string{"ORD-30"},
		Edits: []edit{{"wal.go", "	if err := w.checkFailedLocked(); err != nil {\n		return err\n	}\n\n	s, release := w.acquireState()\n	defer release()\n\n	// Verify monotonicity", "	s, release := w.acquireState()\n	defer release()\n\n	// Verify monotonicity"}}})
	addMutant(mutant{Name: "wal/mutate-ignores-failure-mark", Fire: []string{"ORD-30"},
		Edits: []edit{{"wal.go", "	if err := w.checkFailedLocked(); err != nil {\n		return err\n	}\n	s := w.loadState()", "	s := w.loadState()"}}})
	addMutant(mutant{Name: "wal/failure-gate-inverted", Fire: []string{"ORD-30"},
		Edits: []edit{{"wal.go", "	if w.failed != nil {\n		return fmt.Errorf(\"WAL must be re-opened", "	if w.failed == nil {\n		return fmt.Errorf(\"WAL must be re-opened"}}})
	addMutant(mutant{Name: "silent/failure-mark-checked-inline", Silent: true, Note: "the gate spelled out in StoreLogs instead of the helper",
		Edits: []edit{{"wal.go", "	if err := w.checkFailedLocked(); err != nil {\n		return err\n	}\n\n	s, release := w.acquireState()\n	defer release()\n\n	// Verify monotonicity", "	if w.failed != nil {\n		return w.failed\n	}\n\n	s, release := w.acquireState()\n	defer release()\n\n	// Verify monotonicity"}}})

	addMutant(mutant{Name: "fd/tail-takes-first-deleted-index-keeps-boundary", Fire: []string{"FD-09"},
		Edits: []edit{{"wal.go", "		return w.truncateTailLocked(min - 1)", "		return w.truncateTailLocked(min)"},
			{"wal.go", "func (w *WAL) truncateTailLocked(newMax uint64) error {\n	txn := stateTxn(func(newState *state) (func(), func() error, error) {", "func (w *WAL) truncateTailLocked(from uint64) error {\n	txn := stateTxn(func(newState *state) (func(), func() error, error) {\n		newMax := from - 1"},
			{"wal.go", "			if seg.BaseIndex <= newMax {\n				// We're done", "			if seg.BaseIndex <= from {\n				// We're done"}}})
	addMutant(mutant{Name: "silent/tail-takes-first-deleted-index", Silent: true, Note: "the helper's convention changed consistently: FD-01 records the offset, FD-09 checks the decisions against it",
		Edits: []edit{{"wal.go", "		return w.truncateTailLocked(min - 1)", "		return w.truncateTailLocked(min)"},
			{"wal.go", "func (w *WAL) truncateTailLocked(newMax uint64) error {\n	txn := stateTxn(func(newState *state) (func(), func() error, error) {", "func (w *WAL) truncateTailLocked(from uint64) error {\n	txn := stateTxn(func(newState *state) (func(), func() error, error) {\n		newMax := from - 1"},
			{"wal.go", "			if seg.BaseIndex <= newMax {\n				// We're done", "			if seg.BaseIndex < from {\n				// We're done"}}})
	addMutant(mutant{Name: "fd/tail-skips-empty-tail", Fire: []string{"FD-09"},
		Edits: []edit{{"wal.go", "				maxIdx = newState.lastIndex()\n			}\n\n			toDelete[seg.ID] = seg.BaseIndex\n			toClose = append(toClose, seg.r)\n			newState.segments = newState.segments.Delete(seg.BaseIndex)\n			nTruncated += (maxIdx - seg.MinIndex + 1) // +1 because MaxIndex is inclusive", "				maxIdx = newState.lastIndex()\n				if maxIdx < seg.MinIndex {\n					continue\n				}\n			}\n\n			toDelete[seg.ID] = seg.BaseIndex\n			toClose = append(toClose, seg.r)\n			newState.segments = newState.segments.Delete(seg.BaseIndex)\n			nTruncated += (maxIdx - seg.MinIndex + 1) // +1 because MaxIndex is inclusive"}}})

	addMutant(mutant{Name: "metrics/setuint64-shortcut-uncounted", Fire: []string{"ORD-31"},
		Edits: []edit{{"wal.go", "	var buf [8]byte\n	binary.LittleEndian.PutUint64(buf[:], val)\n	return w.Set(key, buf[:])", "	if val == 0 {\n		return w.metaDB.SetStable(key, nil)\n	}\n	var buf [8]byte\n	binary.LittleEndian.PutUint64(buf[:], val)\n	return w.Set(key, buf[:])"}}})
	addMutant(mutant{Name: "metrics/getlog-counts-read-twice", Fire: []string{"ORD-31"},
		Edits: []edit{{"wal.go", "	w.metrics.IncrementCounter(\"log_entry_bytes_read\", uint64(len(raw.Bs)))", "	w.metrics.IncrementCounter(\"log_entries_read\", 1)\n	w.metrics.IncrementCounter(\"log_entry_bytes_read\", uint64(len(raw.Bs)))"}}})

	addMutant(mutant{Name: "codec/bytes-length-signed-compare", Fire: []string{"VF-02"},
		Edits: []edit{{"codec.go", "	n := d.varint()\n	if d.err != nil {\n		return nil\n	}\n	if n == 0 {\n		return nil\n	}\n	if n > uint64(len(d.buf)) {", "	n := int(d.varint())\n	if d.err != nil {\n		return nil\n	}\n	if n == 0 {\n		return nil\n	}\n	if n > len(d.buf) {"}}})
	addMutant(mutant{Name: "silent/codec-bytes-append-copy", Silent: true, Note: "append([]byte(nil), x...) is a copy; the bound is still tested in the unsigned domain",
		Edits: []edit{{"codec.go", "	bs := make([]byte, n)\n	copy(bs, d.buf[:n])\n	d.buf = d.buf[n:]\n	return bs", "	bs := append([]byte(nil), d.buf[:n]...)\n	d.buf = d.buf[n:]\n	return bs"}}})
	addMutant(mutant{Name: "silent/codec-bytes-int-after-unsigned-check", Silent: true, Note: "converted to int only after the unsigned bound check",
		Edits: []edit{{"codec.go", "	bs := make([]byte, n)\n	copy(bs, d.buf[:n])\n	d.buf = d.buf[n:]\n	return bs", "	ln := int(n)\n	bs := make([]byte, ln)\n	copy(bs, d.buf[:ln])\n	d.buf = d.buf[ln:]\n	return bs"}}})

	addMutant(mutant{Name: "verifier/leader-stamp-on-copy", Fire: []string{"VF-09"},
		Edits: []edit{{"verifier/store.go", "			log.Extensions = encodeCheckpointMeta(startIdx, checksum)", "			cp := *log\n			cp.Extensions = encodeCheckpointMeta(startIdx, checksum)\n			log = &cp"}}})

	addMutant(mutant{Name: "reader/index-scratch-in-struct", Fire: []string{"ACC-09"},
		Edits: []edit{{"segment/reader.go", "	tail tailWriter\n}", "	tail tailWriter\n\n	idxBuf [4]byte\n}"},
			{"segment/reader.go", "	var bs [4]byte\n	n, err := r.rf.ReadAt(bs[:], int64(byteOffset))", "	bs := &r.idxBuf\n	n, err := r.rf.ReadAt(bs[:], int64(byteOffset))"}}})
	addMutant(mutant{Name: "silent/reader-index-scratch-made", Silent: true, Note: "a per-call make() instead of a local array",
		Edits: []edit{{"segment/reader.go", "	var bs [4]byte\n	n, err := r.rf.ReadAt(bs[:], int64(byteOffset))", "	bs := make([]byte, 4)\n	n, err := r.rf.ReadAt(bs[:], int64(byteOffset))"}}})
	addMutant(mutant{Name: "state/getlog-caches-last-lookup", Fire: []string{"ACC-09"},
		Edits: []edit{{"state.go", "	seg, err := s.findSegmentReader(index)\n	if err != nil {\n		return nil, err\n	}\n", "	seg, err := s.findSegmentReader(index)\n	if err != nil {\n		return nil, err\n	}\n	s.nextBaseIndex = index\n"}}})
	addMutant(mutant{Name: "verifier/checkpointfn-dropped-without-reportfn", Fire: []string{"VF-29"},
		Edits: []edit{{"verifier/store.go", "		checkpointFn: checkpointFn,\n		reportFn:     reportFn,\n	}\n	go c.runVerifier()", "	}\n	if reportFn == nil {\n		return c\n	}\n	c.checkpointFn = checkpointFn\n	c.reportFn = reportFn\n	go c.runVerifier()"}}})
	addMutant(mutant{Name: "silent/newlogstore-nil-reportfn-skips-goroutine", Silent: true, Note: "no goroutine when there is nobody to report to; the configuration is stored all the same",
		Edits: []edit{{"verifier/store.go", "	go c.runVerifier()\n	return c", "	if reportFn == nil {\n		return c\n	}\n	go c.runVerifier()\n	return c"}}})
	addMutant(mutant{Name: "wal/storelogs-shared-arena", Fire: []string{"VF-28"},
		Edits: []edit{{"wal.go", "	encoded := make([]types.LogEntry, len(logs))\n	for i, l := range logs {", "	encoded := make([]types.LogEntry, len(logs))\n	arena := make([]byte, 0, 128*len(logs))\n	for i, l := range logs {"},
			{"wal.go", "		var buf bytes.Buffer\n		if err := w.codec.Encode(l, &buf); err != nil {", "		buf := *bytes.NewBuffer(arena[len(arena):])\n		arena = arena[:len(arena)+cap(arena)/len(logs)]\n		if err := w.codec.Encode(l, &buf); err != nil {"}}})
}
