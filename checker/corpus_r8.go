package main

func init() {
	// obligations added after seeded round 8
	addMutant(mutant{Name: "metrics/truncation-counted-in-txn-body (revert F17)", Fire: []string{"ORD-32"},
		Edits: []edit{{"wal.go", "		createTail := postCommit\n		postCommit = func() error {\n			w.metrics.IncrementCounter(\"head_truncations\", nTruncated)\n			if createTail != nil {\n				return createTail()\n			}\n			return nil\n		}\n", "		w.metrics.IncrementCounter(\"head_truncations\", nTruncated)\n"}}})
	addMutant(mutant{Name: "metrics/rotation-counted-before-transaction (revert F17)", Fire: []string{"ORD-32"},
		Edits: []edit{{"wal.go", "		return nil, func() error {\n			w.metrics.IncrementCounter(\"segment_rotations\", 1)\n			return post()\n		}, nil\n	}\n	return w.mutateStateLocked(txn)", "		return nil, post, nil\n	}\n	w.metrics.IncrementCounter(\"segment_rotations\", 1)\n	return w.mutateStateLocked(txn)"}}})
	addMutant(mutant{Name: "metrics/rotation-counted-after-whole-transaction", Fire: []string{"ORD-32"},
		Edits: []edit{{"wal.go", "		return nil, func() error {\n			w.metrics.IncrementCounter(\"segment_rotations\", 1)\n			return post()\n		}, nil\n	}\n	return w.mutateStateLocked(txn)", "		return nil, post, nil\n	}\n	if err := w.mutateStateLocked(txn); err != nil {\n		return err\n	}\n	w.metrics.IncrementCounter(\"segment_rotations\", 1)\n	return nil"}}})

	addMutant(mutant{Name: "writer/midbatch-flush-reuses-buffer", Fire: []string{"ORD-33"},
		Edits: []edit{{"segment/writer.go", "	l := encodedFrameSize(len(data))\n	w.ensureBufCap(l)\n", "	l := encodedFrameSize(len(data))\n	if n := len(w.writer.commitBuf); n > 0 && n+l > cap(w.writer.commitBuf) {\n		if err := w.flush(); err != nil {\n			return 0, err\n		}\n	}\n	w.ensureBufCap(l)\n"}}})

	addMutant(mutant{Name: "metadb/load-closes-db-with-tx-open", Fire: []string{"ORD-34"},
		Edits: []edit{{"metadb/metadb.go", "	if err := json.Unmarshal(raw, &state); err != nil {\n		return state, fmt.Errorf(", "	if err := json.Unmarshal(raw, &state); err != nil {\n		db.Close()\n		return state, fmt.Errorf("}}})
	addMutant(mutant{Name: "silent/metadb-load-rolls-back-then-closes", Silent: true, Note: "closing after the transaction was rolled back is fine",
		Edits: []edit{{"metadb/metadb.go", "	if err := json.Unmarshal(raw, &state); err != nil {\n		return state, fmt.Errorf(", "	if err := json.Unmarshal(raw, &state); err != nil {\n		if rerr := tx.Rollback(); rerr != nil {\n			return state, rerr\n		}\n		if cerr := db.Close(); cerr != nil {\n			return state, cerr\n		}\n		return state, fmt.Errorf("}}})

	addMutant(mutant{Name: "wal/logentry-index-from-position", Fire: []string{"VF-32"},
		Edits: []edit{{"wal.go", "		encoded[i].Index = l.Index\n", "		encoded[i].Index = logs[0].Index + uint64(i)\n"}}})

	addMutant(mutant{Name: "migrate/batch-cap-from-parameter", Fire: []string{"VF-33"},
		Edits: []edit{{"migrate/migrate.go", "	batch := make([]*raft.Log, 0, 4096)\n", "	batch := make([]*raft.Log, 0, batchBytes/32+1)\n"}}})
	addMutant(mutant{Name: "silent/migrate-batch-cap-clamped", Silent: true, Note: "sized from the parameter but clamped on both sides first",
		Edits: []edit{{"migrate/migrate.go", "	batch := make([]*raft.Log, 0, 4096)\n", "	hint := 4096\n	if batchBytes >= 0 && batchBytes < 1<<20 {\n		hint = batchBytes/32 + 1\n	}\n	batch := make([]*raft.Log, 0, hint)\n"}}})

	addMutant(mutant{Name: "reader/getlog-rejects-empty-payload", Fire: []string{"FD-03"},
		Edits: []edit{{"segment/reader.go", "	return payload, err\n}", "	if len(payload.Bs) == 0 {\n		payload.Close()\n		return nil, types.ErrCorrupt\n	}\n	return payload, err\n}"}}})

	addMutant(mutant{Name: "wal/close-snapshots-state-before-lock", Fire: []string{"ORD-21"},
		Edits: []edit{{"wal.go", "	// Wait for writes\n	w.writeMu.Lock()\n	defer w.writeMu.Unlock()\n", "	s := w.loadState()\n\n	// Wait for writes\n	w.writeMu.Lock()\n	defer w.writeMu.Unlock()\n"},
			{"wal.go", "	// Replace state with nil state\n	s := w.loadState()\n	s.acquire()", "	// Replace state with nil state\n	s.acquire()"}}})

	addMutant(mutant{Name: "wal/stable-values-mirrored-in-wal", Fire: []string{"ACC-10"},
		Edits: []edit{{"wal.go", "	failed error\n}", "	failed error\n\n	stable sync.Map\n}"},
			{"wal.go", "			return cerr\n		}\n		return err\n	}\n	return nil\n}", "			return cerr\n		}\n		return err\n	}\n	w.stable.Store(string(key), append([]byte(nil), val...))\n	return nil\n}"}}})
}
