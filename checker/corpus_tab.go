package main

func init() {
	addMutant(mutant{Name: "format/swap-header-fields-writer-only", Fire: []string{"TAB-01"},
		Edits: []edit{{"segment/format.go", "	binary.LittleEndian.PutUint64(buf[8:16], info.BaseIndex)\n	binary.LittleEndian.PutUint64(buf[16:24], info.ID)", "	binary.LittleEndian.PutUint64(buf[8:16], info.ID)\n	binary.LittleEndian.PutUint64(buf[16:24], info.BaseIndex)"}}})
	addMutant(mutant{Name: "format/swap-header-fields-both-sides", Fire: []string{"TAB-01"},
		Edits: []edit{{"segment/format.go", "	binary.LittleEndian.PutUint64(buf[8:16], info.BaseIndex)\n	binary.LittleEndian.PutUint64(buf[16:24], info.ID)", "	binary.LittleEndian.PutUint64(buf[8:16], info.ID)\n	binary.LittleEndian.PutUint64(buf[16:24], info.BaseIndex)"},
			{"segment/format.go", "	i.BaseIndex = binary.LittleEndian.Uint64(buf[8:16])\n	i.ID = binary.LittleEndian.Uint64(buf[16:24])", "	i.ID = binary.LittleEndian.Uint64(buf[8:16])\n	i.BaseIndex = binary.LittleEndian.Uint64(buf[16:24])"}},
		Note: "symmetric change: every repo test still passes, only the README-derived spec table disagrees"})
	addMutant(mutant{Name: "format/change-magic", Fire: []string{"TAB-01", "TAB-04"},
		Edits: []edit{{"segment/format.go", "magic         = 0x58eb6b0d", "magic         = 0x58eb6b0e"}}})
	addMutant(mutant{Name: "format/header-big-endian-codec", Fire: []string{"TAB-01"},
		Edits: []edit{{"segment/format.go", "	binary.LittleEndian.PutUint64(buf[24:32], info.Codec)", "	binary.BigEndian.PutUint64(buf[24:32], info.Codec)"},
			{"segment/format.go", "	i.Codec = binary.LittleEndian.Uint64(buf[24:32])", "	i.Codec = binary.BigEndian.Uint64(buf[24:32])"}}})
	addMutant(mutant{Name: "format/validate-skips-codec", Fire: []string{"TAB-01"},
		Edits: []edit{{"segment/format.go", "	if expect.Codec != got.Codec {\n		return fmt.Errorf(\"%w: segment header Codec %d doesn't match metadata %d\",\n			types.ErrCorrupt, got.Codec, expect.Codec)\n	}\n", ""}}})
	addMutant(mutant{Name: "format/version-nonzero", Fire: []string{"TAB-01", "TAB-04"},
		Edits: []edit{{"segment/format.go", "	version       = 0\n", "	version       = 1\n"}}})
	addMutant(mutant{Name: "format/frame-types-renumbered", Fire: []string{"TAB-02"},
		Edits: []edit{{"segment/format.go", "	FrameEntry\n	FrameIndex\n	FrameCommit", "	FrameIndex\n	FrameEntry\n	FrameCommit"}}})
	addMutant(mutant{Name: "format/frame-len-at-wrong-offset", Fire: []string{"TAB-02"},
		Edits: []edit{{"segment/format.go", "	binary.LittleEndian.PutUint32(buf[4:8], lOrCRC)", "	binary.LittleEndian.PutUint32(buf[2:6], lOrCRC)"},
			{"segment/format.go", "		h.len = binary.LittleEndian.Uint32(buf[4:8])", "		h.len = binary.LittleEndian.Uint32(buf[2:6])"},
			{"segment/format.go", "		h.crc = binary.LittleEndian.Uint32(buf[4:8])", "		h.crc = binary.LittleEndian.Uint32(buf[2:6])"},
			{"segment/format.go", "	buf[2] = 0\n	buf[3] = 0\n", ""}}})
	addMutant(mutant{Name: "format/commit-frame-stores-len", Fire: []string{"TAB-02"},
		Edits: []edit{{"segment/format.go", "	if h.typ == FrameCommit {\n		lOrCRC = h.crc\n	}", "	if h.typ == FrameIndex {\n		lOrCRC = h.crc\n	}"}}})
	addMutant(mutant{Name: "format/zero-type-not-checked", Fire: []string{"TAB-02"},
		Edits: []edit{{"segment/format.go", "		if bytes.Equal(buf[:frameHeaderLen], zeroHeader[:]) {\n			return h, nil\n		}\n		return h, fmt.Errorf(\"%w: corrupt frame header with type 0 but non-zero other fields\", types.ErrCorrupt)", "		_ = bytes.MinRead\n		return h, nil"}}})
	addMutant(mutant{Name: "format/index-stride-8", Fire: []string{"TAB-03"},
		Edits: []edit{{"segment/format.go", "		binary.LittleEndian.PutUint32(buf[cursor:], o)\n		cursor += 4", "		binary.LittleEndian.PutUint32(buf[cursor:], o)\n		cursor += 8"}}})
	addMutant(mutant{Name: "format/index-lookup-stride-8", Fire: []string{"TAB-03"},
		Edits: []edit{{"segment/reader.go", "	byteOffset := r.info.IndexStart + (entryOffset * 4)", "	byteOffset := r.info.IndexStart + (entryOffset * 8)"}}})
	addMutant(mutant{Name: "format/seal-offset-without-header-len", Fire: []string{"TAB-03"},
		Edits: []edit{{"segment/writer.go", "	w.writer.indexStart = uint64(w.writer.writeOffset) + uint64(startOff+frameHeaderLen)", "	w.writer.indexStart = uint64(w.writer.writeOffset) + uint64(startOff)"}}})
	addMutant(mutant{Name: "format/file-name-pattern", Fire: []string{"TAB-04"},
		Edits: []edit{{"segment/filer.go", "\"%020d-%016x\" + segmentFileSuffix", "\"%020d-%016X\" + segmentFileSuffix"}}})
	addMutant(mutant{Name: "format/meta-bucket-renamed", Fire: []string{"TAB-04"},
		Edits: []edit{{"metadb/metadb.go", "MetaBucket   = \"wal-meta\"", "MetaBucket   = \"wal-state\""}}, Note: "the README's name; the code and the property say wal-meta"})
	addMutant(mutant{Name: "format/crc-ieee", Fire: []string{"TAB-04"},
		Edits: []edit{{"segment/crc.go", "crc32.MakeTable(crc32.Castagnoli)", "crc32.MakeTable(crc32.IEEE)"}}})
	addMutant(mutant{Name: "format/codec-id-renumbered", Fire: []string{"TAB-04"},
		Edits: []edit{{"codec.go", "	FirstExternalCodecID = 1 << 16\n", "	FirstExternalCodecID = 1 << 16\n	codecReserved0\n"}}})
	addMutant(mutant{Name: "format/segmentinfo-json-tag", Fire: []string{"TAB-04"},
		Edits: []edit{{"types/segment.go", "	MaxIndex uint64\n", "	MaxIndex uint64 `json:\"max_index\"`\n"}}})
	addMutant(mutant{Name: "codec/decode-swaps-term-and-type", Fire: []string{"TAB-05"},
		Edits: []edit{{"codec.go", "	l.Term = dec.varint()\n	l.Type = raft.LogType(dec.varint())", "	l.Type = raft.LogType(dec.varint())\n	l.Term = dec.varint()"}}})
	addMutant(mutant{Name: "codec/encode-drops-extensions", Fire: []string{"TAB-05"},
		Edits: []edit{{"codec.go", "	enc.bytes(l.Extensions)\n", ""}, {"codec.go", "	l.Extensions = dec.bytes()\n", ""}}})
	addMutant(mutant{Name: "verifier/checkpoint-meta-swapped-on-decode", Fire: []string{"TAB-06"},
		Edits: []edit{{"verifier/store.go", "	startIdx = binary.LittleEndian.Uint64(bs[8:16])\n	sum = binary.LittleEndian.Uint64(bs[16:24])", "	sum = binary.LittleEndian.Uint64(bs[8:16])\n	startIdx = binary.LittleEndian.Uint64(bs[16:24])"}}})
	addMutant(mutant{Name: "wal/getuint64-big-endian", Fire: []string{"TAB-08"},
		Edits: []edit{{"wal.go", "	return binary.LittleEndian.Uint64(raw), nil", "	return binary.BigEndian.Uint64(raw), nil"}}})
	addMutant(mutant{Name: "wal/getuint64-accepts-short", Fire: []string{"TAB-08"},
		Edits: []edit{{"wal.go", "	if len(raw) != 8 {", "	if len(raw) > 8 {"}}})
	addMutant(mutant{Name: "migrate/copystable-drops-lastvoteterm", Fire: []string{"TAB-09"},
		Edits: []edit{{"migrate/migrate.go", "		[]byte(\"LastVoteTerm\"),\n", ""}}})
	addMutant(mutant{Name: "migrate/copystable-lastvotecand-as-int", Fire: []string{"TAB-09"},
		Edits: []edit{{"migrate/migrate.go", "		[]byte(\"LastVoteTerm\"),\n", "		[]byte(\"LastVoteTerm\"),\n		[]byte(\"LastVoteCand\"),\n"}, {"migrate/migrate.go", "	knownKeys := [][]byte{\n		[]byte(\"LastVoteCand\"),\n	}", "	knownKeys := [][]byte{}"}}})
	addMutant(mutant{Name: "metrics/renamed-at-call-site", Fire: []string{"TAB-07"},
		Edits: []edit{{"wal.go", "w.metrics.IncrementCounter(\"segment_rotations\", 1)", "w.metrics.IncrementCounter(\"segment_rotation\", 1)"}}})
	addMutant(mutant{Name: "metrics/gauge-emitted-as-counter", Fire: []string{"TAB-07"},
		Edits: []edit{{"wal.go", "w.metrics.SetGauge(\"last_segment_age_seconds\", ", "w.metrics.IncrementCounter(\"last_segment_age_seconds\", "}}})
	addMutant(mutant{Name: "silent/rename-header-functions", Silent: true,
		Edits: []edit{{"segment/format.go", "func writeFileHeader(", "func putFileHeader("}, {"segment/writer.go", "writeFileHeader(w.writer.commitBuf, w.info)", "putFileHeader(w.writer.commitBuf, w.info)"}}})
}

func init() {
	addMutant(mutant{Name: "crc/update-skips-padding", Fire: []string{"TAB-10"},
		Edits: []edit{{"segment/writer.go", "	w.writer.crc = crc32.Update(w.writer.crc, castagnoliTable, w.writer.commitBuf[bufOffset:bufOffset+l])\n	return bufOffset, nil", "	w.writer.crc = crc32.Update(w.writer.crc, castagnoliTable, w.writer.commitBuf[bufOffset:bufOffset+frameHeaderLen+len(data)])\n	return bufOffset, nil"}}})
	addMutant(mutant{Name: "crc/index-frame-not-in-crc", Fire: []string{"TAB-10"},
		Edits: []edit{{"segment/writer.go", "	// Update crc with those values\n	w.writer.crc = crc32.Update(w.writer.crc, castagnoliTable, w.writer.commitBuf[startOff:startOff+l])\n", ""}}})
	addMutant(mutant{Name: "crc/reset-before-sync", Fire: []string{"TAB-10"},
		Edits: []edit{{"segment/writer.go", "	// Flush all writes to the file\n	if err := w.sync(); err != nil {\n		return err\n	}\n\n	// Finally, reset crc so that by the time we write the next trailer\n	// we'll know where the append batch started.\n	w.writer.crc = 0\n	return nil", "	w.writer.crc = 0\n	// Flush all writes to the file\n	if err := w.sync(); err != nil {\n		return err\n	}\n	return nil"}}})
	addMutant(mutant{Name: "crc/never-reset", Fire: []string{"TAB-10"},
		Edits: []edit{{"segment/writer.go", "	// Finally, reset crc so that by the time we write the next trailer\n	// we'll know where the append batch started.\n	w.writer.crc = 0\n", ""}}})
	addMutant(mutant{Name: "crc/commit-frame-zero-crc", Fire: []string{"TAB-10"},
		Edits: []edit{{"segment/writer.go", "		typ: FrameCommit,\n		crc: w.writer.crc,\n", "		typ: FrameCommit,\n"}}})
}
