package main

func init() {
	addMutant(mutant{Name: "wal/create-file-inside-txn", Fire: []string{"ORD-11"},
		Edits: []edit{{"wal.go", "	post := func() error {\n		// Now create the new segment for writing.\n		sw, err := w.sf.Create(newTail)\n		if err != nil {\n			return err\n		}\n		newState.tail = sw\n",
			"	sw, err := w.sf.Create(newTail)\n	if err != nil {\n		return nil, err\n	}\n	post := func() error {\n		newState.tail = sw\n"}}})
	addMutant(mutant{Name: "wal/open-create-before-commit", Fire: []string{"ORD-11"},
		Edits: []edit{{"wal.go", "		if err := w.metaDB.CommitState(newState.Persistent()); err != nil {\n			return nil, err\n		}\n\n		// Create the new segment file\n		w, err := w.sf.Create(si)\n		if err != nil {\n			return nil, err\n		}\n",
			"		// Create the new segment file\n		w, err := w.sf.Create(si)\n		if err != nil {\n			return nil, err\n		}\n		if err := w0.metaDB.CommitState(newState.Persistent()); err != nil {\n			return nil, err\n		}\n"},
			{"wal.go", "	if !recoveredTail {\n", "	w0 := w\n	if !recoveredTail {\n"}}})
	addMutant(mutant{Name: "wal/publish-before-commit", Fire: []string{"ORD-12"},
		Edits: []edit{{"wal.go", "	// Commit updates to meta\n	if err := w.metaDB.CommitState(newS.Persistent()); err != nil {\n		return err\n	}\n", "	w.s.Store(&newS)\n	// Commit updates to meta\n	if err := w.metaDB.CommitState(newS.Persistent()); err != nil {\n		return err\n	}\n"}}})
	addMutant(mutant{Name: "wal/postcommit-error-ignored", Fire: []string{"ORD-12"},
		Edits: []edit{{"wal.go", "		if err := postCommit(); err != nil {\n			// The new state is already durable but we can't switch to it. Don't\n			// let writers carry on from the old one.\n			w.failed = err\n			return err\n		}\n", "		postCommit()\n"}}})
	addMutant(mutant{Name: "wal/commit-error-ignored", Fire: []string{"ORD-12", "ORD-11"},
		Edits: []edit{{"wal.go", "	if err := w.metaDB.CommitState(newS.Persistent()); err != nil {\n		return err\n	}\n", "	w.metaDB.CommitState(newS.Persistent())\n"}}})
	addMutant(mutant{Name: "wal/finalizer-before-commit", Fire: []string{"ORD-13"},
		Edits: []edit{{"wal.go", "	// Commit updates to meta\n	if err := w.metaDB.CommitState(newS.Persistent()); err != nil {", "	s.finalizer.Store(fn)\n	// Commit updates to meta\n	if err := w.metaDB.CommitState(newS.Persistent()); err != nil {"}}})
	addMutant(mutant{Name: "wal/release-runs-finalizer-always", Fire: []string{"ORD-13"},
		Edits: []edit{{"state.go", "	if new == 0 {\n", "	if new >= 0 {\n"}}})
	addMutant(mutant{Name: "wal/storelogs-append-error-ignored", Fire: []string{"ORD-14"},
		Edits: []edit{{"wal.go", "	if err := s.tail.Append(encoded); err != nil {\n		return err\n	}\n", "	s.tail.Append(encoded)\n"}}})
	addMutant(mutant{Name: "wal/storelogs-fallible-after-append", Fire: []string{"ORD-14"},
		Edits: []edit{{"wal.go", "	w.metrics.IncrementCounter(\"log_appends\", 1)\n", "	w.metrics.IncrementCounter(\"log_appends\", 1)\n	if _, err := w.metaDB.GetStable([]byte(\"x\")); err != nil {\n		return err\n	}\n"}}})
	addMutant(mutant{Name: "wal/deleterange-no-await", Fire: []string{"ORD-15"},
		Edits: []edit{{"wal.go", "	w.awaitRotationLocked()\n\n	// Close may have completed while we waited for the lock or the rotation.\n	if err := w.checkClosed(); err != nil {\n		return err\n	}\n\n	s, release := w.acquireState()\n	defer release()\n\n	// Work out", "	// Close may have completed while we waited for the lock or the rotation.\n	if err := w.checkClosed(); err != nil {\n		return err\n	}\n\n	s, release := w.acquireState()\n	defer release()\n\n	// Work out"}}})
	addMutant(mutant{Name: "wal/storelogs-state-before-lock", Fire: []string{"ORD-15"},
		Edits: []edit{{"wal.go", "	w.writeMu.Lock()\n	defer w.writeMu.Unlock()\n\n	// Ensure queued rotation has completed before us if we raced with it for\n	// write lock.\n	w.awaitRotationLocked()\n\n	// Close may have completed while we waited for the lock or the rotation.\n	if err := w.checkClosed(); err != nil {\n		return err\n	}\n\n	if err := w.checkFailedLocked(); err != nil {\n		return err\n	}\n\n	s, release := w.acquireState()\n	defer release()\n\n	// Verify monotonicity",
			"	s, release := w.acquireState()\n	defer release()\n\n	w.writeMu.Lock()\n	defer w.writeMu.Unlock()\n\n	// Ensure queued rotation has completed before us if we raced with it for\n	// write lock.\n	w.awaitRotationLocked()\n\n	if err := w.checkFailedLocked(); err != nil {\n		return err\n	}\n\n	// Verify monotonicity"}}})
	addMutant(mutant{Name: "wal/trigger-without-await-chan", Fire: []string{"ORD-16"},
		Edits: []edit{{"wal.go", "	w.awaitRotate = make(chan struct{})\n	w.triggerRotate <- indexStart", "	w.triggerRotate <- indexStart"}}})
	addMutant(mutant{Name: "wal/rotate-no-close-done", Fire: []string{"ORD-16"},
		Edits: []edit{{"wal.go", "		close(done)\n", "		_ = done\n"}}})
	addMutant(mutant{Name: "wal/rotate-error-skips-wakeup", Fire: []string{"ORD-16"},
		Edits: []edit{{"wal.go", "			w.log.Error(\"rotate error\", \"err\", err)\n", "			w.log.Error(\"rotate error\", \"err\", err)\n			w.writeMu.Unlock()\n			continue\n"}}})
	addMutant(mutant{Name: "wal/open-no-rotate-goroutine", Fire: []string{"ORD-17"},
		Edits: []edit{{"wal.go", "	go w.runRotate()\n\n	opened = true", "	opened = true"}}})
	addMutant(mutant{Name: "wal/open-no-sweep", Fire: []string{"ORD-17"},
		Edits: []edit{{"wal.go", "	// Delete any unused segment files left over after a crash.\n	w.deleteSegments(toDelete)\n", ""}}})
	addMutant(mutant{Name: "wal/open-no-recreate-missing-tail", Fire: []string{"ORD-18"},
		Edits: []edit{{"wal.go", "			if errors.Is(err, os.ErrNotExist) {", "			if false && errors.Is(err, os.ErrNotExist) {"}}})
	addMutant(mutant{Name: "silent/wal-reorder-metrics", Silent: true,
		Edits: []edit{{"wal.go", "	w.metrics.IncrementCounter(\"log_appends\", 1)\n	w.metrics.IncrementCounter(\"log_entries_written\", uint64(len(encoded)))\n", "	w.metrics.IncrementCounter(\"log_entries_written\", uint64(len(encoded)))\n	w.metrics.IncrementCounter(\"log_appends\", 1)\n"}}})
	addMutant(mutant{Name: "silent/wal-debug-logging", Silent: true,
		Edits: []edit{{"wal.go", "	// Commit updates to meta\n", "	w.log.Debug(\"committing state\")\n	// Commit updates to meta\n"}}})
}

func init() {
	addMutant(mutant{Name: "wal/rotation-forgets-maxindex", Fire: []string{"ORD-23"},
		Edits: []edit{{"wal.go", "		tail.MaxIndex = newState.tail.LastIndex()\n", ""}}})
	addMutant(mutant{Name: "wal/rotation-uses-zero-indexstart", Fire: []string{"ORD-23"},
		Edits: []edit{{"wal.go", "		tail.IndexStart = indexStart\n		w.metrics.SetGauge", "		tail.IndexStart = 0\n		w.metrics.SetGauge"}}})
	addMutant(mutant{Name: "wal/truncation-ignores-forceseal-offset", Fire: []string{"ORD-23"},
		Edits: []edit{{"wal.go", "				tail.IndexStart = indexStart\n				tail.SealTime = time.Now()", "				_ = indexStart\n				tail.SealTime = time.Now()"}}})
	addMutant(mutant{Name: "wal/truncation-returns-nil-finalizer", Fire: []string{"ORD-23"},
		Edits: []edit{{"wal.go", "		fin := func() {\n			w.closeSegments(toClose)\n			w.deleteSegments(toDelete)\n		}\n		return fin, pc, nil", "		return nil, pc, nil"}}})
}
