package main

func init() {
	addMutant(mutant{Name: "writer/drop-wf-sync", Fire: []string{"ORD-01", "ORD-02"},
		Edits: []edit{{"segment/writer.go", "	if err := w.wf.Sync(); err != nil {\n		return err\n	}\n", ""}}})
	addMutant(mutant{Name: "writer/publish-before-commit", Fire: []string{"ORD-02"},
		Edits: []edit{{"segment/writer.go", "	// Write the commit frame\n	if err := w.appendCommit(); err != nil {\n		return err\n	}\n\n	flushed = true\n",
			"	atomic.StoreUint64(&w.commitIdx, entries[len(entries)-1].Index)\n	// Write the commit frame\n	if err := w.appendCommit(); err != nil {\n		return err\n	}\n\n	flushed = true\n"}}})
	addMutant(mutant{Name: "writer/drop-appendCommit-in-Append", Fire: []string{"ORD-01"},
		Edits: []edit{{"segment/writer.go", "	// Write the commit frame\n	if err := w.appendCommit(); err != nil {\n		return err\n	}\n\n	flushed = true\n", "	flushed = true\n"}}})
	addMutant(mutant{Name: "writer/flush-ignores-write-error", Fire: []string{"ORD-01"},
		Edits: []edit{{"segment/writer.go", "	if err != nil {\n		return err\n	}\n\n	// Reset writer state ready for next writes", "	_ = n\n\n	// Reset writer state ready for next writes"}}})
	addMutant(mutant{Name: "writer/fallible-after-sync", Fire: []string{"ORD-03"},
		Edits: []edit{{"segment/writer.go", "	// Finally, reset crc so that by the time we write the next trailer\n", "	if _, err := w.wf.ReadAt(make([]byte, 1), 0); err != nil {\n		return err\n	}\n"}}})
	addMutant(mutant{Name: "writer/forceseal-skips-commit", Fire: []string{"ORD-01", "ORD-04"},
		Edits: []edit{{"segment/writer.go", "	// Write the commit frame\n	if err := w.appendCommit(); err != nil {\n		return 0, err\n	}\n", ""}}})
	addMutant(mutant{Name: "silent/rename-flush-helper", Silent: true,
		Edits: []edit{{"segment/writer.go", "func (w *Writer) flush() error {", "func (w *Writer) flushBuf() error {"},
			{"segment/writer.go", "	if err := w.flush(); err != nil {", "	if err := w.flushBuf(); err != nil {"}}})
	addMutant(mutant{Name: "silent/split-if-err", Silent: true,
		Edits: []edit{{"segment/writer.go", "	// Sync file\n	if err := w.wf.Sync(); err != nil {\n		return err\n	}", "	// Sync file\n	serr := w.wf.Sync()\n	if serr != nil {\n		return serr\n	}"}}})
}
