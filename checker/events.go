package main

import (
	"go/types"
	"strings"

	"golang.org/x/tools/go/ssa"
)

// typeShort renders a named type as "pkgname.Type" (pointers stripped).
func typeShort(t types.Type) string {
	for {
		if pt, ok := t.(*types.Pointer); ok {
			t = pt.Elem()
			continue
		}
		break
	}
	switch x := t.(type) {
	case *types.Named:
		o := x.Obj()
		if o.Pkg() != nil {
			return o.Pkg().Name() + "." + o.Name()
		}
		return o.Name()
	case *types.Alias:
		return typeShort(types.Unalias(x))
	}
	return t.String()
}

// eventName gives the canonical, type-resolved name of what a call site calls:
//
//	interface invoke:  "types.WritableFile.Sync" (static receiver type + method)
//	static function:   "os.Rename", "os.File.Sync", "bbolt.Tx.Commit", "atomic.StoreUint64"
//	builtin:           "builtin.close"
//	dynamic:           ""
func eventName(ci ssa.CallInstruction) string {
	cc := ci.Common()
	if cc.IsInvoke() {
		return typeShort(cc.Value.Type()) + "." + cc.Method.Name()
	}
	if b, ok := cc.Value.(*ssa.Builtin); ok {
		return "builtin." + b.Name()
	}
	fn := cc.StaticCallee()
	if fn == nil {
		return ""
	}
	return typedAtomicName(funcEventName(fn))
}

// typedAtomicName maps the methods of sync/atomic's typed values onto the names of the classic functions, so
// that x.f.Load() on an atomic.Uint32 field and atomic.LoadUint32(&x.f) on a uint32 field are the same event
// (in both forms the address of the field is the call's first argument).  atomic.Pointer[T] maps onto
// atomic.Value: a typed cell instead of an interface-typed one.
func typedAtomicName(n string) string {
	if !strings.HasPrefix(n, "atomic.") {
		return n
	}
	rest := strings.TrimPrefix(n, "atomic.")
	typ, meth, ok := strings.Cut(rest, ".")
	if !ok {
		return n
	}
	switch typ {
	case "Uint32", "Uint64", "Int32", "Int64", "Uintptr":
		return "atomic." + meth + typ
	case "Pointer":
		return "atomic.Value." + meth
	}
	return n
}

func funcEventName(fn *ssa.Function) string {
	if fn == nil {
		return ""
	}
	base := fn
	if o := fn.Origin(); o != nil {
		base = o
	}
	if obj, ok := base.Object().(*types.Func); ok && obj != nil {
		sig := obj.Type().(*types.Signature)
		if r := sig.Recv(); r != nil {
			return typeShort(r.Type()) + "." + obj.Name()
		}
		if obj.Pkg() != nil {
			return obj.Pkg().Name() + "." + obj.Name()
		}
		return obj.Name()
	}
	// anonymous function or synthetic wrapper: name of the enclosing function + $n
	s := fn.Name()
	if fn.Parent() != nil {
		return funcEventName(fn.Parent()) + "$" + strings.TrimPrefix(s, fn.Parent().Name()+"$")
	}
	if strings.HasSuffix(s, "$bound") {
		// bound method closure: name the method it binds
		if len(fn.FreeVars) == 1 {
			return typeShort(fn.FreeVars[0].Type()) + "." + strings.TrimSuffix(s, "$bound")
		}
	}
	return s
}

// infallible reports whether every return of fn yields the constant nil as its error result.
func infallible(fn *ssa.Function) bool {
	if fn == nil || fn.Blocks == nil {
		return false
	}
	ei := resultErrIndex(fn.Signature)
	if ei < 0 {
		return true
	}
	// result cells (functions with defer): every store to the error result cell must be constant nil
	for _, b := range fn.Blocks {
		for _, ins := range b.Instrs {
			ret, ok := ins.(*ssa.Return)
			if !ok {
				continue
			}
			if !constNilOrNilCell(ret.Results[ei], fn) {
				return false
			}
		}
	}
	return true
}

func constNilOrNilCell(v ssa.Value, fn *ssa.Function) bool {
	if c, ok := v.(*ssa.Const); ok {
		return c.IsNil()
	}
	if u, ok := v.(*ssa.UnOp); ok {
		if al, ok := u.X.(*ssa.Alloc); ok {
			for _, ref := range *al.Referrers() {
				if st, ok := ref.(*ssa.Store); ok && st.Addr == al {
					if c, ok := st.Val.(*ssa.Const); !ok || !c.IsNil() {
						return false
					}
				}
			}
			return true
		}
	}
	return false
}

// reaches reports whether, following call-graph edges through production
// functions, root can reach a call site for which pred is true.
func (p *Prog) reaches(root *ssa.Function, pred func(ci ssa.CallInstruction) bool) bool {
	seen := map[*ssa.Function]bool{}
	var visit func(fn *ssa.Function) bool
	visit = func(fn *ssa.Function) bool {
		if fn == nil || seen[fn] || fn.Blocks == nil {
			return false
		}
		seen[fn] = true
		for _, b := range fn.Blocks {
			for _, ins := range b.Instrs {
				if ci, ok := ins.(ssa.CallInstruction); ok {
					if pred(ci) {
						return true
					}
				}
				if mc, ok := ins.(*ssa.MakeClosure); ok {
					if visit(mc.Fn.(*ssa.Function)) {
						return true
					}
				}
			}
		}
		if n := p.CG.Nodes[fn]; n != nil {
			for _, e := range n.Out {
				if p.IsProdFunc(e.Callee.Func) && visit(e.Callee.Func) {
					return true
				}
			}
		}
		return false
	}
	return visit(root)
}

// reachesInstr reports whether any function reachable from root contains an
// instruction satisfying pred.
func (p *Prog) reachesInstr(root *ssa.Function, pred func(ins ssa.Instruction) bool) bool {
	for fn := range p.reachableFuncs(root) {
		for _, b := range fn.Blocks {
			for _, ins := range b.Instrs {
				if pred(ins) {
					return true
				}
			}
		}
	}
	return false
}

// reachableFuncs returns the production functions reachable from the roots
// through the call graph (including closures created in them).
func (p *Prog) reachableFuncs(roots ...*ssa.Function) map[*ssa.Function]bool {
	seen := map[*ssa.Function]bool{}
	var visit func(fn *ssa.Function)
	visit = func(fn *ssa.Function) {
		if fn == nil || seen[fn] || fn.Blocks == nil || !p.IsProdFunc(fn) {
			return
		}
		seen[fn] = true
		for _, b := range fn.Blocks {
			for _, ins := range b.Instrs {
				if mc, ok := ins.(*ssa.MakeClosure); ok {
					visit(mc.Fn.(*ssa.Function))
				}
			}
		}
		if n := p.CG.Nodes[fn]; n != nil {
			for _, e := range n.Out {
				visit(e.Callee.Func)
			}
		}
	}
	for _, r := range roots {
		visit(r)
	}
	return seen
}

// methodImpl returns the production implementation of interface method name on
// the concrete named type (pointer receiver method set).
func (p *Prog) methodImpl(rel, typ, method string) *ssa.Function {
	return p.Func(rel, typ+"."+method)
}

// directIfaceMethods lists the methods declared directly (not embedded) in an interface type.
func directIfaceMethods(n *types.Named) []*types.Func {
	it, ok := n.Underlying().(*types.Interface)
	if !ok {
		return nil
	}
	var out []*types.Func
	for i := 0; i < it.NumExplicitMethods(); i++ {
		out = append(out, it.ExplicitMethod(i))
	}
	return out
}
