package main

// E-FD: finite-domain abstract evaluation.  A function's CFG is walked with the
// integer symbols of interest bound to a canonical witness of one weak ordering;
// every If whose condition is a comparison of symbols is decided by the
// ordering, every other If forks.  The walk yields the set of abstract traces
// (effect labels + terminal) reachable under that ordering.  All orderings over
// a small range are enumerated, so the classification is complete for the
// comparisons involved (no wrap-around modelled).

import (
	"fmt"
	"go/constant"
	"go/token"
	"go/types"
	"sort"
	"strings"

	"golang.org/x/tools/go/ssa"
)

type fdVal struct {
	known bool
	isB   bool
	n     int64
	b     bool
}

type fdSpec struct {
	// Symbol gives the symbol name bound to an SSA value (parameter, field load, call result), "" if none.
	Symbol func(v ssa.Value) string
	// Effect returns a label to append to the trace when ins executes ("" = none) and whether the walk stops here.
	Effect func(ins ssa.Instruction, eval func(ssa.Value) fdVal) (label string, stop bool)
	// Return labels a return instruction (given the resolved result values).
	Return    func(ret *ssa.Return, res []ssa.Value, eval func(ssa.Value) fdVal) string
	MaxVisits int
	// EffectR is Effect with access to resolve (the value an SSA value denotes on this path once results of
	// inlined calls, phis and local cells are looked through); used instead of Effect when set.
	EffectR func(ins ssa.Instruction, eval func(ssa.Value) fdVal, resolve func(ssa.Value) ssa.Value) (label string, stop bool)
	// Inline says whether a statically resolved callee is walked as part of the caller (nil = never).
	// Calls that Symbol names or Effect labels are never inlined.
	Inline func(callee *ssa.Function) bool
	// RecordCut keeps the trace of a path that is abandoned because a block was visited more than MaxVisits
	// times (terminal label "cut"); by default such paths are dropped.
	RecordCut bool
}

type fdPath struct {
	env    map[ssa.Value]fdVal
	cells  map[ssa.Value]ssa.Value // alloc -> last stored value
	trace  []string
	visits map[*ssa.BasicBlock]int
	alias  map[ssa.Value]ssa.Value   // parameter of an inlined callee -> argument; inlined call -> its single result
	tups   map[ssa.Value][]ssa.Value // inlined call -> result values of the return taken on this path
	src    map[ssa.Value]ssa.Value   // phi -> the incoming value on this path (identity only; used by resolve)
}

// fdFrame is a suspended caller: continue at block.Instrs[next:] once the inlined callee returns.
type fdFrame struct {
	call  *ssa.Call
	block *ssa.BasicBlock
	next  int
}

func (p *fdPath) clone() *fdPath {
	q := &fdPath{env: map[ssa.Value]fdVal{}, cells: map[ssa.Value]ssa.Value{}, visits: map[*ssa.BasicBlock]int{}, alias: map[ssa.Value]ssa.Value{}, tups: map[ssa.Value][]ssa.Value{}, src: map[ssa.Value]ssa.Value{}}
	for k, v := range p.src {
		q.src[k] = v
	}
	for k, v := range p.env {
		q.env[k] = v
	}
	for k, v := range p.alias {
		q.alias[k] = v
	}
	for k, v := range p.tups {
		q.tups[k] = v
	}
	for k, v := range p.cells {
		q.cells[k] = v
	}
	for k, v := range p.visits {
		q.visits[k] = v
	}
	q.trace = append([]string(nil), p.trace...)
	return q
}

// fdRun returns the set of traces (joined by " > ") reachable in fn under the assignment.
func fdRun(fn *ssa.Function, spec *fdSpec, assign map[string]int64) []string {
	out := map[string]bool{}
	maxV := spec.MaxVisits
	if maxV == 0 {
		maxV = 2
	}
	var eval func(p *fdPath, v ssa.Value) fdVal
	eval = func(p *fdPath, v ssa.Value) fdVal {
		if v == nil {
			return fdVal{}
		}
		if r, ok := p.env[v]; ok {
			return r
		}
		if a, ok := p.alias[v]; ok {
			return eval(p, a)
		}
		if ex, ok := v.(*ssa.Extract); ok {
			if t, ok := p.tups[ex.Tuple]; ok && ex.Index < len(t) {
				return eval(p, t[ex.Index])
			}
		}
		if c, ok := v.(*ssa.Const); ok && c.IsNil() {
			return fdVal{known: true, n: 0} // nil pointer / interface
		}
		if _, ok := v.(*ssa.Alloc); ok {
			return fdVal{known: true, n: 1} // address of a variable: non-nil
		}
		if c, ok := v.(*ssa.Const); ok && c.Value != nil {
			switch c.Value.Kind() {
			case constant.Int:
				if n, ok := constant.Int64Val(c.Value); ok {
					return fdVal{known: true, n: n}
				}
				if u, ok := constant.Uint64Val(c.Value); ok {
					return fdVal{known: true, n: int64(u)}
				}
			case constant.Bool:
				return fdVal{known: true, isB: true, b: constant.BoolVal(c.Value)}
			}
			return fdVal{}
		}
		if s := spec.Symbol(v); s != "" {
			if n, ok := assign[s]; ok {
				if strings.HasPrefix(s, "b:") {
					return fdVal{known: true, isB: true, b: n != 0}
				}
				return fdVal{known: true, n: n}
			}
		}
		switch x := v.(type) {
		case *ssa.MakeInterface:
			return fdVal{known: true, n: 1} // a concrete value boxed into an interface: non-nil
		case *ssa.Call:
			if knownNonNilResult(calleeOf(x)) {
				return fdVal{known: true, n: 1}
			}
		case *ssa.Convert:
			return eval(p, x.X)
		case *ssa.ChangeType:
			return eval(p, x.X)
		case *ssa.UnOp:
			if x.Op == token.NOT {
				a := eval(p, x.X)
				if a.known && a.isB {
					return fdVal{known: true, isB: true, b: !a.b}
				}
			}
			if x.Op == token.MUL {
				if st, ok := p.cells[x.X]; ok {
					return eval(p, st)
				}
				if g, ok := x.X.(*ssa.Global); ok && isErrorType(g.Type().(*types.Pointer).Elem()) {
					return fdVal{known: true, n: 1} // a sentinel error variable: non-nil
				}
			}
		case *ssa.BinOp:
			a, b := eval(p, x.X), eval(p, x.Y)
			if !a.known || !b.known {
				return fdVal{}
			}
			if a.isB && b.isB {
				switch x.Op {
				case token.EQL:
					return fdVal{known: true, isB: true, b: a.b == b.b}
				case token.NEQ:
					return fdVal{known: true, isB: true, b: a.b != b.b}
				}
				return fdVal{}
			}
			switch x.Op {
			case token.ADD:
				return fdVal{known: true, n: a.n + b.n}
			case token.SUB:
				return fdVal{known: true, n: a.n - b.n}
			case token.EQL:
				return fdVal{known: true, isB: true, b: a.n == b.n}
			case token.NEQ:
				return fdVal{known: true, isB: true, b: a.n != b.n}
			case token.LSS:
				return fdVal{known: true, isB: true, b: a.n < b.n}
			case token.LEQ:
				return fdVal{known: true, isB: true, b: a.n <= b.n}
			case token.GTR:
				return fdVal{known: true, isB: true, b: a.n > b.n}
			case token.GEQ:
				return fdVal{known: true, isB: true, b: a.n >= b.n}
			}
		}
		return fdVal{}
	}
	// resolve follows inlined-call results to the callee value actually returned on this path
	var resolve func(p *fdPath, v ssa.Value) ssa.Value
	resolve = func(p *fdPath, v ssa.Value) ssa.Value {
		for i := 0; i < 8; i++ {
			if a, ok := p.alias[v]; ok {
				v = a
				continue
			}
			if a, ok := p.src[v]; ok && len(p.tups)+len(p.alias) > 0 {
				v = a
				continue
			}
			if ex, ok := v.(*ssa.Extract); ok {
				if t, ok := p.tups[ex.Tuple]; ok && ex.Index < len(t) {
					v = t[ex.Index]
					continue
				}
			}
			if u, ok := v.(*ssa.UnOp); ok && u.Op == token.MUL {
				if st, ok := p.cells[u.X]; ok {
					v = st
					continue
				}
			}
			break
		}
		return v
	}
	var walk func(p *fdPath, b, prev *ssa.BasicBlock, from int, stack []fdFrame)
	walk = func(p *fdPath, b, prev *ssa.BasicBlock, from int, stack []fdFrame) {
		if from == 0 {
			p.visits[b]++
			if p.visits[b] > maxV || len(out) > 4096 {
				if spec.RecordCut && p.visits[b] > maxV {
					out[strings.Join(append(p.trace, "cut"), " > ")] = true
				}
				return
			}
		}
		// phis
		if prev != nil && from == 0 {
			pi := -1
			for i, pr := range b.Preds {
				if pr == prev {
					pi = i
				}
			}
			vals := map[ssa.Value]fdVal{}
			for _, ins := range b.Instrs {
				phi, ok := ins.(*ssa.Phi)
				if !ok {
					break
				}
				if pi >= 0 {
					vals[phi] = eval(p, phi.Edges[pi])
					// keep the identity of the incoming value (an inlined result, a sentinel) for resolve
					p.src[phi] = phi.Edges[pi]
				}
			}
			for k, v := range vals {
				if v.known {
					p.env[k] = v
				} else {
					delete(p.env, k)
				}
			}
		}
		for i := from; i < len(b.Instrs); i++ {
			ins := b.Instrs[i]
			switch x := ins.(type) {
			case *ssa.Phi:
				continue
			case *ssa.Store:
				if _, ok := x.Addr.(*ssa.Alloc); ok {
					p.cells[x.Addr] = x.Val
				}
			case *ssa.If:
				c := eval(p, x.Cond)
				if c.known && c.isB {
					if c.b {
						walk(p, b.Succs[0], b, 0, stack)
					} else {
						walk(p, b.Succs[1], b, 0, stack)
					}
					return
				}
				q := p.clone()
				walk(p, b.Succs[0], b, 0, stack)
				walk(q, b.Succs[1], b, 0, stack)
				return
			case *ssa.Jump:
				walk(p, b.Succs[0], b, 0, stack)
				return
			case *ssa.Return:
				res := make([]ssa.Value, len(x.Results))
				for i, rv := range x.Results {
					res[i] = resolve(p, rv)
				}
				if len(stack) > 0 {
					// return into the suspended caller
					fr := stack[len(stack)-1]
					if len(res) == 1 {
						p.alias[fr.call] = res[0]
					} else {
						p.tups[fr.call] = res
					}
					walk(p, fr.block, nil, fr.next, stack[:len(stack)-1])
					return
				}
				lab := "return"
				if spec.Return != nil {
					lab = spec.Return(x, res, func(v ssa.Value) fdVal { return eval(p, v) })
				}
				out[strings.Join(append(p.trace, lab), " > ")] = true
				return
			case *ssa.Panic:
				out[strings.Join(append(p.trace, "panic"), " > ")] = true
				return
			}
			labelled := false
			if spec.Effect != nil || spec.EffectR != nil {
				var lab string
				var stop bool
				if spec.EffectR != nil {
					lab, stop = spec.EffectR(ins, func(v ssa.Value) fdVal { return eval(p, v) }, func(v ssa.Value) ssa.Value { return resolve(p, v) })
				} else {
					lab, stop = spec.Effect(ins, func(v ssa.Value) fdVal { return eval(p, v) })
				}
				if lab != "" || stop {
					labelled = true
					if lab != "" {
						p.trace = append(p.trace, lab)
					}
					if stop {
						out[strings.Join(p.trace, " > ")] = true
						return
					}
				}
			}
			if c, ok := ins.(*ssa.Call); ok && !labelled && spec.Inline != nil && len(stack) < 3 {
				callee := c.Call.StaticCallee()
				if callee != nil && callee.Blocks != nil && spec.Symbol(c) == "" && spec.Inline(callee) {
					rec := false
					for _, fr := range stack {
						if fr.call.Call.StaticCallee() == callee {
							rec = true
						}
					}
					if !rec && callee != fn {
						for j, prm := range callee.Params {
							if j < len(c.Call.Args) {
								p.alias[prm] = c.Call.Args[j]
								delete(p.env, prm)
							}
						}
						// the callee's blocks may be entered once per call site on a path
						for _, cb := range callee.Blocks {
							delete(p.visits, cb)
						}
						ns := append(append([]fdFrame(nil), stack...), fdFrame{call: c, block: b, next: i + 1})
						walk(p, callee.Blocks[0], nil, 0, ns)
						return
					}
				}
			}
		}
	}
	walk(&fdPath{env: map[ssa.Value]fdVal{}, cells: map[ssa.Value]ssa.Value{}, visits: map[*ssa.BasicBlock]int{}, alias: map[ssa.Value]ssa.Value{}, tups: map[ssa.Value][]ssa.Value{}, src: map[ssa.Value]ssa.Value{}}, fn.Blocks[0], nil, 0, nil)
	var res []string
	for k := range out {
		res = append(res, k)
	}
	sort.Strings(res)
	return res
}

// enumAssignments enumerates all assignments of the names over [lo,hi] that satisfy keep.
func enumAssignments(names []string, lo, hi int64, keep func(a map[string]int64) bool, fn func(a map[string]int64)) int {
	n := 0
	a := map[string]int64{}
	var rec func(i int)
	rec = func(i int) {
		if i == len(names) {
			if keep == nil || keep(a) {
				n++
				fn(a)
			}
			return
		}
		for v := lo; v <= hi; v++ {
			a[names[i]] = v
			rec(i + 1)
		}
	}
	rec(0)
	return n
}

// orderingSig is the weak ordering (incl. successor relations) an assignment witnesses.
func orderingSig(a map[string]int64, names []string) string {
	var parts []string
	ext := map[string]int64{"0": 0}
	for _, n := range names {
		ext[n] = a[n]
		ext[n+"+1"] = a[n] + 1
		ext[n+"-1"] = a[n] - 1
	}
	ks := sortedKeys(ext)
	for i, x := range ks {
		for _, y := range ks[i+1:] {
			c := "="
			if ext[x] < ext[y] {
				c = "<"
			} else if ext[x] > ext[y] {
				c = ">"
			}
			parts = append(parts, x+c+y)
		}
	}
	return strings.Join(parts, ",")
}

func fmtAssign(a map[string]int64) string {
	var parts []string
	for _, k := range sortedKeys(a) {
		parts = append(parts, fmt.Sprintf("%s=%d", k, a[k]))
	}
	return strings.Join(parts, " ")
}

// isNotFoundGlobal: v is a load of a package-level variable named ErrNotFound.
func isGlobalLoad(v ssa.Value, name string) bool {
	u, ok := v.(*ssa.UnOp)
	if !ok || u.Op != token.MUL {
		return false
	}
	g, ok := u.X.(*ssa.Global)
	return ok && g.Name() == name
}

// errLabel classifies the error operand of a return.
func errLabel(v ssa.Value) string {
	switch x := v.(type) {
	case *ssa.Const:
		if x.IsNil() {
			return "nil"
		}
	case *ssa.Call:
		n := eventName(x)
		if n == "fmt.Errorf" || n == "errors.New" {
			return "error"
		}
		return "call:" + n
	case *ssa.MakeInterface:
		return "error"
	case *ssa.Extract:
		if c, ok := x.Tuple.(*ssa.Call); ok {
			return "err-of:" + eventName(c)
		}
	}
	if isGlobalLoad(v, "ErrNotFound") {
		return "notfound"
	}
	if u, ok := v.(*ssa.UnOp); ok && u.Op == token.MUL {
		if g, ok := u.X.(*ssa.Global); ok {
			return "sentinel:" + g.Name()
		}
	}
	return "unknown"
}
