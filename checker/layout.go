package main

import (
	"fmt"
	"go/ast"
	"go/constant"
	"go/token"
	"go/types"
	"sort"
	"strings"

	"golang.org/x/tools/go/packages"
)

// layoutOp is one byte-level operation extracted from a function body.
type layoutOp struct {
	Kind   string // "put" (PutUintN), "get" (UintN), "bytestore" (buf[k] = c), "bytetest" (buf[k] OP c), "identtest" (x OP c where x := UintN(buf[lo:hi]))
	Lo, Hi int    // byte range [Lo,Hi); Hi=-1 for open-ended slices
	Width  int    // 16/32/64 for put/get
	Order  string // "LittleEndian" / "BigEndian"
	Value  string // put: "const:<n>", "field:<Name>", "ident:<name>"; get: "field:<Name>", "ident:<name>"; tests: "const:<n>"
	Op     token.Token
	Pos    token.Pos
	Buf    string // name of the buffer identifier
}

func (o layoutOp) String() string {
	switch o.Kind {
	case "put":
		return fmt.Sprintf("%s.PutUint%d(%s[%d:%d], %s)", o.Order, o.Width, o.Buf, o.Lo, o.Hi, o.Value)
	case "get":
		return fmt.Sprintf("%s = %s.Uint%d(%s[%d:%d])", o.Value, o.Order, o.Width, o.Buf, o.Lo, o.Hi)
	case "bytestore":
		return fmt.Sprintf("%s[%d] = %s", o.Buf, o.Lo, o.Value)
	case "bytetest":
		return fmt.Sprintf("%s[%d] %s %s", o.Buf, o.Lo, o.Op, o.Value)
	case "identtest":
		return fmt.Sprintf("%s.Uint%d(%s[%d:%d]) %s %s", o.Order, o.Width, o.Buf, o.Lo, o.Hi, o.Op, o.Value)
	}
	return o.Kind
}

// findFuncDecl finds a top-level function (or method "T.m") declaration in a package.
func findFuncDecl(pk *packages.Package, name string) *ast.FuncDecl {
	recv := ""
	if i := strings.Index(name, "."); i >= 0 {
		recv, name = name[:i], name[i+1:]
	}
	for _, f := range pk.Syntax {
		for _, d := range f.Decls {
			fd, ok := d.(*ast.FuncDecl)
			if !ok || fd.Name.Name != name {
				continue
			}
			if recv == "" && fd.Recv == nil {
				return fd
			}
			if recv != "" && fd.Recv != nil && len(fd.Recv.List) > 0 {
				t := fd.Recv.List[0].Type
				if s, ok := t.(*ast.StarExpr); ok {
					t = s.X
				}
				if id, ok := t.(*ast.Ident); ok && id.Name == recv {
					return fd
				}
			}
		}
	}
	return nil
}

// funcsBySig returns the non-test top-level functions of pk whose signature satisfies pred.
func funcsBySig(p *Prog, pk *packages.Package, pred func(sig *types.Signature) bool) []*ast.FuncDecl {
	var out []*ast.FuncDecl
	for _, f := range pk.Syntax {
		if isTestFile(p, f) {
			continue
		}
		for _, d := range f.Decls {
			fd, ok := d.(*ast.FuncDecl)
			if !ok || fd.Body == nil {
				continue
			}
			obj, _ := pk.TypesInfo.Defs[fd.Name].(*types.Func)
			if obj == nil {
				continue
			}
			if pred(obj.Type().(*types.Signature)) {
				out = append(out, fd)
			}
		}
	}
	sort.Slice(out, func(i, j int) bool { return out[i].Name.Name < out[j].Name.Name })
	return out
}

func valueDesc(info *types.Info, e ast.Expr) string {
	e = ast.Unparen(e)
	if tv, ok := info.Types[e]; ok && tv.Value != nil {
		if v := constant.ToInt(tv.Value); v.Kind() == constant.Int {
			if u, ok := constant.Uint64Val(v); ok {
				return fmt.Sprintf("const:%d", u)
			}
			if n, ok := constant.Int64Val(v); ok {
				return fmt.Sprintf("const:%d", n)
			}
		}
	}
	switch x := e.(type) {
	case *ast.SelectorExpr:
		return "field:" + x.Sel.Name
	case *ast.Ident:
		return "ident:" + x.Name
	case *ast.CallExpr: // conversions like uint64(x.f)
		if len(x.Args) == 1 {
			if tv, ok := info.Types[x.Fun]; ok && tv.IsType() {
				return valueDesc(info, x.Args[0])
			}
		}
	}
	return "expr"
}

// sliceRange decodes buf[lo:hi] / buf[:] / buf[lo:] with constant bounds.
func sliceRange(info *types.Info, e ast.Expr) (buf string, lo, hi int, ok bool) {
	se, isSlice := ast.Unparen(e).(*ast.SliceExpr)
	if !isSlice {
		if id, isID := ast.Unparen(e).(*ast.Ident); isID {
			return id.Name, 0, -1, true
		}
		return "", 0, 0, false
	}
	id, isID := se.X.(*ast.Ident)
	if !isID {
		return "", 0, 0, false
	}
	lo, hi = 0, -1
	if se.Low != nil {
		n, c := constInt(info, se.Low)
		if !c {
			return id.Name, -1, -1, true // non-constant lower bound
		}
		lo = int(n)
	}
	if se.High != nil {
		n, c := constInt(info, se.High)
		if !c {
			return id.Name, lo, -1, true
		}
		hi = int(n)
	}
	return id.Name, lo, hi, true
}

// byteOrderCall recognises binary.<Order>.<Method>(...) calls.
func byteOrderCall(info *types.Info, ce *ast.CallExpr) (order, method string, ok bool) {
	sel, isSel := ce.Fun.(*ast.SelectorExpr)
	if !isSel {
		return "", "", false
	}
	inner, isSel2 := sel.X.(*ast.SelectorExpr)
	if !isSel2 {
		return "", "", false
	}
	pkgID, isID := inner.X.(*ast.Ident)
	if !isID {
		return "", "", false
	}
	if pn, isPkg := info.Uses[pkgID].(*types.PkgName); !isPkg || pn.Imported().Path() != "encoding/binary" {
		return "", "", false
	}
	return inner.Sel.Name, sel.Sel.Name, true
}

// extractLayout collects the byte-level operations of a function body.
func extractLayout(info *types.Info, body ast.Node) []layoutOp {
	var ops []layoutOp
	identDef := map[types.Object]layoutOp{} // x := binary.LE.UintN(buf[lo:hi])
	width := func(m string) int {
		switch {
		case strings.HasSuffix(m, "16"):
			return 16
		case strings.HasSuffix(m, "32"):
			return 32
		case strings.HasSuffix(m, "64"):
			return 64
		}
		return 0
	}
	// the bytes a fixed-width put/get touches are [lo, lo+width/8) whatever the slice's upper bound is
	// (buf[8:16], buf[8:] and buf[8:24] are the same for Uint64), as long as the slice is long enough
	norm := func(lo, hi, w int) int {
		if lo >= 0 && w > 0 && (hi == -1 || hi >= lo+w/8) {
			return lo + w/8
		}
		return hi
	}
	// append cursors: buf := make([]byte, 0, N) / var buf []byte start at 0; every
	// buf = binary.<Order>.AppendUintNN(buf, v) writes at the cursor and advances it
	cursor := map[types.Object]int{}
	startCursor := func(lhs ast.Expr, rhs ast.Expr) {
		id, ok := lhs.(*ast.Ident)
		if !ok {
			return
		}
		obj := info.ObjectOf(id)
		if obj == nil {
			return
		}
		if rhs == nil {
			cursor[obj] = 0
			return
		}
		if ce, ok := ast.Unparen(rhs).(*ast.CallExpr); ok {
			if fid, ok := ce.Fun.(*ast.Ident); ok && fid.Name == "make" && len(ce.Args) >= 2 {
				if n, c := constInt(info, ce.Args[1]); c && n == 0 {
					cursor[obj] = 0
				}
			}
		}
	}
	ast.Inspect(body, func(n ast.Node) bool {
		switch x := n.(type) {
		case *ast.DeclStmt:
			if gd, ok := x.Decl.(*ast.GenDecl); ok && gd.Tok == token.VAR {
				for _, sp := range gd.Specs {
					if vs, ok := sp.(*ast.ValueSpec); ok && len(vs.Values) == 0 {
						if at, ok := vs.Type.(*ast.ArrayType); ok && at.Len == nil {
							for _, nm := range vs.Names {
								startCursor(nm, nil)
							}
						}
					}
				}
			}
		case *ast.CallExpr:
			// clear(buf[lo:hi]) zeroes the bytes lo..hi-1
			if fid, ok := x.Fun.(*ast.Ident); ok && fid.Name == "clear" && len(x.Args) == 1 {
				if _, isBuiltin := info.Uses[fid].(*types.Builtin); isBuiltin {
					if buf, lo, hi, ok2 := sliceRange(info, x.Args[0]); ok2 && lo >= 0 && hi >= lo {
						for k := lo; k < hi; k++ {
							ops = append(ops, layoutOp{Kind: "bytestore", Lo: k, Hi: k + 1, Value: "const:0", Pos: x.Pos(), Buf: buf})
						}
					}
				}
			}
			if order, m, ok := byteOrderCall(info, x); ok && strings.HasPrefix(m, "AppendUint") && len(x.Args) == 2 {
				w := width(m)
				switch a := ast.Unparen(x.Args[0]).(type) {
				case *ast.Ident:
					if a.Name == "nil" {
						ops = append(ops, layoutOp{Kind: "put", Lo: 0, Hi: w / 8, Width: w, Order: order, Value: valueDesc(info, x.Args[1]), Pos: x.Pos(), Buf: "nil"})
					} else if obj := info.ObjectOf(a); obj != nil {
						if cur, known := cursor[obj]; known {
							ops = append(ops, layoutOp{Kind: "put", Lo: cur, Hi: cur + w/8, Width: w, Order: order, Value: valueDesc(info, x.Args[1]), Pos: x.Pos(), Buf: a.Name})
							cursor[obj] = cur + w/8
						} else {
							ops = append(ops, layoutOp{Kind: "put", Lo: -1, Hi: -1, Width: w, Order: order, Value: valueDesc(info, x.Args[1]), Pos: x.Pos(), Buf: a.Name})
						}
					}
				}
			}
			order, m, ok := byteOrderCall(info, x)
			if ok && strings.HasPrefix(m, "PutUint") && len(x.Args) == 2 {
				buf, lo, hi, ok2 := sliceRange(info, x.Args[0])
				hi = norm(lo, hi, width(m))
				if ok2 {
					ops = append(ops, layoutOp{Kind: "put", Lo: lo, Hi: hi, Width: width(m), Order: order, Value: valueDesc(info, x.Args[1]), Pos: x.Pos(), Buf: buf})
				}
			}
		case *ast.AssignStmt:
			for i, rhs := range x.Rhs {
				if i >= len(x.Lhs) {
					break
				}
				if x.Tok == token.DEFINE {
					startCursor(x.Lhs[i], rhs)
				}
				// lhs = binary.LE.UintN(buf[lo:hi])
				if ce, ok := ast.Unparen(rhs).(*ast.CallExpr); ok {
					if order, m, ok := byteOrderCall(info, ce); ok && strings.HasPrefix(m, "Uint") && len(ce.Args) == 1 {
						buf, lo, hi, ok2 := sliceRange(info, ce.Args[0])
						hi = norm(lo, hi, width(m))
						if ok2 {
							op := layoutOp{Kind: "get", Lo: lo, Hi: hi, Width: width(m), Order: order, Value: valueDesc(info, x.Lhs[i]), Pos: ce.Pos(), Buf: buf}
							ops = append(ops, op)
							if id, ok := x.Lhs[i].(*ast.Ident); ok {
								if obj := info.ObjectOf(id); obj != nil {
									identDef[obj] = op
								}
							}
						}
					}
				}
				// buf[k] = c
				if ie, ok := x.Lhs[i].(*ast.IndexExpr); ok {
					if id, ok := ie.X.(*ast.Ident); ok {
						if k, ok := constInt(info, ie.Index); ok {
							ops = append(ops, layoutOp{Kind: "bytestore", Lo: int(k), Hi: int(k) + 1, Value: valueDesc(info, rhs), Pos: x.Pos(), Buf: id.Name})
						}
					}
				}
			}
		case *ast.BinaryExpr:
			switch x.Op {
			case token.EQL, token.NEQ:
				l, rgt := ast.Unparen(x.X), ast.Unparen(x.Y)
				// buf[k] OP c
				if ie, ok := l.(*ast.IndexExpr); ok {
					if id, ok := ie.X.(*ast.Ident); ok {
						if k, ok := constInt(info, ie.Index); ok {
							if v := valueDesc(info, rgt); strings.HasPrefix(v, "const:") {
								ops = append(ops, layoutOp{Kind: "bytetest", Lo: int(k), Hi: int(k) + 1, Value: v, Op: x.Op, Pos: x.Pos(), Buf: id.Name})
							}
						}
					}
				}
				// UintN(buf[lo:hi]) OP c, written inline (either operand order)
				for _, pair := range [][2]ast.Expr{{l, rgt}, {rgt, l}} {
					if ce, ok := pair[0].(*ast.CallExpr); ok {
						if order, m, ok := byteOrderCall(info, ce); ok && strings.HasPrefix(m, "Uint") && len(ce.Args) == 1 {
							if buf, lo, hi, ok2 := sliceRange(info, ce.Args[0]); ok2 {
								if v := valueDesc(info, pair[1]); strings.HasPrefix(v, "const:") {
									ops = append(ops, layoutOp{Kind: "identtest", Lo: lo, Hi: norm(lo, hi, width(m)), Width: width(m), Order: order, Value: v, Op: x.Op, Pos: x.Pos(), Buf: buf})
								}
							}
						}
					}
				}
				// x OP c where x := UintN(buf[lo:hi])
				if id, ok := l.(*ast.Ident); ok {
					if def, ok := identDef[info.ObjectOf(id)]; ok {
						if v := valueDesc(info, rgt); strings.HasPrefix(v, "const:") {
							o := def
							o.Kind, o.Value, o.Op, o.Pos = "identtest", v, x.Op, x.Pos()
							ops = append(ops, o)
						}
					}
				}
			}
		}
		return true
	})
	return ops
}

// byteMap renders the writer side as position -> description.
func byteMap(ops []layoutOp, buf string) (map[int]string, error) {
	m := map[int]string{}
	for _, o := range ops {
		if o.Buf != buf {
			continue
		}
		switch o.Kind {
		case "put":
			if o.Lo < 0 || o.Hi < 0 {
				return nil, fmt.Errorf("non-constant range in %s", o)
			}
			if o.Hi-o.Lo != o.Width/8 {
				return nil, fmt.Errorf("%s: range is %d bytes, value is %d", o, o.Hi-o.Lo, o.Width/8)
			}
			for i := 0; i < o.Width/8; i++ {
				pos := o.Lo + i
				if o.Order == "BigEndian" {
					pos = o.Hi - 1 - i
				}
				if strings.HasPrefix(o.Value, "const:") {
					var v uint64
					fmt.Sscanf(strings.TrimPrefix(o.Value, "const:"), "%d", &v)
					m[pos] = fmt.Sprintf("0x%02x", byte(v>>(8*uint(i))))
				} else {
					m[pos] = fmt.Sprintf("%s.byte%d", o.Value, i)
				}
			}
		case "bytestore":
			if strings.HasPrefix(o.Value, "const:") {
				var v uint64
				fmt.Sscanf(strings.TrimPrefix(o.Value, "const:"), "%d", &v)
				m[o.Lo] = fmt.Sprintf("0x%02x", byte(v))
			} else {
				m[o.Lo] = o.Value + ".byte0"
			}
		}
	}
	return m, nil
}

func fmtByteMap(m map[int]string) string {
	var ks []int
	for k := range m {
		ks = append(ks, k)
	}
	sort.Ints(ks)
	var parts []string
	for _, k := range ks {
		parts = append(parts, fmt.Sprintf("%d:%s", k, m[k]))
	}
	return strings.Join(parts, " ")
}
