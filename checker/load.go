package main

import (
	"fmt"
	"go/ast"
	"go/token"
	"go/types"
	"os"
	"path/filepath"
	"sort"
	"strings"
	"time"

	"golang.org/x/tools/go/callgraph"
	"golang.org/x/tools/go/callgraph/cha"
	"golang.org/x/tools/go/callgraph/vta"
	"golang.org/x/tools/go/packages"
	"golang.org/x/tools/go/ssa"
	"golang.org/x/tools/go/ssa/ssautil"
)

// ModPath is the module path of the analysed repository.
const ModPath = "github.com/hashicorp/raft-wal"

// prodRel lists the production packages relative to the module root. Everything
// else (integration, bench, alice, tests) is loaded only so that it type-checks.
var prodRel = []string{"", "segment", "fs", "metadb", "types", "metrics", "verifier", "migrate", "cmd/waldump"}

// Prog is the resolved program all rules work on.
type Prog struct {
	Fset    *token.FileSet
	RepoDir string
	All     []*packages.Package
	Pkg     map[string]*packages.Package // key: relative path ("" = root)
	SSA     *ssa.Program
	SSAPkg  map[string]*ssa.Package
	CG      *callgraph.Graph
	CHA     *callgraph.Graph
	prodTy  map[*types.Package]bool
	// Funcs are all source functions (incl. anonymous) of production packages.
	Funcs []*ssa.Function
	// Config the program was loaded with.
	GOOS, GOARCH string
	Tags         string
	Overlay      map[string][]byte
	roleCache    map[string]*ssa.Function
}

type LoadConfig struct {
	RepoDir string
	GOOS    string
	GOARCH  string
	Tags    string
	Overlay map[string][]byte
	NoCG    bool
}

func loadProg(cfg LoadConfig) (*Prog, error) {
	env := append(os.Environ(),
		"GOFLAGS=-mod=mod", "GOPROXY=off", "GOSUMDB=off", "GOWORK=off", "GOTOOLCHAIN=local", "CGO_ENABLED=0")
	if cfg.GOOS != "" {
		env = append(env, "GOOS="+cfg.GOOS)
	}
	if cfg.GOARCH != "" {
		env = append(env, "GOARCH="+cfg.GOARCH)
	}
	tags := "verif"
	if cfg.Tags != "" {
		tags += "," + cfg.Tags
	}
	t0 := time.Now()
	fset := token.NewFileSet()
	pc := &packages.Config{
		Mode: packages.NeedName | packages.NeedFiles | packages.NeedCompiledGoFiles | packages.NeedImports |
			packages.NeedTypes | packages.NeedTypesSizes | packages.NeedSyntax | packages.NeedTypesInfo | packages.NeedModule,
		Dir:        cfg.RepoDir,
		Env:        env,
		Fset:       fset,
		BuildFlags: []string{"-tags=" + tags},
		Overlay:    cfg.Overlay,
	}
	pkgs, err := packages.Load(pc, "./...")
	if err != nil {
		return nil, fmt.Errorf("load: %w", err)
	}
	tLoad := time.Since(t0)
	if len(pkgs) == 0 {
		return nil, fmt.Errorf("load: zero packages under %s", cfg.RepoDir)
	}
	p := &Prog{Fset: fset, RepoDir: cfg.RepoDir, All: pkgs, Pkg: map[string]*packages.Package{},
		SSAPkg: map[string]*ssa.Package{}, prodTy: map[*types.Package]bool{},
		GOOS: cfg.GOOS, GOARCH: cfg.GOARCH, Tags: cfg.Tags, Overlay: cfg.Overlay}
	var errs []string
	for _, pk := range pkgs {
		for _, e := range pk.Errors {
			errs = append(errs, fmt.Sprintf("%s: %s", pk.PkgPath, e.Msg))
		}
		if pk.PkgPath == ModPath || strings.HasPrefix(pk.PkgPath, ModPath+"/") {
			rel := strings.TrimPrefix(strings.TrimPrefix(pk.PkgPath, ModPath), "/")
			p.Pkg[rel] = pk
		}
	}
	if len(errs) > 0 {
		sort.Strings(errs)
		if len(errs) > 8 {
			errs = errs[:8]
		}
		return nil, fmt.Errorf("type errors in analysed tree:\n  %s", strings.Join(errs, "\n  "))
	}
	for _, rel := range prodRel {
		pk := p.Pkg[rel]
		if pk == nil {
			return nil, fmt.Errorf("production package %q missing from load", rel)
		}
		if pk.Types == nil || pk.TypesInfo == nil {
			return nil, fmt.Errorf("production package %q has no type information", rel)
		}
		p.prodTy[pk.Types] = true
	}
	prog, spkgs := ssautil.Packages(pkgs, ssa.InstantiateGenerics)
	p.SSA = prog
	for i, sp := range spkgs {
		if sp == nil {
			continue
		}
		pk := pkgs[i]
		if pk.PkgPath == ModPath || strings.HasPrefix(pk.PkgPath, ModPath+"/") {
			rel := strings.TrimPrefix(strings.TrimPrefix(pk.PkgPath, ModPath), "/")
			p.SSAPkg[rel] = sp
		}
	}
	prog.Build()
	for _, rel := range prodRel {
		if p.SSAPkg[rel] == nil {
			return nil, fmt.Errorf("no SSA for production package %q", rel)
		}
	}
	all := ssautil.AllFunctions(prog)
	for fn := range all {
		if p.IsProdFunc(fn) && fn.Blocks != nil {
			p.Funcs = append(p.Funcs, fn)
		}
	}
	tSSA := time.Since(t0)
	sort.Slice(p.Funcs, func(i, j int) bool { return p.Funcs[i].String() < p.Funcs[j].String() })
	if !cfg.NoCG {
		p.CHA = cha.CallGraph(prog)
		p.CG = vta.CallGraph(all, p.CHA)
	}
	if os.Getenv("WALCHECK_TIMING") != "" {
		fmt.Fprintf(os.Stderr, "timing: load %.2fs ssa %.2fs cg %.2fs funcs=%d\n", tLoad.Seconds(), (tSSA - tLoad).Seconds(), (time.Since(t0) - tSSA).Seconds(), len(all))
	}
	return p, nil
}

// IsProdPkg reports whether the types package is one of the production packages.
func (p *Prog) IsProdPkg(tp *types.Package) bool { return tp != nil && p.prodTy[tp] }

// IsProdFunc reports whether fn (or the function it is nested in / instantiated
// from) is declared in a production package, in a non-test file.
func (p *Prog) IsProdFunc(fn *ssa.Function) bool {
	if fn == nil {
		return false
	}
	root := fn
	for root.Parent() != nil {
		root = root.Parent()
	}
	if o := root.Origin(); o != nil {
		root = o
	}
	var tp *types.Package
	if root.Pkg != nil {
		tp = root.Pkg.Pkg
	} else if root.Object() != nil {
		tp = root.Object().Pkg()
	}
	if !p.IsProdPkg(tp) {
		return false
	}
	if root.Synthetic != "" && root.Syntax() == nil {
		// wrappers and bound-method thunks of production methods count too
		return true
	}
	pos := root.Pos()
	if pos.IsValid() {
		if strings.HasSuffix(p.Fset.Position(pos).Filename, "_test.go") {
			return false
		}
	}
	return true
}

// Position renders a token.Pos relative to the repo.
func (p *Prog) Position(pos token.Pos) string {
	if !pos.IsValid() {
		return "?"
	}
	ps := p.Fset.Position(pos)
	f := ps.Filename
	if r, err := filepath.Rel(p.RepoDir, f); err == nil && !strings.HasPrefix(r, "..") {
		f = r
	}
	return fmt.Sprintf("%s:%d", f, ps.Line)
}

// RelPkg returns the relative package key ("" root, "segment", ...) of a types package.
func (p *Prog) RelPkg(tp *types.Package) string {
	if tp == nil {
		return "?"
	}
	return strings.TrimPrefix(strings.TrimPrefix(tp.Path(), ModPath), "/")
}

// Func finds a package-level function or method "T.m" in a production package.
func (p *Prog) Func(rel, name string) *ssa.Function {
	if fn := p.funcByName(rel, name); fn != nil {
		return fn
	}
	return p.funcByRole(rel, name)
}

func (p *Prog) funcByName(rel, name string) *ssa.Function {
	sp := p.SSAPkg[rel]
	if sp == nil {
		return nil
	}
	if i := strings.Index(name, "."); i >= 0 {
		tn, mn := name[:i], name[i+1:]
		obj := sp.Pkg.Scope().Lookup(tn)
		if obj == nil {
			return nil
		}
		named, ok := obj.Type().(*types.Named)
		if !ok {
			return nil
		}
		for _, T := range []types.Type{named, types.NewPointer(named)} {
			ms := p.SSA.MethodSets.MethodSet(T)
			for i := 0; i < ms.Len(); i++ {
				if ms.At(i).Obj().Name() == mn {
					fn := p.SSA.MethodValue(ms.At(i))
					if fn != nil && fn.Synthetic == "" {
						return fn
					}
					// value-receiver method reached through pointer wrapper
					if fn != nil {
						if f2 := p.SSA.FuncValue(ms.At(i).Obj().(*types.Func)); f2 != nil {
							return f2
						}
					}
				}
			}
		}
		return nil
	}
	return sp.Func(name)
}

// NamedType looks up a named type in a production package.
func (p *Prog) NamedType(rel, name string) *types.Named {
	pk := p.Pkg[rel]
	if pk == nil {
		return nil
	}
	obj := pk.Types.Scope().Lookup(name)
	if obj == nil {
		return p.namedByRole(rel, name)
	}
	n, _ := obj.Type().(*types.Named)
	return n
}

// Field looks up a struct field object (following one level of anonymous
// struct nesting with a dotted path, e.g. "writer.indexStart").
func (p *Prog) Field(rel, typ, path string) *types.Var {
	if v := p.fieldByName(rel, typ, path); v != nil {
		return v
	}
	return p.fieldByRole(rel, typ, path)
}

func (p *Prog) fieldByName(rel, typ, path string) *types.Var {
	n := p.NamedType(rel, typ)
	if n == nil {
		return nil
	}
	var cur types.Type = n
	var v *types.Var
	for _, part := range strings.Split(path, ".") {
		st, ok := cur.Underlying().(*types.Struct)
		if !ok {
			return nil
		}
		v = nil
		for i := 0; i < st.NumFields(); i++ {
			if st.Field(i).Name() == part {
				v = st.Field(i)
				break
			}
		}
		if v == nil {
			return nil
		}
		cur = v.Type()
	}
	return v
}

// IfaceMethod looks up an interface method object, e.g. ("types","VFS","Create").
func (p *Prog) IfaceMethod(rel, iface, method string) *types.Func {
	n := p.NamedType(rel, iface)
	if n == nil {
		return nil
	}
	it, ok := n.Underlying().(*types.Interface)
	if !ok {
		return nil
	}
	for i := 0; i < it.NumMethods(); i++ {
		if it.Method(i).Name() == method {
			return it.Method(i)
		}
	}
	return nil
}

// DepFunc finds a function/method object in a dependency by import path, e.g.
// ("os","Rename"), ("os","File.Sync"), ("go.etcd.io/bbolt","Tx.Commit").
func (p *Prog) DepFunc(path, name string) *types.Func {
	var tp *types.Package
	for _, sp := range p.SSA.AllPackages() {
		if sp.Pkg.Path() == path {
			tp = sp.Pkg
			break
		}
	}
	if tp == nil {
		return nil
	}
	if i := strings.Index(name, "."); i >= 0 {
		obj := tp.Scope().Lookup(name[:i])
		if obj == nil {
			return nil
		}
		named, ok := obj.Type().(*types.Named)
		if !ok {
			return nil
		}
		for j := 0; j < named.NumMethods(); j++ {
			if named.Method(j).Name() == name[i+1:] {
				return named.Method(j)
			}
		}
		if it, ok := named.Underlying().(*types.Interface); ok {
			for j := 0; j < it.NumMethods(); j++ {
				if it.Method(j).Name() == name[i+1:] {
					return it.Method(j)
				}
			}
		}
		return nil
	}
	f, _ := tp.Scope().Lookup(name).(*types.Func)
	return f
}

// FileOf returns the syntax file containing pos in production packages.
func (p *Prog) FileOf(pos token.Pos) *ast.File {
	for _, rel := range prodRel {
		for _, f := range p.Pkg[rel].Syntax {
			if f.Pos() <= pos && pos <= f.End() {
				return f
			}
		}
	}
	return nil
}

// funcDisplay is a stable, position-free name of a function for construct keys.
func funcDisplay(fn *ssa.Function) string {
	if fn == nil {
		return "?"
	}
	s := fn.String()
	s = strings.ReplaceAll(s, ModPath+"/", "")
	s = strings.ReplaceAll(s, ModPath, "wal")
	return s
}
