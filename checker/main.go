// walcheck decides structural necessary conditions of the raft-wal properties
// C01..C20 from the type-checked source of /repo. It never runs raft-wal code.
package main

import (
	"encoding/json"
	"flag"
	"fmt"
	"os"
	"path/filepath"
	"runtime/debug"
	"sort"
	"strconv"
	"strings"
	"time"
)

var allRules []*Rule

func register(r *Rule) { allRules = append(allRules, r) }

func ruleByID(id string) *Rule {
	for _, r := range allRules {
		if r.ID == id {
			return r
		}
	}
	return nil
}

func verifDir() string {
	if d := os.Getenv("WALCHECK_VERIF"); d != "" {
		return d
	}
	exe, err := os.Executable()
	if err == nil {
		d := filepath.Dir(filepath.Dir(exe))
		if _, err := os.Stat(filepath.Join(d, "MANIFEST.json")); err == nil {
			return d
		}
	}
	wd, _ := os.Getwd()
	return wd
}

func main() {
	prop := flag.String("prop", "", "property id (C01..C20)")
	tier := flag.String("tier", "", "quick|thorough")
	repo := flag.String("repo", "/repo", "repository to analyse")
	replay := flag.String("replay", "", "replay a violation file")
	list := flag.Bool("list", false, "list the rule catalogue with today's instance counts")
	only := flag.String("rule", "", "run only this rule (debugging; no evidence written)")
	verbose := flag.Bool("v", false, "print every obligation")
	manifest := flag.Bool("manifest", false, "regenerate MANIFEST.json from the rule registry")
	seeded := flag.Bool("seeded", false, "apply every seeded/*/patch.diff to a scratch copy and expect the property's checks to report it")
	refactors := flag.Bool("refactors", false, "apply every refactors/*/*.diff (behaviour-preserving) to a scratch copy and expect every rule to stay silent")
	selftest := flag.Bool("selftest", false, "run the checker's own must-fire / must-stay-silent corpus")
	flag.Parse()

	if *tier == "" {
		*tier = os.Getenv("VERIF_TIER")
	}
	if *tier == "" {
		*tier = "quick"
	}
	if *tier != "quick" && *tier != "thorough" {
		fmt.Fprintln(os.Stderr, "walcheck: -tier must be quick or thorough")
		os.Exit(2)
	}
	seed := 0
	if s := os.Getenv("VERIF_SEED"); s != "" {
		if n, err := strconv.Atoi(s); err == nil {
			seed = n
		}
	}

	defer func() {
		if e := recover(); e != nil {
			fmt.Fprintf(os.Stderr, "walcheck: internal panic: %v\n%s\n", e, debug.Stack())
			os.Exit(2)
		}
	}()

	switch {
	case *manifest:
		os.Exit(runManifest())
	case *seeded:
		os.Exit(runSeeded(*repo, flag.Args()))
	case *refactors:
		os.Exit(runRefactors(*repo, flag.Args()))
	case *selftest:
		os.Exit(runSelftest(*repo, flag.Args()))
	case *list:
		os.Exit(runList(*repo))
	case *replay != "":
		os.Exit(runReplay(*replay, *repo))
	case *only != "":
		os.Exit(runOnly(*only, *repo, *tier, *verbose))
	case *prop != "":
		os.Exit(runProp(*prop, *repo, *tier, seed, *verbose))
	}
	flag.Usage()
	os.Exit(2)
}

func rulesFor(prop, tier string) []*Rule {
	var out []*Rule
	for _, r := range allRules {
		if r.ThoroughOnly && tier != "thorough" {
			continue
		}
		for _, p := range r.Props {
			if p == prop {
				out = append(out, r)
				break
			}
		}
	}
	sort.Slice(out, func(i, j int) bool { return out[i].ID < out[j].ID })
	return out
}

func execRule(p *Prog, rule *Rule, tier string) (rr *RuleRun) {
	rr = newRuleRun(rule, tier)
	defer func() {
		if e := recover(); e != nil {
			rr.Unknown("internal", "?", fmt.Sprintf("rule panicked: %v\n%s", e, debug.Stack()))
		}
	}()
	rule.Run(p, rr)
	if len(rr.Obls) < rule.Floor {
		rr.Unknown("floor", "?", fmt.Sprintf("rule generated %d obligations, fewer than its floor %d: anchors moved or vanished; a rule that matches nothing must not pass vacuously", len(rr.Obls), rule.Floor))
	}
	return rr
}

func runOnly(id, repo, tier string, verbose bool) int {
	p, err := loadProg(LoadConfig{RepoDir: repo})
	if err != nil {
		fmt.Fprintln(os.Stderr, "walcheck:", err)
		return 2
	}
	bad := 0
	for _, rid := range strings.Split(id, ",") {
		rule := ruleByID(rid)
		if rule == nil {
			fmt.Fprintln(os.Stderr, "no such rule", rid)
			return 2
		}
		rr := execRule(p, rule, tier)
		sortObls(rr.Obls)
		for _, o := range rr.Obls {
			if o.Status != Discharged || verbose {
				fmt.Printf("%-10s %-10s %s  [%s]\n    %s\n", o.Status, o.Rule, o.Key, o.Pos, o.Detail)
			}
			if o.Status != Discharged {
				bad++
			}
		}
		for _, n := range rr.Notes {
			fmt.Println("note:", n)
		}
		fmt.Printf("%s: %d obligations, %d not discharged so far\n", rid, len(rr.Obls), bad)
	}
	if bad > 0 {
		return 1
	}
	return 0
}

func runList(repo string) int {
	p, err := loadProg(LoadConfig{RepoDir: repo})
	if err != nil {
		fmt.Fprintln(os.Stderr, "walcheck:", err)
		return 2
	}
	rules := append([]*Rule(nil), allRules...)
	sort.Slice(rules, func(i, j int) bool { return rules[i].ID < rules[j].ID })
	for _, rule := range rules {
		rr := execRule(p, rule, "quick")
		d, v, u := 0, 0, 0
		for _, o := range rr.Obls {
			switch o.Status {
			case Discharged:
				d++
			case Violated:
				v++
			default:
				u++
			}
		}
		fmt.Printf("%-8s %-22s obl=%-3d ok=%-3d viol=%-2d undec=%-2d floor=%-2d %s\n", rule.ID, strings.Join(rule.Props, ","), len(rr.Obls), d, v, u, rule.Floor, rule.Title)
	}
	return 0
}

type violationFile struct {
	Property   string     `json:"property"`
	Rule       string     `json:"rule"`
	Key        string     `json:"key"`
	Obligation Obligation `json:"obligation"`
	Repo       string     `json:"repo"`
	How        string     `json:"how_to_replay"`
}

func runReplay(path, repo string) int {
	b, err := os.ReadFile(path)
	if err != nil {
		fmt.Fprintln(os.Stderr, "walcheck:", err)
		return 2
	}
	var vf violationFile
	if err := json.Unmarshal(b, &vf); err != nil {
		fmt.Fprintln(os.Stderr, "walcheck:", err)
		return 2
	}
	rule := ruleByID(vf.Rule)
	if rule == nil {
		fmt.Fprintln(os.Stderr, "walcheck: violation file names unknown rule", vf.Rule)
		return 2
	}
	p, err := loadProg(LoadConfig{RepoDir: repo})
	if err != nil {
		fmt.Fprintln(os.Stderr, "walcheck:", err)
		return 2
	}
	rr := execRule(p, rule, "quick")
	for _, o := range rr.Obls {
		if o.Key == vf.Key && o.Status != Discharged {
			fmt.Printf("REPRODUCED %s %s [%s]\n    %s\n", o.Status, o.Key, o.Pos, o.Detail)
			fmt.Printf("VIOLATION property=%s replay=%s\n", vf.Property, path)
			return 1
		}
	}
	fmt.Printf("not reproduced on %s: obligation %s is discharged or gone\n", repo, vf.Key)
	return 0
}

func runProp(prop, repo, tier string, seed int, verbose bool) int {
	start := time.Now()
	info, ok := propTable[prop]
	if !ok {
		fmt.Fprintln(os.Stderr, "walcheck: unknown property", prop)
		return 2
	}
	vdir := verifDir()
	known, err := loadKnown(filepath.Join(vdir, "KNOWN_FINDINGS.txt"))
	if err != nil {
		fmt.Fprintln(os.Stderr, "walcheck:", err)
		return 2
	}
	rules := rulesFor(prop, tier)
	if len(rules) == 0 {
		fmt.Fprintln(os.Stderr, "walcheck: no rules implemented for", prop)
		return 2
	}
	p, err := loadProg(LoadConfig{RepoDir: repo})
	if err != nil {
		fmt.Fprintln(os.Stderr, "walcheck:", err)
		return 2
	}

	var all []Obligation
	var sums []ruleSummary
	for _, rule := range rules {
		rr := execRule(p, rule, tier)
		rs := ruleSummary{Rule: rule.ID, Title: rule.Title, Floor: rule.Floor, Stats: rr.Stats, Notes: rr.Notes}
		for _, o := range rr.Obls {
			rs.Obligations++
			switch o.Status {
			case Discharged:
				rs.Discharged++
			case Violated:
				rs.Violated++
			default:
				rs.Undecided++
			}
		}
		sums = append(sums, rs)
		all = append(all, rr.Obls...)
	}
	var extra map[string]any
	if tier == "thorough" {
		var more []Obligation
		extra, more = runThorough(prop, repo, rules, p)
		all = append(all, more...)
	}
	sortObls(all)

	// classify against known findings
	nViol := 0
	distinct := map[string]bool{}
	discharged := 0
	var violRecs []map[string]any
	violDir := filepath.Join(vdir, "evidence", "violations")
	for _, o := range all {
		if o.NonTrivial {
			distinct[o.Key] = true
		}
		if o.Status == Discharged {
			discharged++
			if verbose {
				fmt.Printf("ok        %s [%s] %s\n", o.Key, o.Pos, o.Detail)
			}
			continue
		}
		matched := false
		for _, k := range known.Findings {
			if k.Prop == prop && k.Key == o.Key {
				fmt.Printf("KNOWN-FINDING: property=%s %s (%s at %s)\n", prop, k.Text, o.Key, o.Pos)
				matched = true
				break
			}
		}
		if matched {
			continue
		}
		nViol++
		vf := violationFile{Property: prop, Rule: o.Rule, Key: o.Key, Obligation: o, Repo: repo,
			How: "bin/walcheck -replay <this file> [-repo <tree>]"}
		path := filepath.Join(violDir, fmt.Sprintf("%s-%d.json", prop, nViol))
		if err := writeJSON(path, vf); err != nil {
			fmt.Fprintln(os.Stderr, "walcheck:", err)
			return 2
		}
		fmt.Printf("%s rule=%s %s\n    at %s\n    %s\n", strings.ToUpper(o.Status), o.Rule, o.Key, o.Pos, strings.ReplaceAll(o.Detail, "\n", "\n    "))
		fmt.Printf("VIOLATION property=%s replay=%s\n", prop, path)
		violRecs = append(violRecs, map[string]any{"key": o.Key, "pos": o.Pos, "status": o.Status, "detail": o.Detail})
	}

	// samples: a seed-rotated dozen of obligation records
	var samples []any
	if n := len(all); n > 0 {
		step := n / 12
		if step < 1 {
			step = 1
		}
		for i := seed % step; i < n && len(samples) < 12; i += step {
			o := all[i]
			samples = append(samples, map[string]any{"rule": o.Rule, "key": o.Key, "pos": o.Pos, "status": o.Status, "witness": o.Detail})
		}
	}
	funcs := len(p.Funcs)
	cov := map[string]any{
		"explanation":         info.Explanation(rules),
		"obligations":         len(all),
		"discharged":          discharged,
		"evaluations":         len(all),
		"distinct_nontrivial": len(distinct),
		"rule":                "one obligation per (rule, construct) instance found in the type-checked SSA of /repo; construct keys are rule:function:event#ordinal; non-trivial = needed a witness statement or an all-paths search (not satisfied by mere absence); obligations reported several times through different call contexts are counted once",
		"samples":             samples,
		"rules":               sums,
		"functions_analysed":  funcs,
		"packages_analysed":   len(prodRel),
		"configuration":       map[string]string{"GOOS": orDefault(p.GOOS, "linux"), "GOARCH": orDefault(p.GOARCH, "amd64"), "tags": "verif"},
		"checker_cmd":         fmt.Sprintf("bin/walcheck -prop %s -tier %s", prop, tier),
		"trusted_base":        trustedBase,
		"exhaustive":          false,
		"decided":             info.Decided,
		"not_decided":         info.NotDecided,
	}
	if len(violRecs) > 0 {
		cov["violations"] = violRecs
	}
	for k, v := range extra {
		cov[k] = v
	}
	ev := evidence{PropertyID: prop, Tier: tier, Seed: seed, Level: "other", Coverage: cov,
		Assumptions: trustedBase, WallS: time.Since(start).Seconds(), Violations: nViol}
	if err := writeJSON(filepath.Join(vdir, "evidence", prop+".json"), ev); err != nil {
		fmt.Fprintln(os.Stderr, "walcheck:", err)
		return 2
	}
	fmt.Printf("%s %s: %d rules, %d obligations, %d discharged, %d violations (%.1fs)\n", prop, tier, len(rules), len(all), discharged, nViol, time.Since(start).Seconds())
	if nViol > 0 {
		return 1
	}
	return 0
}

func orDefault(s, d string) string {
	if s == "" {
		return d
	}
	return s
}

var trustedBase = []string{
	"the Go type checker and go/ssa's translation (golang.org/x/tools v0.29.0)",
	"VTA call-graph soundness for the calls it resolves, plus the closure-binding and atomic.Value cell refinements described in DESIGN.md section 2",
	"sequential semantics of each goroutine between synchronisation events",
	"contracts of os, bbolt, sync/atomic, crc32, fnv1a, fileutil.Preallocate (what fsync/rename/commit do is assumed, not analysed)",
	"64-bit int; index values below 2^64-1 (no wrap-around modelled)",
	"README.md 'Storage Format Overview' as the format oracle; spec functions written from the property statements",
	"the rules decide necessary conditions: a pass is not a proof of the behavioural property",
}
