package main

import (
	"fmt"
	"os"
	"path/filepath"
	"sort"
	"strings"
)

// runManifest regenerates MANIFEST.json from the rule registry, so that the
// claims can never drift from what is implemented.
func runManifest() int {
	vdir := verifDir()
	env := "GOFLAGS=-mod=mod GOPROXY=off GOSUMDB=off GOTOOLCHAIN=local GOWORK=off"
	var checks []map[string]any
	var na []map[string]string
	ids := sortedKeys(propTable)
	engines := map[string][]string{}
	for _, id := range ids {
		info := propTable[id]
		rules := rulesFor(id, "thorough")
		if len(rules) == 0 {
			na = append(na, map[string]string{"property_id": id, "reason": "no structural rule implemented for it (yet); nothing is claimed rather than a proxy"})
			continue
		}
		var rids []string
		for _, r := range rules {
			rids = append(rids, r.ID)
			engines[engineOf(r.ID)] = appendUniq(engines[engineOf(r.ID)], id)
		}
		checks = append(checks, map[string]any{
			"property_id":         id,
			"quick_cmd":           fmt.Sprintf("bin/walcheck -prop %s -tier quick", id),
			"thorough_cmd":        fmt.Sprintf("bin/walcheck -prop %s -tier thorough", id),
			"evidence_file":       fmt.Sprintf("evidence/%s.json", id),
			"replay_cmd_template": "bin/walcheck -replay {path}",
			"engine":              "walcheck",
			"technique":           "static analysis: repository-specific rules over type-checked go/ssa (" + techniqueOf(rules) + ")",
			"level_claimed": map[string]string{
				"category":   "other",
				"text":       "Static analysis, all paths of the current source, no execution. Decides these necessary conditions of the property: " + info.Decided + " Rules: " + strings.Join(rids, ", ") + ". A pass means every such obligation is discharged on every path of /repo's current tree; it is not a proof of the behavioural property as a whole.",
				"design_ref": "DESIGN.md section 6 (" + id + ") and section 4 (rule catalogue)",
			},
			"level_note": "NOT decided (out of reach of this family, stated plainly): " + info.NotDecided + " Trusted base: Go type checker + go/ssa (x/tools v0.29.0), VTA call graph with two stated refinements, contracts of os/bbolt/sync.atomic/crc32, README as format oracle.",
		})
	}
	var engs []map[string]any
	for _, e := range sortedKeys(engines) {
		sort.Strings(engines[e])
		engs = append(engs, map[string]any{"name": e, "path": "checker/", "serves_properties": engines[e], "kind_free_text": engineDoc[e]})
	}
	m := map[string]any{
		"version":   1,
		"setup_cmd": "cd checker && env " + env + " go build -o ../bin/walcheck .",
		"hooks": map[string]any{
			"guard":            "verif",
			"enable":           "-tags=verif is passed to the loader so any tagged file would be analysed; static analysis needs no source hooks, so there are none",
			"baseline_off_cmd": "cd /repo && env " + env + " go test -vet=off -count=1 ./...",
			"source_commits":   []string{},
			"add_only":         true,
		},
		"engines":        engs,
		"checks":         checks,
		"not_applicable": na,
		"notes":          "All checks are one binary (bin/walcheck, built offline by setup_cmd from checker/). Each run re-loads and re-type-checks /repo's working tree; nothing is cached. Exit 0 = all obligations discharged (known findings printed as KNOWN-FINDING), 1 = VIOLATION lines with replay files under evidence/violations/, 2 = tool failure (tree does not type-check). See DESIGN.md.",
	}
	if na == nil {
		m["not_applicable"] = []map[string]string{}
	}
	if err := writeJSON(filepath.Join(vdir, "MANIFEST.json"), m); err != nil {
		fmt.Fprintln(os.Stderr, err)
		return 2
	}
	fmt.Printf("MANIFEST.json: %d checks, %d not_applicable\n", len(checks), len(na))
	return 0
}

func appendUniq(s []string, v string) []string {
	for _, x := range s {
		if x == v {
			return s
		}
	}
	return append(s, v)
}

func engineOf(rule string) string {
	switch {
	case strings.HasPrefix(rule, "ORD"):
		return "E-ORD"
	case strings.HasPrefix(rule, "ACC"):
		return "E-ACC"
	case strings.HasPrefix(rule, "VF"):
		return "E-VF"
	case strings.HasPrefix(rule, "TAB"):
		return "E-TAB"
	case strings.HasPrefix(rule, "FD"):
		return "E-FD"
	}
	return "walcheck"
}

var engineDoc = map[string]string{
	"E-ORD": "interprocedural, path-partitioned event-order / typestate / lockset analysis over go/ssa (must/may token sets)",
	"E-ACC": "access-discipline tables: who touches which field / calls which primitive, in which context, against frozen allow-lists",
	"E-VF":  "value-flow: def-use slicing, provenance and guard-edge recognition over go/ssa",
	"E-TAB": "table extraction and agreement: byte layouts, constants, call sequences vs a README-derived spec",
	"E-FD":  "finite-domain abstract evaluation: weak orderings, interval x residue arithmetic, loop shapes (complete enumeration, no solver)",
}

func techniqueOf(rules []*Rule) string {
	seen := map[string]bool{}
	var out []string
	for _, r := range rules {
		e := engineOf(r.ID)
		if !seen[e] {
			seen[e] = true
			out = append(out, map[string]string{
				"E-ORD": "event-order/typestate dataflow", "E-ACC": "access-discipline allow-lists", "E-VF": "value-flow/guard analysis",
				"E-TAB": "layout/constant table agreement", "E-FD": "finite-domain abstract evaluation"}[e])
		}
	}
	return strings.Join(out, ", ")
}
