package main

// E-ORD: interprocedural, path-partitioned forward dataflow over go/ssa.
//
// A root function is analysed with callees "inlined" by recursive, memoised
// functional summaries: analyse(callee, entry fact) -> exit facts.  A fact is a
// set of partitions keyed by the abstract values (K) of the live tracked SSA
// values and cells; per partition there is a Must and a May token set and a
// typestate map.  Fallible primitive calls fork eagerly into an ":ok" and a
// ":fail" partition, so `if err != nil` is decided per partition.

import (
	"fmt"
	"go/constant"
	"go/token"
	"go/types"
	"sort"
	"strings"

	"golang.org/x/tools/go/ssa"
)

type avKind uint8

const (
	avUnknown avKind = iota
	avNil
	avNonNil
	avTrue
	avFalse
	avInt
	avFunc
	avCell
	avTuple
	avStr
	avStruct
)

// AV is an abstract value.
type AV struct {
	K     avKind
	N     int64
	Ev    string // origin event of an error value ("" if none)
	Fn    *ssa.Function
	Binds []AV
	Cell  ssa.Value
	Path  string // for avCell: sub-object path below the allocation (".f2", "[1]", ...)
	Tup   []AV
	S     string     // avStr
	Flds  map[int]AV // avStruct: abstract values of the fields that are known
	Tag   string     // free-form provenance tag set by rules; tags starting with "~" are inherited by values selected/loaded from this one
}

// cellKey identifies a tracked memory cell: an allocation plus a path below it.
type cellKey struct {
	base ssa.Value
	path string
}

func (a AV) key() string {
	var sb strings.Builder
	a.writeKey(&sb)
	return sb.String()
}

func (a AV) writeKey(sb *strings.Builder) {
	switch a.K {
	case avUnknown:
		sb.WriteString("?")
	case avNil:
		sb.WriteString("nil")
	case avNonNil:
		sb.WriteString("!nil")
	case avTrue:
		sb.WriteString("T")
	case avFalse:
		sb.WriteString("F")
	case avInt:
		fmt.Fprintf(sb, "i%d", a.N)
	case avFunc:
		fmt.Fprintf(sb, "fn(%s", a.Fn.String())
		for _, b := range a.Binds {
			sb.WriteString(",")
			b.writeKey(sb)
		}
		sb.WriteString(")")
	case avCell:
		fmt.Fprintf(sb, "cell(%s@%s%s)", a.Cell.Name(), a.Cell.Parent().String(), a.Path)
	case avStr:
		fmt.Fprintf(sb, "s%q", a.S)
	case avStruct:
		sb.WriteString("{")
		ks := make([]int, 0, len(a.Flds))
		for k := range a.Flds {
			ks = append(ks, k)
		}
		sort.Ints(ks)
		for _, k := range ks {
			fmt.Fprintf(sb, "%d:", k)
			a.Flds[k].writeKey(sb)
			sb.WriteString(",")
		}
		sb.WriteString("}")
	case avTuple:
		sb.WriteString("(")
		for i, t := range a.Tup {
			if i > 0 {
				sb.WriteString(",")
			}
			t.writeKey(sb)
		}
		sb.WriteString(")")
	}
	if a.Ev != "" {
		sb.WriteString("<" + a.Ev + ">")
	}
	if a.Tag != "" {
		sb.WriteString("{" + a.Tag + "}")
	}
}

func (a AV) interesting() bool { return a.K != avUnknown || a.Ev != "" || a.Tag != "" }

type tokset map[string]bool

func (t tokset) clone() tokset {
	n := make(tokset, len(t))
	for k := range t {
		n[k] = true
	}
	return n
}

func (t tokset) key() string {
	ks := make([]string, 0, len(t))
	for k := range t {
		ks = append(ks, k)
	}
	sort.Strings(ks)
	return strings.Join(ks, ",")
}

func (t tokset) has(ks ...string) bool {
	for _, k := range ks {
		if !t[k] {
			return false
		}
	}
	return true
}

// Fact is one partition.
type Fact struct {
	Vals   map[ssa.Value]AV
	Cells  map[cellKey]AV
	Must   tokset
	May    tokset
	TS     map[string]string
	Defers []deferRec
	// Trace is one witness path of events leading here (not part of the key).
	Trace []string
}

// deferRec is a registered deferred call with the callee and arguments as they
// were evaluated at the defer statement.
type deferRec struct {
	Ins  *ssa.Defer
	Fn   AV
	Args []AV
}

func newFact() *Fact {
	return &Fact{Vals: map[ssa.Value]AV{}, Cells: map[cellKey]AV{}, Must: tokset{}, May: tokset{}, TS: map[string]string{}}
}

func (f *Fact) clone() *Fact {
	n := &Fact{Vals: make(map[ssa.Value]AV, len(f.Vals)), Cells: make(map[cellKey]AV, len(f.Cells)),
		Must: f.Must.clone(), May: f.May.clone(), TS: make(map[string]string, len(f.TS))}
	for k, v := range f.Vals {
		n.Vals[k] = v
	}
	for k, v := range f.Cells {
		n.Cells[k] = v
	}
	for k, v := range f.TS {
		n.TS[k] = v
	}
	n.Defers = append([]deferRec(nil), f.Defers...)
	n.Trace = append([]string(nil), f.Trace...)
	return n
}

// Add puts a token into Must and May.
func (f *Fact) Add(toks ...string) {
	for _, t := range toks {
		f.Must[t] = true
		f.May[t] = true
	}
}

// Kill removes a token from Must (it may still have happened: May keeps it).
func (f *Fact) Kill(toks ...string) {
	for _, t := range toks {
		delete(f.Must, t)
	}
}

// Drop removes a token from both sets (used for "currently held" style tokens).
func (f *Fact) Drop(toks ...string) {
	for _, t := range toks {
		delete(f.Must, t)
		delete(f.May, t)
	}
}

func (f *Fact) note(s string) {
	if len(f.Trace) < 64 {
		f.Trace = append(f.Trace, s)
	}
}

func valName(v ssa.Value) string {
	if v.Parent() != nil {
		return v.Parent().String() + "/" + v.Name()
	}
	return v.Name()
}

// kkey is the partition key: everything except Must/May/Trace.
func (f *Fact) kkey() string {
	var parts []string
	for v, a := range f.Vals {
		parts = append(parts, "v:"+valName(v)+"="+a.key())
	}
	for c, a := range f.Cells {
		parts = append(parts, "c:"+valName(c.base)+c.path+"="+a.key())
	}
	for k, v := range f.TS {
		parts = append(parts, "ts:"+k+"="+v)
	}
	sort.Strings(parts)
	var sb strings.Builder
	sb.WriteString(strings.Join(parts, ";"))
	sb.WriteString("|d:")
	for _, d := range f.Defers {
		fmt.Fprintf(&sb, "%p:%s,", d.Ins, d.Fn.key())
	}
	return sb.String()
}

func (f *Fact) fullKey() string {
	return f.kkey() + "|M:" + f.Must.key() + "|m:" + f.May.key()
}

// join merges g into f (same kkey). Reports whether f changed.
func (f *Fact) join(g *Fact) bool {
	changed := false
	for k := range f.Must {
		if !g.Must[k] {
			delete(f.Must, k)
			changed = true
		}
	}
	for k := range g.May {
		if !f.May[k] {
			f.May[k] = true
			changed = true
		}
	}
	return changed
}

// Frame is one activation in the inlined call tree.
type Frame struct {
	Fn     *ssa.Function
	Params []AV
	Binds  []AV
	Parent *Frame
	Site   ssa.Instruction
	Depth  int
}

func (fr *Frame) Stack() string {
	var parts []string
	for x := fr; x != nil; x = x.Parent {
		parts = append(parts, funcDisplay(x.Fn))
	}
	for i, j := 0, len(parts)-1; i < j; i, j = i+1, j-1 {
		parts[i], parts[j] = parts[j], parts[i]
	}
	return strings.Join(parts, " -> ")
}

// Root returns the outermost frame.
func (fr *Frame) Root() *Frame {
	x := fr
	for x.Parent != nil {
		x = x.Parent
	}
	return x
}

// InFunc reports whether fn is on the stack of this frame.
func (fr *Frame) InFunc(fn *ssa.Function) bool {
	for x := fr; x != nil; x = x.Parent {
		if x.Fn == fn {
			return true
		}
	}
	return false
}

// RetClass classifies a return by its error operand.
type RetClass int

const (
	RetSuccess RetClass = iota
	RetFailure
	RetEither
	RetNoError // function has no error result
)

func (c RetClass) String() string {
	return [...]string{"success", "failure", "either", "plain"}[c]
}

// CallInfo tells the engine how to treat one call site.
type CallInfo struct {
	// Event names this call; "" = anonymous. For primitive calls with an error
	// result the engine forks into Event+":ok" / Event+":fail".
	Event string
	// Primitive forces the call to be treated as an opaque event even if a
	// production callee with a body is known.
	Primitive bool
	// Inline forces resolution through the call graph even for interface invokes.
	Inline bool
	// Infallible: never fork / never produce a fail partition.
	Infallible bool
	// Skip: ignore the call entirely (no event, unknown result).
	Skip bool
}

// OrdSpec is what a rule tells the engine.
type OrdSpec struct {
	Name string
	// Call classifies a call / defer / go site.
	Call func(cx *Ctx, call ssa.CallInstruction) CallInfo
	// OnEvent is invoked for every event occurrence: phase is "call", "ok", "fail",
	// or "" for non-call events. It may mutate f and report obligations.
	OnEvent func(cx *Ctx, ev, phase string, ins ssa.Instruction, f *Fact)
	// Instr lets the rule see every non-call instruction (stores, loads, sends, ...).
	Instr func(cx *Ctx, ins ssa.Instruction, f *Fact)
	// Load lets the rule give an abstract value to a load / call result.
	Value func(cx *Ctx, v ssa.Value, f *Fact) (AV, bool)
	// OnBranch is invoked on each taken edge of an If (decided or not).
	OnBranch func(cx *Ctx, ifi *ssa.If, truth bool, f *Fact)
	// OnReturn is invoked at every return of the *root* frame.
	OnReturn func(cx *Ctx, ret *ssa.Return, class RetClass, f *Fact)
	// OnAnyReturn is invoked at every return of every frame.
	OnAnyReturn func(cx *Ctx, ret *ssa.Return, class RetClass, f *Fact)
	// MaxDepth bounds inlining (0 = default 12).
	MaxDepth int
}

// Ctx is the evaluation context handed to rule callbacks.
type Ctx struct {
	E  *OrdEngine
	Fr *Frame
	P  *Prog
	F  *Fact // the fact current when the callback is made (may be nil for pure classification)
}

func (cx *Ctx) Eval(v ssa.Value, f *Fact) AV { return cx.E.eval(v, cx.Fr, f) }

// Key builds a position-free construct key for an instruction in the current frame.
func (cx *Ctx) Key(ins ssa.Instruction, ev string) string {
	return cx.E.insKey(ins, ev)
}

// OrdEngine runs one spec.
type OrdEngine struct {
	P        *Prog
	Spec     *OrdSpec
	memo     map[string][]exitRec
	inprog   map[string]bool
	live     map[*ssa.Function]map[*ssa.BasicBlock]map[ssa.Value]bool
	ordinals map[*ssa.Function]map[ssa.Instruction]string
	Steps    int
	MaxSteps int
	Aborted  string
	Inlined  map[*ssa.Function]bool
	Events   int
}

type exitRec struct {
	F   *Fact
	Ret AV
	Ins *ssa.Return
}

func newOrdEngine(p *Prog, spec *OrdSpec) *OrdEngine {
	return &OrdEngine{P: p, Spec: spec, memo: map[string][]exitRec{}, inprog: map[string]bool{},
		live: map[*ssa.Function]map[*ssa.BasicBlock]map[ssa.Value]bool{}, ordinals: map[*ssa.Function]map[ssa.Instruction]string{},
		MaxSteps: 4_000_000, Inlined: map[*ssa.Function]bool{}}
}

// RunRoot analyses fn as a root with unknown parameters and an initial fact.
func (e *OrdEngine) RunRoot(fn *ssa.Function, init *Fact) []exitRec {
	if init == nil {
		init = newFact()
	}
	// summaries are per root: obligations raised inside callees are keyed by root
	e.memo = map[string][]exitRec{}
	fr := &Frame{Fn: fn, Params: make([]AV, len(fn.Params)), Binds: make([]AV, len(fn.FreeVars))}
	return e.analyse(fr, init)
}

// RunRootWith analyses fn as a root with the given parameter / binding values.
func (e *OrdEngine) RunRootWith(fn *ssa.Function, params, binds []AV, init *Fact) []exitRec {
	if init == nil {
		init = newFact()
	}
	fr := &Frame{Fn: fn, Params: params, Binds: binds}
	if fr.Params == nil {
		fr.Params = make([]AV, len(fn.Params))
	}
	if fr.Binds == nil {
		fr.Binds = make([]AV, len(fn.FreeVars))
	}
	return e.analyse(fr, init)
}

func (e *OrdEngine) insKey(ins ssa.Instruction, ev string) string {
	fn := ins.Parent()
	m := e.ordinals[fn]
	if m == nil {
		m = map[ssa.Instruction]string{}
		e.ordinals[fn] = m
	}
	k := ev
	if s, ok := m[ins]; ok && strings.HasPrefix(s, k+"#") {
		return funcDisplay(fn) + ":" + s
	}
	// ordinal = number of instructions in fn (block order) up to and including ins
	// that describe themselves identically
	n := 0
	self := describeIns(ins)
	found := false
	for _, b := range fn.Blocks {
		for _, i2 := range b.Instrs {
			if describeIns(i2) == self {
				n++
			}
			if i2 == ins {
				found = true
				break
			}
		}
		if found {
			break
		}
	}
	s := fmt.Sprintf("%s#%d", k, n)
	m[ins] = s
	return funcDisplay(fn) + ":" + s
}

// describeIns gives a position-free description used for ordinals.
func describeIns(ins ssa.Instruction) string {
	switch x := ins.(type) {
	case ssa.CallInstruction:
		cc := x.Common()
		kind := "call"
		switch ins.(type) {
		case *ssa.Defer:
			kind = "defer"
		case *ssa.Go:
			kind = "go"
		}
		if cc.IsInvoke() {
			return kind + " " + cc.Method.FullName()
		}
		if f := cc.StaticCallee(); f != nil {
			return kind + " " + f.String()
		}
		if b, ok := cc.Value.(*ssa.Builtin); ok {
			return kind + " builtin " + b.Name()
		}
		return kind + " dynamic " + cc.Value.Type().String()
	case *ssa.Store:
		if fv := fieldOfAddr(x.Addr); fv != nil {
			return "store " + fv.Name()
		}
		return "store"
	case *ssa.Return:
		return "return"
	case *ssa.Send:
		return "send"
	case *ssa.MapUpdate:
		return "mapupdate"
	case *ssa.UnOp:
		if x.Op == token.ARROW {
			return "recv"
		}
		if x.Op == token.MUL {
			if fv := fieldOfAddr(x.X); fv != nil {
				return "load " + fv.Name()
			}
		}
		return "unop"
	}
	return fmt.Sprintf("%T", ins)
}

// ---------------------------------------------------------------- liveness

func (e *OrdEngine) liveIn(fn *ssa.Function) map[*ssa.BasicBlock]map[ssa.Value]bool {
	if l, ok := e.live[fn]; ok {
		return l
	}
	l := map[*ssa.BasicBlock]map[ssa.Value]bool{}
	for _, b := range fn.Blocks {
		l[b] = map[ssa.Value]bool{}
	}
	var mark func(v ssa.Value, b *ssa.BasicBlock, def *ssa.BasicBlock)
	mark = func(v ssa.Value, b *ssa.BasicBlock, def *ssa.BasicBlock) {
		if l[b][v] {
			return
		}
		l[b][v] = true
		if b == def {
			return
		}
		for _, p := range b.Preds {
			if p == def {
				// live-out of def; we still mark live-in of def only if defined by phi there
				continue
			}
			mark(v, p, def)
		}
	}
	for _, b := range fn.Blocks {
		for _, ins := range b.Instrs {
			ops := ins.Operands(nil)
			phi, isPhi := ins.(*ssa.Phi)
			for oi, op := range ops {
				if op == nil || *op == nil {
					continue
				}
				v := *op
				vi, ok := v.(ssa.Instruction)
				if !ok {
					continue // params, consts, globals: not tracked in Vals
				}
				def := vi.Block()
				if isPhi {
					// use is at the end of predecessor oi
					pred := phi.Block().Preds[oi]
					if pred != def {
						mark(v, pred, def)
					}
					continue
				}
				if b != def {
					mark(v, b, def)
				}
			}
		}
	}
	for _, b := range fn.Blocks {
		for _, ins := range b.Instrs {
			phi, ok := ins.(*ssa.Phi)
			if !ok {
				break
			}
			l[b][phi] = true
		}
	}
	e.live[fn] = l
	return l
}

// ---------------------------------------------------------------- evaluation

func (e *OrdEngine) eval(v ssa.Value, fr *Frame, f *Fact) AV {
	switch x := v.(type) {
	case *ssa.Const:
		if x.IsNil() {
			return AV{K: avNil}
		}
		if x.Value != nil {
			switch x.Value.Kind() {
			case constant.Bool:
				if constant.BoolVal(x.Value) {
					return AV{K: avTrue}
				}
				return AV{K: avFalse}
			case constant.Int:
				if n, ok := constant.Int64Val(x.Value); ok {
					return AV{K: avInt, N: n}
				}
			case constant.String:
				return AV{K: avStr, S: constant.StringVal(x.Value)}
			}
		}
		return AV{}
	case *ssa.Parameter:
		for i, p := range fr.Fn.Params {
			if p == x {
				return fr.Params[i]
			}
		}
		return AV{}
	case *ssa.FreeVar:
		for i, p := range fr.Fn.FreeVars {
			if p == x {
				return fr.Binds[i]
			}
		}
		return AV{}
	case *ssa.Alloc:
		return AV{K: avCell, Cell: x}
	case *ssa.Function:
		return AV{K: avFunc, Fn: x}
	case *ssa.Global:
		return AV{K: avNonNil}
	}
	if a, ok := f.Vals[v]; ok {
		return a
	}
	return AV{}
}

func (e *OrdEngine) setVal(v ssa.Value, a AV, f *Fact) {
	if a.interesting() {
		f.Vals[v] = a
	} else {
		delete(f.Vals, v)
	}
}

func boolAV(b bool) AV {
	if b {
		return AV{K: avTrue}
	}
	return AV{K: avFalse}
}

// cmp evaluates x op y on abstract values; ok=false if unknown.
func cmpAV(op token.Token, x, y AV) (bool, bool) {
	nilness := func(a AV) int {
		switch a.K {
		case avNil:
			return 0
		case avNonNil, avFunc, avCell:
			return 1
		}
		return -1
	}
	switch op {
	case token.EQL, token.NEQ:
		var eq, known bool
		switch {
		case x.K == avInt && y.K == avInt:
			eq, known = x.N == y.N, true
		case (x.K == avTrue || x.K == avFalse) && (y.K == avTrue || y.K == avFalse):
			eq, known = x.K == y.K, true
		case x.K == avNil && nilness(y) >= 0:
			eq, known = nilness(y) == 0, true
		case y.K == avNil && nilness(x) >= 0:
			eq, known = nilness(x) == 0, true
		}
		if !known {
			return false, false
		}
		if op == token.NEQ {
			return !eq, true
		}
		return eq, true
	case token.LSS, token.LEQ, token.GTR, token.GEQ:
		if x.K == avInt && y.K == avInt {
			switch op {
			case token.LSS:
				return x.N < y.N, true
			case token.LEQ:
				return x.N <= y.N, true
			case token.GTR:
				return x.N > y.N, true
			case token.GEQ:
				return x.N >= y.N, true
			}
		}
	}
	return false, false
}

// refine narrows the abstract value of cond's operands on the taken edge.
func (e *OrdEngine) refine(cond ssa.Value, truth bool, fr *Frame, f *Fact) {
	nb := boolAV(truth)
	if old := e.eval(cond, fr, f); old.K == avUnknown {
		nb.Tag, nb.Ev = old.Tag, old.Ev // keep provenance
	}
	e.setVal(cond, nb, f)
	switch c := cond.(type) {
	case *ssa.UnOp:
		if c.Op == token.NOT {
			e.refine(c.X, !truth, fr, f)
		}
	case *ssa.BinOp:
		if c.Op != token.EQL && c.Op != token.NEQ {
			return
		}
		eq := (c.Op == token.EQL) == truth
		x, y := c.X, c.Y
		ax, ay := e.eval(x, fr, f), e.eval(y, fr, f)
		set := func(v ssa.Value, old AV, k avKind, n int64) {
			if _, isConst := v.(*ssa.Const); isConst {
				return
			}
			if old.K != avUnknown {
				return
			}
			na := old
			na.K, na.N = k, n
			e.assign(v, na, fr, f)
		}
		switch {
		case ay.K == avNil:
			if eq {
				set(x, ax, avNil, 0)
			} else {
				set(x, ax, avNonNil, 0)
			}
		case ax.K == avNil:
			if eq {
				set(y, ay, avNil, 0)
			} else {
				set(y, ay, avNonNil, 0)
			}
		case ay.K == avInt && eq:
			set(x, ax, avInt, ay.N)
		case ax.K == avInt && eq:
			set(y, ay, avInt, ax.N)
		case ay.K == avTrue || ay.K == avFalse:
			if eq {
				set(x, ax, ay.K, 0)
			} else if ay.K == avTrue {
				set(x, ax, avFalse, 0)
			} else {
				set(x, ax, avTrue, 0)
			}
		}
	}
}

// reloadNilness: x loads a struct field at the top of a block that is entered only through an If edge which
// compared a load of the same field (same base expression) with nil, and nothing between the two loads can
// have written the field (no call, no store to that field).  The nil-ness of x is then what the edge says.
func reloadNilness(x *ssa.UnOp) (avKind, bool) {
	fld := fieldOfAddr(x.X)
	b := x.Block()
	if fld == nil || b == nil || len(b.Preds) != 1 {
		return 0, false
	}
	pred := b.Preds[0]
	if len(pred.Instrs) == 0 {
		return 0, false
	}
	ifi, ok := pred.Instrs[len(pred.Instrs)-1].(*ssa.If)
	if !ok {
		return 0, false
	}
	bo, ok := ifi.Cond.(*ssa.BinOp)
	if !ok || (bo.Op != token.EQL && bo.Op != token.NEQ) {
		return 0, false
	}
	var u ssa.Value
	if c, ok := bo.Y.(*ssa.Const); ok && c.IsNil() {
		u = bo.X
	} else if c, ok := bo.X.(*ssa.Const); ok && c.IsNil() {
		u = bo.Y
	}
	ul, ok := u.(*ssa.UnOp)
	if !ok || ul.Op != token.MUL || ul.Block() != pred || fieldOfAddr(ul.X) != fld || !sameExpr(ul, x, 0) {
		return 0, false
	}
	clobbers := func(ins ssa.Instruction) bool {
		switch y := ins.(type) {
		case ssa.CallInstruction:
			return true
		case *ssa.Store:
			return fieldOfAddr(y.Addr) == fld
		}
		return false
	}
	after := false
	for _, ins := range pred.Instrs {
		if ins == ssa.Instruction(ul) {
			after = true
			continue
		}
		if after && clobbers(ins) {
			return 0, false
		}
	}
	for _, ins := range b.Instrs {
		if ins == ssa.Instruction(x) {
			break
		}
		if clobbers(ins) {
			return 0, false
		}
	}
	truth := b == pred.Succs[0] && pred.Succs[0] != pred.Succs[1]
	if !truth && b != pred.Succs[1] {
		return 0, false
	}
	if (bo.Op == token.EQL) == truth {
		return avNil, true
	}
	return avNonNil, true
}

// assign sets the value of v; if v is a load from a tracked cell whose content is
// the very same abstract value, the cell is narrowed too.
func (e *OrdEngine) assign(v ssa.Value, a AV, fr *Frame, f *Fact) {
	if _, ok := v.(ssa.Instruction); ok {
		e.setVal(v, a, f)
	}
	if u, ok := v.(*ssa.UnOp); ok && u.Op == token.MUL {
		pa := e.eval(u.X, fr, f)
		if pa.K == avCell {
			ck := cellKey{pa.Cell, pa.Path}
			if old, ok := f.Cells[ck]; ok && old.K == avUnknown && old.Ev == a.Ev && old.Ev != "" {
				f.Cells[ck] = a
			}
		}
	}
}

// storeCell writes a value into a cell; struct values are spread over the field cells.
func (e *OrdEngine) storeCell(ck cellKey, va AV, f *Fact) {
	// a store to a cell replaces whatever was known about its sub-cells
	for k := range f.Cells {
		if k.base == ck.base && k.path != ck.path && strings.HasPrefix(k.path, ck.path) {
			delete(f.Cells, k)
		}
	}
	if va.K == avStruct {
		delete(f.Cells, ck)
		for i, fv := range va.Flds {
			if fv.interesting() {
				f.Cells[cellKey{ck.base, fmt.Sprintf("%s.f%d", ck.path, i)}] = fv
			}
		}
		if va.Tag != "" {
			f.Cells[ck] = AV{Tag: va.Tag}
		}
		return
	}
	if va.interesting() {
		f.Cells[ck] = va
	} else if _, fresh := f.Cells[cellKey{ck.base, "#fresh"}]; fresh {
		f.Cells[ck] = AV{Ev: "#w"} // written with something unknown: no longer the zero value
	} else {
		delete(f.Cells, ck)
	}
}

// hasBoolFlag: t is bool or a struct with a bool field (one level of nesting).
func hasBoolFlag(t types.Type, depth int) bool {
	switch u := t.Underlying().(type) {
	case *types.Basic:
		return u.Kind() == types.Bool
	case *types.Struct:
		if depth > 1 {
			return false
		}
		for i := 0; i < u.NumFields(); i++ {
			if hasBoolFlag(u.Field(i).Type(), depth+1) {
				return true
			}
		}
	}
	return false
}

// zeroFlag: a bool read from memory that was created on this path and never written since is false.
func (e *OrdEngine) zeroFlag(ck cellKey, t types.Type, f *Fact) (AV, bool) {
	if bt, ok := t.Underlying().(*types.Basic); !ok || bt.Kind() != types.Bool {
		return AV{}, false
	}
	if _, fresh := f.Cells[cellKey{ck.base, "#fresh"}]; !fresh {
		return AV{}, false
	}
	// nothing stored at this path or at a path that contains it
	for k := range f.Cells {
		if k.base == ck.base && k.path != "#fresh" && (strings.HasPrefix(ck.path, k.path) || strings.HasPrefix(k.path, ck.path)) {
			return AV{}, false
		}
	}
	return AV{K: avFalse}, true
}

// loadCell reads a cell; a load of a whole struct collects what is known about its fields.
func (e *OrdEngine) loadCell(ck cellKey, f *Fact) (AV, bool) {
	whole, ok := f.Cells[ck]
	var st AV
	prefix := ck.path + ".f"
	for k, v := range f.Cells {
		if k.base != ck.base || !strings.HasPrefix(k.path, prefix) {
			continue
		}
		rest := k.path[len(prefix):]
		if strings.ContainsAny(rest, ".[") {
			continue // deeper levels are not reassembled
		}
		var idx int
		if _, err := fmt.Sscanf(rest, "%d", &idx); err != nil {
			continue
		}
		if st.Flds == nil {
			st = AV{K: avStruct, Flds: map[int]AV{}}
		}
		st.Flds[idx] = v
	}
	if st.K == avStruct {
		if ok {
			st.Tag = whole.Tag
		}
		return st, true
	}
	if !ok {
		// a part of a whole that carries an inheritable tag
		for pth := ck.path; pth != ""; {
			i := strings.LastIndexAny(pth, ".[")
			if i < 0 {
				break
			}
			pth = pth[:i]
			if up, ok := f.Cells[cellKey{ck.base, pth}]; ok {
				if strings.HasPrefix(up.Tag, "~") {
					return AV{Tag: up.Tag}, true
				}
				break
			}
		}
	}
	return whole, ok
}

// inheritTag gives the result of a selection/load the "~" tag of the value it was taken from.
func inheritTag(res AV, from AV) AV {
	if res.Tag == "" && strings.HasPrefix(from.Tag, "~") {
		res.Tag = from.Tag
	}
	return res
}

// ---------------------------------------------------------------- function analysis

type blockState struct {
	parts map[string]*Fact
}

func frameKey(fr *Frame) string {
	var sb strings.Builder
	sb.WriteString(fr.Fn.String())
	sb.WriteString("(")
	for _, a := range fr.Params {
		a.writeKey(&sb)
		sb.WriteString(",")
	}
	sb.WriteString(")[")
	for _, a := range fr.Binds {
		a.writeKey(&sb)
		sb.WriteString(",")
	}
	sb.WriteString("]")
	return sb.String()
}

func (e *OrdEngine) analyse(fr *Frame, entry *Fact) []exitRec {
	// the callee starts with no frame-local values and no defers
	in := entry.clone()
	in.Vals = map[ssa.Value]AV{}
	in.Defers = nil
	mkey := frameKey(fr) + "||" + in.fullKey()
	if r, ok := e.memo[mkey]; ok {
		return r
	}
	if e.inprog[mkey] || fr.Fn.Blocks == nil {
		return nil
	}
	e.inprog[mkey] = true
	defer delete(e.inprog, mkey)
	e.Inlined[fr.Fn] = true

	fn := fr.Fn
	live := e.liveIn(fn)
	states := make([]*blockState, len(fn.Blocks))
	for i := range states {
		states[i] = &blockState{parts: map[string]*Fact{}}
	}
	var exits []exitRec
	exitIdx := map[string]int{}
	addExit := func(f *Fact, ret AV, ins *ssa.Return) {
		g := f.clone()
		g.Vals = map[ssa.Value]AV{}
		g.Defers = nil
		// cells of this activation die with it unless a returned closure captured them
		keep := map[ssa.Value]bool{}
		var walk func(a AV)
		walk = func(a AV) {
			if a.K == avCell {
				if !keep[a.Cell] {
					keep[a.Cell] = true
					for ck, ca := range g.Cells {
						if ck.base == a.Cell {
							walk(ca)
						}
					}
				}
			}
			for _, b := range a.Binds {
				walk(b)
			}
			for _, t := range a.Tup {
				walk(t)
			}
			for _, t := range a.Flds {
				walk(t)
			}
		}
		walk(ret)
		for c := range g.Cells {
			if c.base.Parent() == fn && !keep[c.base] {
				delete(g.Cells, c)
			}
		}
		k := fmt.Sprintf("%p|%s|%s", ins, ret.key(), g.kkey())
		if i, ok := exitIdx[k]; ok {
			exits[i].F.join(g)
			return
		}
		exitIdx[k] = len(exits)
		exits = append(exits, exitRec{F: g, Ret: ret, Ins: ins})
	}

	type work struct {
		b   *ssa.BasicBlock
		key string
	}
	var queue []work
	queued := map[work]bool{}
	push := func(b *ssa.BasicBlock, f *Fact) {
		// prune dead values
		lv := live[b]
		for v := range f.Vals {
			if !lv[v] {
				delete(f.Vals, v)
			}
		}
		k := f.kkey()
		st := states[b.Index]
		if old, ok := st.parts[k]; ok {
			if !old.join(f) {
				return
			}
		} else {
			st.parts[k] = f
		}
		w := work{b, k}
		if !queued[w] {
			queued[w] = true
			queue = append(queue, w)
		}
	}
	push(fn.Blocks[0], in)

	for len(queue) > 0 {
		w := queue[0]
		queue = queue[1:]
		delete(queued, w)
		cur := states[w.b.Index].parts[w.key]
		if cur == nil {
			continue
		}
		if e.Aborted != "" {
			break
		}
		facts := []*Fact{cur.clone()}
		b := w.b
		for _, ins := range b.Instrs {
			e.Steps++
			if e.Steps > e.MaxSteps {
				e.Aborted = fmt.Sprintf("step budget exhausted in %s", fr.Stack())
				break
			}
			if len(facts) == 0 {
				break
			}
			switch x := ins.(type) {
			case *ssa.If:
				for _, f := range facts {
					a := e.eval(x.Cond, fr, f)
					cx := &Ctx{E: e, Fr: fr, P: e.P, F: f}
					switch a.K {
					case avTrue:
						g := f.clone()
						e.eofBranch(cx, x, true, g)
						if e.Spec.OnBranch != nil {
							e.Spec.OnBranch(cx, x, true, g)
						}
						e.flow(b, b.Succs[0], g, fr, push)
					case avFalse:
						g := f.clone()
						e.eofBranch(cx, x, false, g)
						if e.Spec.OnBranch != nil {
							e.Spec.OnBranch(cx, x, false, g)
						}
						e.flow(b, b.Succs[1], g, fr, push)
					default:
						ft := f.clone()
						e.refine(x.Cond, true, fr, ft)
						e.eofBranch(cx, x, true, ft)
						if e.Spec.OnBranch != nil {
							e.Spec.OnBranch(cx, x, true, ft)
						}
						e.flow(b, b.Succs[0], ft, fr, push)
						ff := f.clone()
						e.refine(x.Cond, false, fr, ff)
						e.eofBranch(cx, x, false, ff)
						if e.Spec.OnBranch != nil {
							e.Spec.OnBranch(cx, x, false, ff)
						}
						e.flow(b, b.Succs[1], ff, fr, push)
					}
				}
				facts = nil
			case *ssa.Jump:
				for _, f := range facts {
					e.flow(b, b.Succs[0], f, fr, push)
				}
				facts = nil
			case *ssa.Return:
				for _, f := range facts {
					e.doReturn(x, fr, f, addExit)
				}
				facts = nil
			case *ssa.Panic:
				facts = nil
			default:
				var next []*Fact
				for _, f := range facts {
					next = append(next, e.step(ins, fr, f)...)
				}
				facts = mergeFacts(next)
			}
		}
	}
	e.memo[mkey] = exits
	return exits
}

func mergeFacts(fs []*Fact) []*Fact {
	if len(fs) < 2 {
		return fs
	}
	idx := map[string]*Fact{}
	var out []*Fact
	for _, f := range fs {
		k := f.kkey()
		if o, ok := idx[k]; ok {
			o.join(f)
			continue
		}
		idx[k] = f
		out = append(out, f)
	}
	return out
}

// flow moves a fact along the edge from->to, evaluating phis.
func (e *OrdEngine) flow(from, to *ssa.BasicBlock, f *Fact, fr *Frame, push func(*ssa.BasicBlock, *Fact)) {
	pi := -1
	for i, p := range to.Preds {
		if p == from {
			pi = i
			break
		}
	}
	// phis are evaluated simultaneously
	type upd struct {
		v ssa.Value
		a AV
	}
	var upds []upd
	for _, ins := range to.Instrs {
		phi, ok := ins.(*ssa.Phi)
		if !ok {
			break
		}
		in := phi.Edges[pi]
		a := e.eval(in, fr, f)
		// explicit normalisation idiom: an error variable carrying a failed event is
		// overwritten by the constant nil ("treat as success")
		if c, isConst := in.(*ssa.Const); isConst && c.IsNil() && isErrorType(phi.Type()) {
			cx := &Ctx{E: e, Fr: fr, P: e.P, F: f}
			for j, other := range phi.Edges {
				if j == pi {
					continue
				}
				ev := e.errOrigin(cx, other)
				if ev != "" && f.Must[ev+":fail"] {
					f.note(fmt.Sprintf("normalise %s->nil@%s", ev, e.P.Position(phi.Pos())))
					e.emit(cx, ev, "normalised", phi, f)
					a = AV{K: avNil, Ev: ev}
				}
			}
		}
		if a.K == avInt && !e.boundedCounter(phi, fr, f) {
			a = AV{} // a loop counter with an unknown bound is not tracked (it would unroll without end)
		}
		upds = append(upds, upd{phi, a})
	}
	for _, u := range upds {
		e.setVal(u.v, u.a, f)
	}
	push(to, f)
}

// eofBranch recognises the branch form of the "EOF with a full transfer is success" idiom:
//
//	n, err := f.WriteAt(...); if err != nil && !(err == io.EOF && n == len(buf)) { return err }
//
// On the edge err == io.EOF (err being the failed error of event E) the candidate is noted; on a later edge
// n == len(...) (n being result #0 of the same call) the failure is normalised to success, exactly like the
// explicit `err = nil` form handled at the phi.
func (e *OrdEngine) eofBranch(cx *Ctx, ifi *ssa.If, truth bool, f *Fact) {
	isEOF := func(v ssa.Value) bool {
		u, ok := v.(*ssa.UnOp)
		if !ok || u.Op != token.MUL {
			return false
		}
		g, ok := u.X.(*ssa.Global)
		return ok && g.Name() == "EOF" && g.Pkg != nil && g.Pkg.Pkg.Path() == "io"
	}
	// fullTransfer: v (known to be `truth`) says n == len(x), n being result #0 of a call; returns that n
	var fullTransfer func(v ssa.Value, truth bool, depth int) []*ssa.Extract
	fullTransfer = func(v ssa.Value, truth bool, depth int) []*ssa.Extract {
		switch x := v.(type) {
		case *ssa.UnOp:
			if x.Op == token.NOT {
				return fullTransfer(x.X, !truth, depth)
			}
		case *ssa.BinOp:
			if (x.Op == token.EQL) != truth || (x.Op != token.EQL && x.Op != token.NEQ) {
				return nil
			}
			for _, pair := range [][2]ssa.Value{{x.X, x.Y}, {x.Y, x.X}} {
				ex, ok := pair[0].(*ssa.Extract)
				if !ok || ex.Index != 0 {
					continue
				}
				if lc, ok := pair[1].(*ssa.Call); ok {
					if b, ok := lc.Call.Value.(*ssa.Builtin); ok && b.Name() == "len" {
						return []*ssa.Extract{ex}
					}
				}
			}
		case *ssa.Phi:
			// `a && n == len(x)` materialised as a value: true only through the comparison edges
			if !truth || depth > 2 {
				return nil
			}
			var out []*ssa.Extract
			for _, ed := range x.Edges {
				if c, ok := ed.(*ssa.Const); ok && c.Value != nil && c.Value.Kind() == constant.Bool && !constant.BoolVal(c.Value) {
					continue
				}
				sub := fullTransfer(ed, true, depth+1)
				if sub == nil {
					return nil
				}
				out = append(out, sub...)
			}
			return out
		}
		return nil
	}
	if bo, ok := ifi.Cond.(*ssa.BinOp); ok && (bo.Op == token.EQL) == truth && (bo.Op == token.EQL || bo.Op == token.NEQ) {
		for _, pair := range [][2]ssa.Value{{bo.X, bo.Y}, {bo.Y, bo.X}} {
			if isEOF(pair[1]) {
				if ev := e.errOrigin(cx, pair[0]); ev != "" && f.Must[ev+":fail"] {
					f.TS["eof:"+ev] = "1"
				}
			}
		}
	}
	for _, ex := range fullTransfer(ifi.Cond, truth, 0) {
		if ev := e.errOrigin(cx, ex); ev != "" && f.TS["eof:"+ev] == "1" && f.Must[ev+":fail"] {
			f.note(fmt.Sprintf("normalise %s (EOF with full transfer)@%s", ev, e.P.Position(ifi.Pos())))
			e.emit(cx, ev, "normalised", ifi, f)
			delete(f.TS, "eof:"+ev)
		}
	}
}

// selfUpdate: does st store arithmetic on a load of the very address it stores to?
func selfUpdate(st *ssa.Store) bool {
	bo, ok := st.Val.(*ssa.BinOp)
	if !ok {
		return false
	}
	for _, op := range []ssa.Value{bo.X, bo.Y} {
		if u, ok := op.(*ssa.UnOp); ok && u.Op == token.MUL && u.X == st.Addr {
			return true
		}
	}
	return false
}

// boundedCounter: an integer phi is worth tracking only when it is compared (itself or +const) with a
// value that is a known small integer in the current fact (a loop over a short literal list).
func (e *OrdEngine) boundedCounter(phi *ssa.Phi, fr *Frame, f *Fact) bool {
	// members of the phi/arithmetic cycle through phi
	members := map[ssa.Value]bool{}
	isLoopPhi := false
	var walk func(v ssa.Value)
	walk = func(v ssa.Value) {
		var ops []ssa.Value
		switch x := v.(type) {
		case *ssa.Phi:
			ops = x.Edges
		case *ssa.BinOp:
			ops = []ssa.Value{x.X, x.Y}
		case *ssa.Convert:
			ops = []ssa.Value{x.X}
		default:
			return
		}
		for _, o := range ops {
			if o == phi {
				isLoopPhi = true
			}
			if !members[o] {
				members[o] = true
				walk(o)
			}
		}
	}
	walk(phi)
	if !isLoopPhi {
		return true
	}
	check := func(v ssa.Value) bool {
		refs := v.Referrers()
		if refs == nil {
			return false
		}
		for _, ref := range *refs {
			bo, ok := ref.(*ssa.BinOp)
			if !ok {
				continue
			}
			switch bo.Op {
			case token.LSS, token.LEQ, token.GTR, token.GEQ, token.EQL, token.NEQ:
				other := bo.Y
				if bo.Y == v {
					other = bo.X
				}
				if a := e.eval(other, fr, f); a.K == avInt && a.N >= 0 && a.N <= 4 {
					return true
				}
			}
		}
		return false
	}
	if check(phi) {
		return true
	}
	for m := range members {
		switch m.(type) {
		case *ssa.Phi, *ssa.BinOp:
			if check(m) {
				return true
			}
		}
	}
	return false
}

// errOrigin names the event whose error result v is (through Extract), if any.
func (e *OrdEngine) errOrigin(cx *Ctx, v ssa.Value) string {
	if ex, ok := v.(*ssa.Extract); ok {
		v = ex.Tuple
	}
	c, ok := v.(*ssa.Call)
	if !ok || e.Spec.Call == nil {
		return ""
	}
	return e.Spec.Call(cx, c).Event
}

func (e *OrdEngine) emit(cx *Ctx, ev, phase string, ins ssa.Instruction, f *Fact) {
	e.Events++
	switch phase {
	case "call":
		f.Add(ev)
	case "ok":
		f.Add(ev + ":ok")
	case "fail":
		f.Add(ev + ":fail")
	case "normalised":
		f.Kill(ev + ":fail")
		f.Add(ev + ":ok")
		phase = "ok"
	case "":
		f.Add(ev)
	}
	if phase == "call" || phase == "" {
		f.note(ev)
	} else {
		f.note(ev + ":" + phase)
	}
	if e.Spec.OnEvent != nil {
		e.Spec.OnEvent(cx, ev, phase, ins, f)
	}
}

func (e *OrdEngine) doReturn(ret *ssa.Return, fr *Frame, f *Fact, addExit func(*Fact, AV, *ssa.Return)) {
	cx := &Ctx{E: e, Fr: fr, P: e.P, F: f}
	var rav AV
	switch len(ret.Results) {
	case 0:
	case 1:
		rav = e.eval(ret.Results[0], fr, f)
	default:
		rav = AV{K: avTuple}
		for _, r := range ret.Results {
			rav.Tup = append(rav.Tup, e.eval(r, fr, f))
		}
	}
	class := RetNoError
	ei := resultErrIndex(fr.Fn.Signature)
	if ei >= 0 && ei < len(ret.Results) {
		ea := e.eval(ret.Results[ei], fr, f)
		switch ea.K {
		case avNil:
			class = RetSuccess
		case avNonNil:
			class = RetFailure
		default:
			class = RetEither
		}
	}
	if e.Spec.OnAnyReturn != nil {
		e.Spec.OnAnyReturn(cx, ret, class, f)
	}
	if fr.Parent == nil && e.Spec.OnReturn != nil {
		e.Spec.OnReturn(cx, ret, class, f)
	}
	addExit(f, rav, ret)
}

// step executes one non-control instruction; may fork.
func (e *OrdEngine) step(ins ssa.Instruction, fr *Frame, f *Fact) []*Fact {
	cx := &Ctx{E: e, Fr: fr, P: e.P, F: f}
	switch x := ins.(type) {
	case *ssa.Phi:
		return []*Fact{f} // handled in flow
	case *ssa.Alloc:
		// a variable / object created on this path: its memory is zero until something is stored
		for k := range f.Cells {
			if k.base == ssa.Value(x) {
				delete(f.Cells, k) // re-executed in a loop: a new object
			}
		}
		if hasBoolFlag(x.Type().(*types.Pointer).Elem(), 0) {
			// only objects that carry a flag are worth remembering as "still zero" (keeps partitions few)
			f.Cells[cellKey{x, "#fresh"}] = AV{K: avTrue}
		}
		if e.Spec.Instr != nil {
			e.Spec.Instr(cx, ins, f)
		}
		return []*Fact{f}
	case *ssa.Store:
		pa := e.eval(x.Addr, fr, f)
		if pa.K == avCell {
			va := e.eval(x.Val, fr, f)
			if va.K == avInt && selfUpdate(x) {
				va = AV{Tag: va.Tag} // x++ / x += k on a memory cell: a counter, not tracked (widening)
			}
			e.storeCell(cellKey{pa.Cell, pa.Path}, va, f)
		}
		if e.Spec.Instr != nil {
			e.Spec.Instr(cx, ins, f)
		}
		return []*Fact{f}
	case *ssa.UnOp:
		switch x.Op {
		case token.MUL:
			pa := e.eval(x.X, fr, f)
			if pa.K == avCell {
				if a, ok := e.loadCell(cellKey{pa.Cell, pa.Path}, f); ok {
					e.setVal(x, a, f)
				} else if z, ok := e.zeroFlag(cellKey{pa.Cell, pa.Path}, x.Type(), f); ok {
					e.setVal(x, z, f)
				}
			} else if pa.Tag != "" && strings.HasPrefix(pa.Tag, "~") {
				e.setVal(x, AV{Tag: pa.Tag}, f)
			} else if g, ok := x.X.(*ssa.Global); ok && isErrorType(g.Type().(*types.Pointer).Elem()) {
				e.setVal(x, AV{K: avNonNil}, f) // sentinel error variable
			} else if k, ok := reloadNilness(x); ok {
				e.setVal(x, AV{K: k}, f) // `if x.f != nil { return x.f }`: the second load of the field just tested
			}
		case token.NOT:
			a := e.eval(x.X, fr, f)
			if a.K == avTrue {
				e.setVal(x, AV{K: avFalse}, f)
			} else if a.K == avFalse {
				e.setVal(x, AV{K: avTrue}, f)
			}
		}
		if e.Spec.Value != nil {
			if a, ok := e.Spec.Value(cx, x, f); ok {
				e.setVal(x, a, f)
			}
		}
		if e.Spec.Instr != nil {
			e.Spec.Instr(cx, ins, f)
		}
		return []*Fact{f}
	case *ssa.BinOp:
		ax, ay := e.eval(x.X, fr, f), e.eval(x.Y, fr, f)
		if r, ok := cmpAV(x.Op, ax, ay); ok {
			e.setVal(x, boolAV(r), f)
		} else if ax.K == avInt && ay.K == avInt {
			switch x.Op {
			case token.ADD:
				e.setVal(x, AV{K: avInt, N: ax.N + ay.N}, f)
			case token.SUB:
				e.setVal(x, AV{K: avInt, N: ax.N - ay.N}, f)
			}
		} else if ax.K == avStr && ay.K == avStr && x.Op == token.ADD {
			e.setVal(x, AV{K: avStr, S: ax.S + ay.S}, f)
		}
		if e.Spec.Value != nil {
			if a, ok := e.Spec.Value(cx, x, f); ok {
				e.setVal(x, a, f)
			}
		}
		return []*Fact{f}
	case *ssa.FieldAddr:
		base := e.eval(x.X, fr, f)
		if base.K == avCell {
			e.setVal(x, AV{K: avCell, Cell: base.Cell, Path: fmt.Sprintf("%s.f%d", base.Path, x.Field)}, f)
		} else if strings.HasPrefix(base.Tag, "~") {
			e.setVal(x, AV{Tag: base.Tag}, f)
		}
		if e.Spec.Instr != nil {
			e.Spec.Instr(cx, ins, f)
		}
		return []*Fact{f}
	case *ssa.IndexAddr:
		base := e.eval(x.X, fr, f)
		idx := e.eval(x.Index, fr, f)
		if base.K == avCell && idx.K == avInt {
			e.setVal(x, AV{K: avCell, Cell: base.Cell, Path: fmt.Sprintf("%s[%d]", base.Path, idx.N)}, f)
		} else if strings.HasPrefix(base.Tag, "~") {
			e.setVal(x, AV{Tag: base.Tag}, f)
		}
		if e.Spec.Instr != nil {
			e.Spec.Instr(cx, ins, f)
		}
		return []*Fact{f}
	case *ssa.Slice:
		base := e.eval(x.X, fr, f)
		if base.K == avCell && x.Low == nil && x.High == nil && x.Max == nil {
			e.setVal(x, base, f) // t[:] of an array variable aliases it
		} else if strings.HasPrefix(base.Tag, "~") {
			e.setVal(x, AV{Tag: base.Tag}, f)
		}
		if e.Spec.Instr != nil {
			e.Spec.Instr(cx, ins, f)
		}
		return []*Fact{f}
	case *ssa.Field:
		base := e.eval(x.X, fr, f)
		if base.K == avStruct {
			if fv, ok := base.Flds[x.Field]; ok {
				e.setVal(x, inheritTag(fv, base), f)
				return []*Fact{f}
			}
		}
		if strings.HasPrefix(base.Tag, "~") {
			e.setVal(x, AV{Tag: base.Tag}, f)
		}
		return []*Fact{f}
	case *ssa.Convert:
		e.setVal(x, e.eval(x.X, fr, f), f)
		return []*Fact{f}
	case *ssa.Index:
		base := e.eval(x.X, fr, f)
		if strings.HasPrefix(base.Tag, "~") {
			e.setVal(x, AV{Tag: base.Tag}, f)
		}
		return []*Fact{f}
	case *ssa.Range:
		base := e.eval(x.X, fr, f)
		if strings.HasPrefix(base.Tag, "~") {
			e.setVal(x, AV{Tag: base.Tag}, f)
		}
		return []*Fact{f}
	case *ssa.Next:
		base := e.eval(x.Iter, fr, f)
		if strings.HasPrefix(base.Tag, "~") {
			e.setVal(x, AV{Tag: base.Tag}, f)
		}
		return []*Fact{f}
	case *ssa.Extract:
		t := e.eval(x.Tuple, fr, f)
		if t.K == avTuple && x.Index < len(t.Tup) {
			e.setVal(x, inheritTag(t.Tup[x.Index], t), f)
		} else if strings.HasPrefix(t.Tag, "~") {
			e.setVal(x, AV{Tag: t.Tag}, f)
		}
		return []*Fact{f}
	case *ssa.MakeClosure:
		a := AV{K: avFunc, Fn: x.Fn.(*ssa.Function)}
		for _, b := range x.Bindings {
			a.Binds = append(a.Binds, e.eval(b, fr, f))
		}
		e.setVal(x, a, f)
		if e.Spec.Instr != nil {
			e.Spec.Instr(cx, ins, f)
		}
		return []*Fact{f}
	case *ssa.MakeInterface:
		a := e.eval(x.X, fr, f)
		if a.K == avFunc {
			e.setVal(x, a, f)
		} else {
			e.setVal(x, AV{K: avNonNil, Ev: a.Ev}, f)
		}
		return []*Fact{f}
	case *ssa.ChangeInterface:
		e.setVal(x, e.eval(x.X, fr, f), f)
		return []*Fact{f}
	case *ssa.ChangeType:
		e.setVal(x, e.eval(x.X, fr, f), f)
		return []*Fact{f}
	case *ssa.TypeAssert:
		a := e.eval(x.X, fr, f)
		if x.CommaOk {
			if a.K == avFunc {
				e.setVal(x, AV{K: avTuple, Tup: []AV{a, {K: avTrue}}}, f)
			}
		} else if a.K == avFunc {
			e.setVal(x, a, f)
		}
		return []*Fact{f}
	case *ssa.Defer:
		dr := deferRec{Ins: x, Fn: e.eval(x.Call.Value, fr, f)}
		if mc, ok := x.Call.Value.(*ssa.MakeClosure); ok {
			dr.Fn = AV{K: avFunc, Fn: mc.Fn.(*ssa.Function)}
			for _, b := range mc.Bindings {
				dr.Fn.Binds = append(dr.Fn.Binds, e.eval(b, fr, f))
			}
		}
		for _, a := range x.Call.Args {
			dr.Args = append(dr.Args, e.eval(a, fr, f))
		}
		f.Defers = append(f.Defers, dr)
		if e.Spec.Instr != nil {
			e.Spec.Instr(cx, ins, f)
		}
		return []*Fact{f}
	case *ssa.RunDefers:
		facts := []*Fact{f}
		for {
			var next []*Fact
			progressed := false
			for _, g := range facts {
				if len(g.Defers) == 0 {
					next = append(next, g)
					continue
				}
				progressed = true
				d := g.Defers[len(g.Defers)-1]
				g.Defers = g.Defers[:len(g.Defers)-1]
				next = append(next, e.call(d.Ins, fr, g, &d)...)
			}
			facts = mergeFacts(next)
			if !progressed {
				break
			}
		}
		return facts
	case *ssa.Go:
		if e.Spec.Instr != nil {
			e.Spec.Instr(cx, ins, f)
		}
		return []*Fact{f}
	case *ssa.Call:
		return e.call(x, fr, f, nil)
	default:
		if e.Spec.Instr != nil {
			e.Spec.Instr(cx, ins, f)
		}
		if v, ok := ins.(ssa.Value); ok && e.Spec.Value != nil {
			if a, ok := e.Spec.Value(cx, v, f); ok {
				e.setVal(v, a, f)
			}
		}
		return []*Fact{f}
	}
}

// knownNonNilError lists functions whose error result is never nil.
func knownNonNilResult(fn *types.Func) bool {
	if fn == nil || fn.Pkg() == nil {
		return false
	}
	switch fn.Pkg().Path() + "." + fn.Name() {
	case "fmt.Errorf", "errors.New":
		return true
	}
	return false
}

func (e *OrdEngine) depthLimit() int {
	if e.Spec.MaxDepth > 0 {
		return e.Spec.MaxDepth
	}
	return 14
}

// call handles a Call or a deferred call (at rundefers).
func (e *OrdEngine) call(ci ssa.CallInstruction, fr *Frame, f *Fact, dr *deferRec) []*Fact {
	deferred := dr != nil
	argAV := func(i int, a ssa.Value) AV {
		if dr != nil && i < len(dr.Args) {
			return dr.Args[i]
		}
		return e.eval(a, fr, f)
	}
	fnAV := func() AV {
		if dr != nil {
			return dr.Fn
		}
		return e.eval(ci.Common().Value, fr, f)
	}
	cx := &Ctx{E: e, Fr: fr, P: e.P, F: f}
	cc := ci.Common()
	var resVal ssa.Value
	if c, ok := ci.(*ssa.Call); ok {
		resVal = c
	}
	info := CallInfo{}
	if e.Spec.Call != nil {
		info = e.Spec.Call(cx, ci)
	}
	if info.Skip {
		return []*Fact{f}
	}
	sig := cc.Signature()
	ei := resultErrIndex(sig)
	nres := sig.Results().Len()

	// builtins
	if b, ok := cc.Value.(*ssa.Builtin); ok {
		if b.Name() == "len" && len(cc.Args) == 1 && resVal != nil {
			if a := e.eval(cc.Args[0], fr, f); a.K == avCell && a.Path == "" {
				if pt, ok := a.Cell.Type().Underlying().(*types.Pointer); ok {
					if at, ok := pt.Elem().Underlying().(*types.Array); ok {
						e.setVal(resVal, AV{K: avInt, N: at.Len()}, f)
					}
				}
			} else if a.K == avStr {
				e.setVal(resVal, AV{K: avInt, N: int64(len(a.S))}, f)
			}
		}
		if info.Event != "" {
			e.emit(cx, info.Event, "", ci, f)
		} else if e.Spec.Instr != nil {
			e.Spec.Instr(cx, ci, f)
		}
		return []*Fact{f}
	}

	// resolve callees to inline
	var callees []*Frame
	if !info.Primitive {
		mk := func(fn *ssa.Function, binds []AV) {
			if fn == nil || fn.Blocks == nil || !e.P.IsProdFunc(fn) {
				return
			}
			if fr.InFunc(fn) || fr.Depth+1 > e.depthLimit() {
				return
			}
			nf := &Frame{Fn: fn, Parent: fr, Site: ci, Depth: fr.Depth + 1, Binds: binds}
			if len(nf.Binds) != len(fn.FreeVars) {
				nf.Binds = make([]AV, len(fn.FreeVars))
			}
			args := cc.Args
			nf.Params = make([]AV, len(fn.Params))
			off := 0
			if cc.IsInvoke() {
				if len(nf.Params) > 0 {
					nf.Params[0] = fnAV()
				}
				off = 1
			}
			for i, a := range args {
				if i+off < len(nf.Params) {
					nf.Params[i+off] = argAV(i, a)
				}
			}
			callees = append(callees, nf)
		}
		switch {
		case cc.IsInvoke():
			if info.Inline {
				for _, fn := range e.cgCallees(ci) {
					mk(fn, nil)
				}
			}
		case cc.StaticCallee() != nil:
			fn := cc.StaticCallee()
			var binds []AV
			if dr != nil && dr.Fn.K == avFunc {
				binds = dr.Fn.Binds
			} else if mc, ok := cc.Value.(*ssa.MakeClosure); ok {
				for _, b := range mc.Bindings {
					binds = append(binds, e.eval(b, fr, f))
				}
			}
			mk(fn, binds)
		default:
			a := fnAV()
			if a.K == avFunc {
				mk(a.Fn, a.Binds)
			} else if a.K == avNil {
				// calling a nil func: path dies (panic)
				return nil
			} else {
				cands := e.cgCallees(ci)
				all := len(cands) > 0
				for _, fn := range cands {
					if fn.Blocks == nil || !e.P.IsProdFunc(fn) || len(fn.FreeVars) > 0 {
						all = false
					}
				}
				if all {
					for _, fn := range cands {
						mk(fn, nil)
					}
				}
			}
		}
	}

	if len(callees) == 0 {
		// primitive event
		if info.Event != "" {
			e.emit(cx, info.Event, "call", ci, f)
		}
		mkRes := func(errAV AV) AV {
			if nres == 0 {
				return AV{}
			}
			if nres == 1 {
				if ei == 0 {
					return errAV
				}
				return AV{}
			}
			t := AV{K: avTuple, Tup: make([]AV, nres)}
			if ei >= 0 {
				t.Tup[ei] = errAV
			}
			return t
		}
		setRes := func(g *Fact, a AV) {
			if resVal != nil {
				e.setVal(resVal, a, g)
				if e.Spec.Value != nil {
					if a2, ok := e.Spec.Value(cx, resVal, g); ok {
						e.setVal(resVal, a2, g)
					}
				}
			}
		}
		if ei < 0 || info.Infallible {
			setRes(f, mkRes(AV{K: avNil}))
			if ei >= 0 && info.Event != "" {
				e.emit(cx, info.Event, "ok", ci, f)
			}
			return []*Fact{f}
		}
		if knownNonNilResult(calleeOf(ci)) {
			setRes(f, mkRes(AV{K: avNonNil}))
			return []*Fact{f}
		}
		if deferred {
			// result of a deferred call is discarded: no fork needed
			return []*Fact{f}
		}
		ok, bad := f, f.clone()
		setRes(ok, mkRes(AV{K: avNil, Ev: info.Event}))
		setRes(bad, mkRes(AV{K: avNonNil, Ev: info.Event}))
		if info.Event != "" {
			e.emit(cx, info.Event, "ok", ci, ok)
			e.emit(cx, info.Event, "fail", ci, bad)
		}
		return []*Fact{ok, bad}
	}

	// inlined callees
	var out []*Fact
	if info.Event != "" {
		e.emit(cx, info.Event, "call", ci, f)
	}
	for _, nf := range callees {
		exits := e.analyse(nf, f)
		for _, ex := range exits {
			g := f.clone()
			g.Cells = make(map[cellKey]AV, len(ex.F.Cells))
			for k, v := range ex.F.Cells {
				g.Cells[k] = v
			}
			g.Must = ex.F.Must.clone()
			g.May = ex.F.May.clone()
			g.TS = make(map[string]string, len(ex.F.TS))
			for k, v := range ex.F.TS {
				g.TS[k] = v
			}
			g.Trace = append([]string(nil), ex.F.Trace...)
			ret := ex.Ret
			if info.Event != "" && ei >= 0 {
				var ea AV
				if nres == 1 {
					ea = ret
				} else if ret.K == avTuple && ei < len(ret.Tup) {
					ea = ret.Tup[ei]
				}
				switch ea.K {
				case avNil:
					e.emit(cx, info.Event, "ok", ci, g)
				case avNonNil:
					e.emit(cx, info.Event, "fail", ci, g)
				}
			}
			if resVal != nil && !deferred {
				e.setVal(resVal, ret, g)
				if e.Spec.Value != nil {
					cx2 := &Ctx{E: e, Fr: fr, P: e.P, F: g}
					if a2, ok := e.Spec.Value(cx2, resVal, g); ok {
						e.setVal(resVal, a2, g)
					}
				}
			}
			out = append(out, g)
		}
	}
	return mergeFacts(out)
}

func (e *OrdEngine) cgCallees(ci ssa.CallInstruction) []*ssa.Function {
	if e.P.CG == nil {
		return nil
	}
	n := e.P.CG.Nodes[ci.Parent()]
	if n == nil {
		return nil
	}
	seen := map[*ssa.Function]bool{}
	var out []*ssa.Function
	for _, ed := range n.Out {
		if ed.Site == ci && !seen[ed.Callee.Func] {
			seen[ed.Callee.Func] = true
			out = append(out, ed.Callee.Func)
		}
	}
	sort.Slice(out, func(i, j int) bool { return out[i].String() < out[j].String() })
	return out
}
