package main

import (
	"fmt"
	"strings"
)

type propInfo struct {
	Title      string
	Decided    string
	NotDecided string
}

func (pi propInfo) Explanation(rules []*Rule) string {
	var ids []string
	for _, r := range rules {
		ids = append(ids, r.ID+" ("+r.Title+")")
	}
	return fmt.Sprintf("Static analysis of the type-checked SSA of /repo (no raft-wal code is executed). DECIDED, on every path of the analysed functions, as necessary conditions of '%s': %s Rules applied in this run: %s. NOT DECIDED: %s",
		pi.Title, pi.Decided, strings.Join(ids, "; "), pi.NotDecided)
}

var propTable = map[string]propInfo{
	"C01": {"Acknowledged appends survive any crash",
		"the durability discipline: write then fsync before a nil return of the segment writer's mutators, commit index published only after fsync, nothing fallible after the durability point, StoreLogs success implies tail.Append success, metadata commit before file creation, missing tail recreated, state published and files deleted only after the metadata commit, recovery sweep spares live segments, final batch CRC gates acceptance (recovery succeeds without a CRC decision only when no commit frame exists or entry frames follow the last one) and rejection rolls back everything the scan set, no storage error dropped, recovery scan steps by whole aligned frames, directory fsync retried until it succeeds.",
		"that these mechanisms suffice: behaviour under every crash point x torn-write subset x history, recovery offset/CRC-range arithmetic, the file system's and bbolt's own crash behaviour."},
	"C02": {"Recovery never fabricates, corrupts or half-applies log content",
		"final-batch CRC decides (the only CRC-less acceptances: no commit frame, or entries follow the last commit) and a mismatch rewinds or re-initialises; every byte appended to the pending buffer is folded into the commit CRC; the rewind is complete (offsets and seal marker); entries become countable only after fsync; zero header = stop, unknown type = stop; 8-byte alignment and forward progress of the scan; fresh persisted segment IDs; header validated whenever a commit was accepted.",
		"batch atomicity and content equality over all torn subsets and crash chains (stale bytes behind the tail, CRC range arithmetic, offset bookkeeping values): runtime byte-level facts."},
	"C03": {"Recovery always restores a fully usable, writable WAL",
		"a recovered tail that may already be sealed is never installed without asking Sealed() and completing the rotation; recovery rolls back the seal marker with the discarded batch; a missing tail file is recreated; the meta DB appears complete or not at all and is rebuilt from scratch (leftovers of an interrupted initialisation removed first); tail recovery (adopting an existing file) happens on Open's path only; Open ends with state stored, sweep done and the rotation goroutine started; the rotation hand-off cannot strand the next writer; metadata before file.",
		"that Open succeeds on every crash image (needs the images); durability of post-recovery effects beyond C01's discipline."},
	"C04": {"Truncations are atomic and durable across crashes",
		"the single commit point: one committed bolt write transaction per metadata commit; in-memory switch and file deletion strictly after it and only via finalizers; tail truncation force-seals under fsync before the replacement segment is named and persists the returned seal offset; fresh ID for the replacement; what leaves the list is exactly what the finalizer closes/deletes; the (min,max) classification for all orderings.",
		"the MinIndex/MaxIndex values the transactions compute for every log shape, and crash-image behaviour itself."},
	"C05": {"Sequential behaviour equals a simple contiguous-log model",
		"DeleteRange's classification for all weak orderings of min,max,first,last (middle range => error with no effect; empty/disjoint => no-op); polarity of every bound comparison on the lookup path; non-contiguous appends refused before anything is appended; every lookup bounded by the snapshot's current first index, not by construction-time copies.",
		"equality of GetLog/FirstIndex/LastIndex results with the model over operation sequences, geometry and reopen."},
	"C06": {"Concurrent reads are linearizable against the single writer",
		"race-freedom and publication discipline: atomic-only fields accessed only atomically; writer-side data only under writeMu; read paths touch only immutable, atomic or refcount-pinned data; every pin released exactly once; entries visible only once durable; state published after commit; old files closed/deleted only by finalizers on last release; the tail offset table indexed only at or below the committed index, and loaded only after that index (the writer stores the two in the opposite order).",
		"linearizability of returned values over interleavings; absence of data races in general (these rules cover the design's own invariants, they are not a race detector)."},
	"C07": {"Real filesystem layer honours the durability contract the WAL assumes",
		"every clause on every path: no nil from Append/ForceSeal before write then fsync; only the writer writes/syncs segment files; first fsync of a created file also fsyncs the directory and the new-flag is cleared only after that succeeded; Create is O_CREATE|O_EXCL with preallocation (extend=true) and returns the dir-syncing wrapper; Delete = unlink + directory fsync before reporting; meta DB: tmp, buckets, commit, close, rename, directory fsync, final name opened only when it exists or after that sequence; only fs and metadb touch os/bbolt; no storage error dropped.",
		"what the kernel does on fsync/rename/fallocate; 'zero-filled' beyond 'preallocation with extension requested and its error propagated'."},
	"C08": {"StableStore is a durable map, isolated from the log",
		"Set returns nil only after exactly one Put/Delete in one committed bolt write transaction; Get's result is a copy taken inside the transaction; stable operations use only the stable bucket and state operations only the meta bucket; Set/Get reach no log-side event and log paths reach no SetStable; SetUint64/GetUint64 agree on an 8-byte little-endian encoding (empty => 0, other lengths => error); every StableStore method starts with the closed check.",
		"map semantics over histories and crash points (bbolt's transactional behaviour is trusted)."},
	"C09": {"On-disk format matches the documented layout and stays readable",
		"byte-exact agreement writer <-> reader <-> README-derived spec table for the file header, frame header, index frame, names and constants; padding/alignment for all payload lengths; the IndexStart persisted is the seal's.",
		"byte-for-byte reproduction of whole files and golden-directory compatibility (needs files); the JSON encoding beyond field names."},
	"C10": {"I/O errors never cost acknowledged data",
		"a failed segment-writer mutator restores every field it touched before the durability point; no failure return after the durability point; in-memory state switches only after commit and post-commit step succeeded; failed batches never become visible; no storage error dropped; a failed rotation still releases the waiting writer; a failed file creation is never papered over by adopting an existing file.",
		"the full 'applied in full or not at all after reopen' over fault sequences: runtime state."},
	"C11": {"Damaged files yield errors, never panics, hangs or silent shortening",
		"no allocation sized by file bytes without a bound; no index/slice by file-derived values without a bound (incl. the varint byte count); every scan loop advances by >= 8 aligned bytes; sealed segments are header-checked against metadata on Open; a failed Open closes the metadata store and the segments it opened (the deferred cleanup reads Open's variables when it runs, not a snapshot taken when it was registered); unknown frame types are errors.",
		"absence of all panics on arbitrary bytes (only the bound classes above); behaviour of json/bbolt on their own corrupt input."},
	"C12": {"Entry codec round-trips every log and never aliases pooled buffers",
		"Encode and Decode handle the same six raft.Log fields in the same order with paired primitives; decoded slices are fresh copies; a pooled read buffer is closed at most once and never touched, re-filled or handed out after its Close; reserved codec IDs rejected and foreign codecs refused before anything is opened; a new segment records the configured codec's ID.",
		"round-trip equality on boundary values (varint limits, time zones/monotonic readings): value-level."},
	"C13": {"Disk space is reclaimed and segment identities are never reused",
		"segment IDs come from a persisted always-incremented counter that is durable before the file exists; every segment dropped from the list is handed to a finalizer that closes and deletes it, run on last release; Open deletes exactly listed-on-disk minus listed-in-metadata; delete is durable (unlink + dir fsync); files are deleted and handles closed only by finalizers or Open.",
		"directory contents after every crash chain; 'delayed but not prevented' timing under readers."},
	"C14": {"Close is safe, idempotent and final",
		"every LogStore/StableStore method starts with the closed check; Close swaps the flag once, then under the lock closes the trigger channel, empties the state, attaches closers, closes the meta store and wakes any writer waiting for a rotation; no call can dereference the emptied state (closed re-checked after the state is pinned / after the lock is held and rotation awaited); the rotation goroutine exits on the closed flag; nothing Close tears down is read unsynchronised; Close closes no segment handle inline (only through the finalizer of the emptied state).",
		"freedom from deadlock/panic over all interleavings in general; 'correct results' of racing calls."},
	"C15": {"Entry-size boundaries: whatever is accepted is readable",
		"the write path refuses (ErrTooBig, before buffering) exactly what the read paths reject, against the same constant; the large-frame second read is bounded; the file offset recorded for an entry combines a buffer position only with the write offset that was current when the position was taken (no flush in between).",
		"behaviour at each boundary size (64 KiB +- 16, segment size +- overhead): value-level."},
	"C16": {"Verifier raises no false alarms",
		"one hash function serves leader, follower-write and read-back; the running sum is committed only after the inner store accepted the batch; first-index check before reading; range mismatch, written-sum suppression and both comparisons have exactly the stated polarity; a truncation of the wrapped log restarts the running sum.",
		"absence of false alarms over replication histories (needs the histories)."},
	"C17": {"Verifier detects every divergence inside a verified range",
		"all five compared fields feed the chained hash and the only entry that may be left out of the chain is index 1 (no return of the hash routine bypasses the chain anywhere else); the read-back covers [Start,End) exactly; write-side then read-side comparison, mismatch => ErrChecksumMismatch; checkpoint metadata encode/decode agree.",
		"detection for every mutation/position (hash behaviour; histories)."},
	"C18": {"Verifier is transparent and never blocks appends",
		"pure delegation of FirstIndex/LastIndex/GetLog/DeleteRange/StoreLogs; only a leader checkpoint's empty Extensions is written, foreign extensions => error; non-blocking hand-off with the drop counted; checkpoints and drops are counted only after the wrapped store accepted the batch; every checkpoint of a batch is handed off; the callback is never on the append path; one callback per received report.",
		"'exactly one report or one drop per checkpoint' as a count over timings; skipped-range contents."},
	"C19": {"Migration copies the log and stable keys faithfully",
		"progress always closed; cancellation checked each iteration and returned; nothing appended is left unflushed or flushed twice; one fresh raft.Log per entry; [first,last] inclusive; the standard raft keys with the accessor kinds raft uses; the empty source handled before the loop.",
		"field-by-field equality of destination and source over contents and store pairings."},
	"C20": {"Metrics are declared and add up",
		"complete for the property's own static quantifier (every emitting call site): names are compile-time constants, declared in the same package's MetricDefinitions under the matching kind, unique across kinds; the one arithmetic hazard with a code shape (unsigned subtraction from the empty-log sentinel, incl. the tail writer's own LastIndex() of an empty tail) is guarded; the partial-segment terms of the truncation counters; verifier counters only after the wrapped store accepted the batch.",
		"equality of counters with true totals over operation sequences."},
}

// propRound7 extends the decided texts with the obligations added in round 7 (kept apart so that the
// texts above stay diffable against the earlier rounds).
var propRound7 = map[string]string{
	"C19": " No allocation in package migrate is sized by a caller-supplied integer without a dominating bound on both sides (every batch size).",
	"C14": " Close loads the state it tears down while holding the write lock.",
	"C08": " Stable operations write nothing into the WAL object (no mirror of stable values beside the MetaStore).",
	"C01": " A state change that was committed to the meta store but could not be completed in memory marks the WAL failed under the lock, and every later append / state transaction tests that mark first (durable and in-memory state never diverge silently). Once the segment writer's pending buffer was emptied inside a mutator nothing is appended to it again and its array is not given away (the rollback snapshot aliases it).",
	"C02": " A failed mutator of the segment writer restores every field it touched, the write offset included. The rollback snapshot of the pending buffer stays intact (no mid-batch re-use of the buffer, no hand-over to a pool).",
	"C03": " Truncation keep/drop decisions equal the model on every path of the segment loop (also for the [sealed, empty tail] shape a completed recovery leaves).",
	"C04": " The 'file does not exist' identity survives every layer up to Open's errors.Is test; a committed-but-incomplete state change stops the writer.",
	"C05": " The truncation helpers' keep/drop decisions are checked against the model in terms of DeleteRange's own min/max, whatever convention the helper's argument follows. The bytes a frame read hands out start at file position offset + frame header length on every path, and pieces of a payload read separately join up (symbolic file position of every buffer). The index a batch entry is stored under is the raft.Log's own Index, never a position-derived value.",
	"C09": " The reader's frame payload is the byte range [offset + frame header length, ...) of the file on every path. The pending buffer (which holds the file header of a fresh segment until the first commit) is never re-used or given away while a rollback snapshot aliases it.",
	"C16": " The running (checksum, start index) pair is threaded through every entry of a batch: what the per-entry step updates in a by-value copy is handed back to the loop.",
	"C06": " The functions reachable from GetLog / FirstIndex / LastIndex write only call-private or caller-owned memory (every store, map update, ReadAt / copy / PutUint destination is attributed through all call sites); everything else goes through sync/atomic.",
	"C10": " On every path on which MetaStore.CommitState succeeded, the write lock is not released before the state is published or the WAL is marked failed, and the mark is tested under the lock before tail.Append and before every state transaction; lookups in the tail are bounded by the commit index (entries of a failed batch are never served).",
	"C11": " A 64-bit unsigned file value converted to a signed integer needs a bound on both sides (a signed comparison with len() lets negative values through). bbolt's DB.Close is never called while a transaction begun on the same path is still open (it would wait for it forever, holding the file lock).",
	"C12": " Every entry of a batch is encoded into storage allocated for it alone (LogEntry.Data never shares a growable backing array). The segment writer's pending buffer is never handed to the shared read-buffer pool.",
	"C13": " Tail truncation drops, on every path of its loop, exactly the segments that start at or above the first deleted index. A committed-but-incomplete state change stops every later transaction (no commit from a stale in-memory state, which would persist an ID counter below IDs already used).",
	"C15": " Every entry of a batch is encoded into storage of its own; an entry that does not fit the pooled read buffer is returned from the right file position (both read paths, symbolic). A read path that refuses an empty payload needs a write path that refuses it too (lower end of the accepted length range).",
	"C17": " The leader's verification metadata is written into the entry the caller passed in (what raft replicates), never into a copy; every parameter of NewLogStore reaches its field on every path; the running state is threaded through every entry of a batch.",
	"C18": " Constructor wiring: NewLogStore stores each of its parameters on every path that returns the store (or the parameter is nil there).",
	"C20": " Every successful Set / SetUint64 / Get / GetUint64 / GetLog / StoreLog(s) call passes through exactly one increment of each of its per-call counters. head_truncations, tail_truncations and segment_rotations are incremented exactly at the commit point of the change they count: after CommitState succeeded, before anything else that can fail.",
}

func init() {
	for k, extra := range propRound7 {
		pi := propTable[k]
		pi.Decided += extra
		propTable[k] = pi
	}
}
