package main

import (
	"bufio"
	"encoding/json"
	"fmt"
	"os"
	"path/filepath"
	"sort"
	"strings"
)

// Status of an obligation.
const (
	Discharged = "discharged"
	Violated   = "violated"
	Undecided  = "undecided"
)

// Obligation is one instance of a rule on one construct of the analysed tree.
type Obligation struct {
	Rule   string `json:"rule"`
	Key    string `json:"key"` // rule:function:event#n — never a line number
	Pos    string `json:"pos"`
	Status string `json:"status"`
	Detail string `json:"detail,omitempty"`
	// NonTrivial: the obligation needed a witness or a path search (it is not
	// satisfied merely by the absence of the construct).
	NonTrivial bool `json:"nontrivial"`
}

// Rule is one entry of the catalogue.
type Rule struct {
	ID    string
	Title string
	Props []string
	Floor int // fewer obligations than this => undecided (vacuity guard)
	Run   func(p *Prog, r *RuleRun)
	// ThoroughOnly rules run only in the thorough tier.
	ThoroughOnly bool
}

// RuleRun collects the obligations of one rule execution.
type RuleRun struct {
	Rule  *Rule
	Tier  string
	Obls  []Obligation
	Notes []string
	seen  map[string]int
	Stats map[string]int
}

func newRuleRun(rule *Rule, tier string) *RuleRun {
	return &RuleRun{Rule: rule, Tier: tier, seen: map[string]int{}, Stats: map[string]int{}}
}

func (r *RuleRun) add(key, pos, status, detail string, nontrivial bool) {
	full := r.Rule.ID + ":" + key
	if i, ok := r.seen[full]; ok {
		// Same construct reported again (another context / evaluation): keep the worst.
		o := &r.Obls[i]
		if rank(status) > rank(o.Status) {
			o.Status, o.Detail, o.Pos = status, detail, pos
		}
		return
	}
	r.seen[full] = len(r.Obls)
	r.Obls = append(r.Obls, Obligation{Rule: r.Rule.ID, Key: full, Pos: pos, Status: status, Detail: detail, NonTrivial: nontrivial})
}

func rank(s string) int {
	switch s {
	case Violated:
		return 2
	case Undecided:
		return 1
	}
	return 0
}

func (r *RuleRun) OK(key, pos, detail string)      { r.add(key, pos, Discharged, detail, true) }
func (r *RuleRun) Trivial(key, pos, detail string) { r.add(key, pos, Discharged, detail, false) }
func (r *RuleRun) Fail(key, pos, detail string)    { r.add(key, pos, Violated, detail, true) }
func (r *RuleRun) Unknown(key, pos, detail string) { r.add(key, pos, Undecided, detail, true) }
func (r *RuleRun) Note(format string, a ...any)    { r.Notes = append(r.Notes, fmt.Sprintf(format, a...)) }
func (r *RuleRun) Check(ok bool, key, pos, good, bad string) {
	if ok {
		r.OK(key, pos, good)
	} else {
		r.Fail(key, pos, bad)
	}
}

// ---------------------------------------------------------------- known findings

type knownFinding struct {
	Prop string
	Key  string
	Text string
}

type knownFile struct {
	Findings []knownFinding
	Fixed    []string
}

// loadKnown parses KNOWN_FINDINGS.txt. It is read only; never written at run time.
func loadKnown(path string) (*knownFile, error) {
	kf := &knownFile{}
	f, err := os.Open(path)
	if err != nil {
		if os.IsNotExist(err) {
			return kf, nil
		}
		return nil, err
	}
	defer f.Close()
	sc := bufio.NewScanner(f)
	for sc.Scan() {
		line := strings.TrimSpace(sc.Text())
		if line == "" || strings.HasPrefix(line, "#") {
			continue
		}
		switch {
		case strings.HasPrefix(line, "fixed:"):
			kf.Fixed = append(kf.Fixed, strings.TrimSpace(strings.TrimPrefix(line, "fixed:")))
		case strings.HasPrefix(line, "finding:"):
			rest := strings.Fields(strings.TrimPrefix(line, "finding:"))
			k := knownFinding{}
			var text []string
			for _, w := range rest {
				switch {
				case strings.HasPrefix(w, "property=") && k.Prop == "":
					k.Prop = strings.TrimPrefix(w, "property=")
				case strings.HasPrefix(w, "key=") && k.Key == "":
					k.Key = strings.TrimPrefix(w, "key=")
				default:
					text = append(text, w)
				}
			}
			k.Text = strings.Join(text, " ")
			if k.Prop == "" || k.Key == "" {
				return nil, fmt.Errorf("malformed finding line: %q", line)
			}
			kf.Findings = append(kf.Findings, k)
		default:
			return nil, fmt.Errorf("unrecognised line in %s: %q", path, line)
		}
	}
	return kf, sc.Err()
}

// ---------------------------------------------------------------- evidence

type ruleSummary struct {
	Rule        string         `json:"rule"`
	Title       string         `json:"title"`
	Obligations int            `json:"obligations"`
	Discharged  int            `json:"discharged"`
	Violated    int            `json:"violated"`
	Undecided   int            `json:"undecided"`
	Floor       int            `json:"floor"`
	Stats       map[string]int `json:"stats,omitempty"`
	Notes       []string       `json:"notes,omitempty"`
}

type evidence struct {
	PropertyID  string         `json:"property_id"`
	Tier        string         `json:"tier"`
	Seed        int            `json:"seed"`
	Level       string         `json:"level"`
	Coverage    map[string]any `json:"coverage"`
	Assumptions []string       `json:"assumptions"`
	WallS       float64        `json:"wall_s"`
	Violations  int            `json:"violations"`
}

func writeJSON(path string, v any) error {
	if err := os.MkdirAll(filepath.Dir(path), 0o755); err != nil {
		return err
	}
	b, err := json.MarshalIndent(v, "", " ")
	if err != nil {
		return err
	}
	tmp := path + ".tmp"
	if err := os.WriteFile(tmp, append(b, '\n'), 0o644); err != nil {
		return err
	}
	return os.Rename(tmp, path)
}

func sortObls(o []Obligation) {
	sort.SliceStable(o, func(i, j int) bool {
		if rank(o[i].Status) != rank(o[j].Status) {
			return rank(o[i].Status) > rank(o[j].Status)
		}
		return o[i].Key < o[j].Key
	})
}
