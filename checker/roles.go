package main

// Anchors by role.  Exported API (interface methods, exported types and fields, constants that are
// part of the file format) is looked up by name: renaming it is an API/format break.  Unexported
// functions, types and fields may be renamed by any refactor, so when the name lookup fails the
// anchor is found by what it *is*: its signature and one or two facts about its body.  A role that
// matches no function or more than one resolves to nothing (the rule then reports the anchor as
// unresolved: undecided, never a silent pass).

import (
	"go/types"
	"sort"
	"strings"

	"golang.org/x/tools/go/ssa"
)

type funcRole func(p *Prog, fn *ssa.Function) bool

func typeEnds(t types.Type, suffix string) bool { return strings.HasSuffix(t.String(), suffix) }

// sigShape: number of explicit parameters / results and a suffix for each type ("" = any).
func sigShape(fn *ssa.Function, hasRecv bool, params []string, results []string) bool {
	sig := fn.Signature
	if (sig.Recv() != nil) != hasRecv || sig.Params().Len() != len(params) || sig.Results().Len() != len(results) {
		return false
	}
	for i, s := range params {
		if s != "" && !typeEnds(sig.Params().At(i).Type(), s) {
			return false
		}
	}
	for i, s := range results {
		if s != "" && !typeEnds(sig.Results().At(i).Type(), s) {
			return false
		}
	}
	return true
}

func bodyHas(fn *ssa.Function, pred func(ins ssa.Instruction) bool) bool {
	for _, b := range fn.Blocks {
		for _, ins := range b.Instrs {
			if pred(ins) {
				return true
			}
		}
	}
	return false
}

func readsField(fn *ssa.Function, name string) bool {
	return bodyHas(fn, func(ins ssa.Instruction) bool {
		switch x := ins.(type) {
		case *ssa.FieldAddr:
			f := fieldOfAddr(x)
			return f != nil && f.Name() == name
		case *ssa.Field:
			f := fieldOfAddr(x)
			return f != nil && f.Name() == name
		}
		return false
	})
}

// returnsValue: some return of fn yields (directly or through a phi) a value satisfying pred.
func returnsValue(fn *ssa.Function, pred func(v ssa.Value) bool) bool {
	var ok func(v ssa.Value, d int) bool
	ok = func(v ssa.Value, d int) bool {
		if pred(v) {
			return true
		}
		if phi, isPhi := v.(*ssa.Phi); isPhi && d < 3 {
			for _, e := range phi.Edges {
				if ok(e, d+1) {
					return true
				}
			}
		}
		return false
	}
	return bodyHas(fn, func(ins ssa.Instruction) bool {
		ret, isRet := ins.(*ssa.Return)
		if !isRet {
			return false
		}
		for _, res := range ret.Results {
			if ok(res, 0) {
				return true
			}
		}
		return false
	})
}

func callsEvent(fn *ssa.Function, pred func(n string) bool) bool {
	return bodyHas(fn, func(ins ssa.Instruction) bool {
		ci, ok := ins.(ssa.CallInstruction)
		return ok && pred(eventName(ci))
	})
}

func staticCallees(fn *ssa.Function) []*ssa.Function {
	var out []*ssa.Function
	for _, b := range fn.Blocks {
		for _, ins := range b.Instrs {
			if ci, ok := ins.(ssa.CallInstruction); ok {
				if c := ci.Common().StaticCallee(); c != nil {
					out = append(out, c)
				}
			}
		}
	}
	return out
}

// intToInt lists the receiver-less func(int) int functions of a package.
func intToInt(p *Prog, rel string) []*ssa.Function {
	var out []*ssa.Function
	for _, fn := range p.Funcs {
		if pkgRelOf(p, fn) == rel && fn.Parent() == nil && sigShape(fn, false, []string{"int"}, []string{"int"}) &&
			fn.Signature.Params().At(0).Type().String() == "int" && fn.Signature.Results().At(0).Type().String() == "int" {
			out = append(out, fn)
		}
	}
	return out
}

var funcRoles = map[string]funcRole{
	// the snapshot's first index: some path returns a segment's MinIndex
	"|state.firstIndex": func(p *Prog, fn *ssa.Function) bool {
		return sigShape(fn, true, nil, []string{"uint64"}) && returnsValue(fn, func(v ssa.Value) bool { return fieldLoadName(v) == "MinIndex" })
	},
	// the snapshot's last index: some path returns what the tail writer's LastIndex() said
	"|state.lastIndex": func(p *Prog, fn *ssa.Function) bool {
		return sigShape(fn, true, nil, []string{"uint64"}) && !typeEnds(fn.Signature.Recv().Type(), ".WAL") &&
			returnsValue(fn, func(v ssa.Value) bool {
				c, ok := v.(*ssa.Call)
				return ok && c.Call.IsInvoke() && c.Call.Method.Name() == "LastIndex"
			})
	},
	// the tail's entry of the segment map: () -> pointer to the per-segment record (a struct embedding SegmentInfo)
	"|state.getTailInfo": func(p *Prog, fn *ssa.Function) bool {
		if !sigShape(fn, true, nil, []string{""}) {
			return false
		}
		pt, ok := fn.Signature.Results().At(0).Type().(*types.Pointer)
		if !ok {
			return false
		}
		st, ok := pt.Elem().Underlying().(*types.Struct)
		if !ok {
			return false
		}
		for i := 0; i < st.NumFields(); i++ {
			if st.Field(i).Embedded() && typeEnds(st.Field(i).Type(), "types.SegmentInfo") {
				return true
			}
		}
		return false
	},
	// dropping a pin: atomic decrement of the refcount and a load of the finalizer slot
	"|state.release": func(p *Prog, fn *ssa.Function) bool {
		return sigShape(fn, true, nil, nil) && callsEvent(fn, func(n string) bool { return n == "atomic.Value.Load" || n == "atomic.Value.Swap" }) &&
			callsEvent(fn, func(n string) bool { return strings.HasPrefix(n, "atomic.Add") })
	},
	"|state.getLog": func(p *Prog, fn *ssa.Function) bool {
		return sigShape(fn, true, []string{"uint64"}, []string{"types.PooledBuffer", "error"})
	},
	"|state.findSegmentReader": func(p *Prog, fn *ssa.Function) bool {
		return sigShape(fn, true, []string{"uint64"}, []string{"types.SegmentReader", "error"})
	},
	"|state.Persistent": func(p *Prog, fn *ssa.Function) bool {
		return sigShape(fn, true, nil, []string{"types.PersistentState"})
	},
	"|WAL.createNextSegment": func(p *Prog, fn *ssa.Function) bool {
		sig := fn.Signature
		if sig.Recv() == nil || !typeEnds(sig.Recv().Type(), ".WAL") || sig.Params().Len() < 1 || sig.Results().Len() != 2 {
			return false
		}
		_, ptr := sig.Params().At(0).Type().(*types.Pointer)
		return ptr && typeEnds(sig.Results().At(0).Type(), "func() error") && isErrorType(sig.Results().At(1).Type())
	},
	// the read-back: no results, takes the report by pointer (method or plain function) and reads entries
	// back through raft.LogStore.GetLog itself
	"verifier|LogStore.verify": func(p *Prog, fn *ssa.Function) bool {
		sig := fn.Signature
		if sig.Results().Len() != 0 {
			return false
		}
		hasReport := false
		for i := 0; i < sig.Params().Len(); i++ {
			if typeEnds(sig.Params().At(i).Type(), "*github.com/hashicorp/raft-wal/verifier.VerificationReport") {
				hasReport = true
			}
		}
		if !hasReport {
			return false
		}
		reads := false
		for g := range p.reachableFuncs(fn) {
			if pkgRelOf(p, g) != "verifier" {
				continue
			}
			for _, b := range g.Blocks {
				for _, ins := range b.Instrs {
					if ci, ok := ins.(ssa.CallInstruction); ok && eventName(ci) == "raft.LogStore.GetLog" {
						reads = true
					}
				}
			}
		}
		return reads
	},
	// the per-entry transition of the running checksum: a method taking one *raft.Log and yielding a report
	"verifier|LogStore.updateVerifyState": func(p *Prog, fn *ssa.Function) bool {
		sig := fn.Signature
		if sig.Recv() == nil {
			return false
		}
		hasLog, hasReport, hasErr := false, false, false
		for i := 0; i < sig.Params().Len(); i++ {
			if typeEnds(sig.Params().At(i).Type(), "*github.com/hashicorp/raft.Log") {
				hasLog = true
			}
		}
		for i := 0; i < sig.Results().Len(); i++ {
			t := sig.Results().At(i).Type()
			if typeEnds(t, "verifier.VerificationReport") {
				_, isPtr := t.(*types.Pointer)
				hasReport = hasReport || isPtr
			}
			hasErr = hasErr || isErrorType(t)
		}
		return hasLog && hasReport && hasErr
	},
	// the reader's lookup of a frame offset: delegates to the tail's OffsetForFrame when there is one
	"segment|Reader.findFrameOffset": func(p *Prog, fn *ssa.Function) bool {
		return sigShape(fn, true, []string{"uint64"}, []string{"uint32", "error"}) &&
			bodyHas(fn, func(ins ssa.Instruction) bool {
				ci, ok := ins.(ssa.CallInstruction)
				return ok && ci.Common().IsInvoke() && ci.Common().Method.Name() == "OffsetForFrame"
			})
	},
	// padding: the func(int) int that calls nothing; frame size: the one that calls only the padding function
	"segment|padLen": func(p *Prog, fn *ssa.Function) bool {
		for _, c := range intToInt(p, "segment") {
			if c == fn {
				return len(staticCallees(fn)) == 0
			}
		}
		return false
	},
	"segment|encodedFrameSize": func(p *Prog, fn *ssa.Function) bool {
		isI2I := false
		var leaf *ssa.Function
		for _, c := range intToInt(p, "segment") {
			if c == fn {
				isI2I = true
			}
			if len(staticCallees(c)) == 0 {
				leaf = c
			}
		}
		cs := staticCallees(fn)
		return isI2I && leaf != nil && len(cs) == 1 && cs[0] == leaf
	},
	"metadb|BoltMetaDB.ensureOpen": func(p *Prog, fn *ssa.Function) bool {
		return sigShape(fn, true, []string{"string"}, []string{"error"}) && callsEvent(fn, func(n string) bool { return n == "os.Stat" })
	},
}

// funcByRole resolves an anchor whose name lookup failed.
func (p *Prog) funcByRole(rel, name string) *ssa.Function {
	role, ok := funcRoles[rel+"|"+name]
	if !ok {
		return nil
	}
	if p.roleCache == nil {
		p.roleCache = map[string]*ssa.Function{}
	}
	if fn, ok := p.roleCache[rel+"|"+name]; ok {
		return fn
	}
	var cands []*ssa.Function
	for _, fn := range p.Funcs {
		if pkgRelOf(p, fn) == rel && fn.Parent() == nil && fn.Synthetic == "" && role(p, fn) {
			cands = append(cands, fn)
		}
	}
	sort.Slice(cands, func(i, j int) bool { return cands[i].String() < cands[j].String() })
	var res *ssa.Function
	if len(cands) == 1 {
		res = cands[0]
	}
	p.roleCache[rel+"|"+name] = res
	return res
}

// namedByRole resolves unexported type anchors.
func (p *Prog) namedByRole(rel, name string) *types.Named {
	pk := p.Pkg[rel]
	if pk == nil {
		return nil
	}
	var cands []*types.Named
	sc := pk.Types.Scope()
	for _, n := range sc.Names() {
		tn, ok := sc.Lookup(n).(*types.TypeName)
		if !ok {
			continue
		}
		named, ok := tn.Type().(*types.Named)
		if !ok {
			continue
		}
		switch rel + "|" + name {
		case "|state":
			// the snapshot type: a struct holding the immutable segment map
			if st, ok := named.Underlying().(*types.Struct); ok {
				for i := 0; i < st.NumFields(); i++ {
					if strings.Contains(st.Field(i).Type().String(), "immutable.SortedMap") {
						cands = append(cands, named)
						break
					}
				}
			}
		case "|stateTxn":
			// the transaction body type: func(*state) (func(), func() error, error)
			if sig, ok := named.Underlying().(*types.Signature); ok && sig.Results().Len() == 3 && sig.Params().Len() == 1 &&
				sig.Results().At(0).Type().String() == "func()" && sig.Results().At(1).Type().String() == "func() error" && isErrorType(sig.Results().At(2).Type()) {
				cands = append(cands, named)
			}
		}
	}
	if len(cands) == 1 {
		return cands[0]
	}
	return nil
}

// ---------------------------------------------------------------- fields by role

func structFields(t types.Type) []*types.Var {
	st, ok := t.Underlying().(*types.Struct)
	if !ok {
		return nil
	}
	var out []*types.Var
	for i := 0; i < st.NumFields(); i++ {
		out = append(out, st.Field(i))
	}
	return out
}

func oneField(fs []*types.Var, pred func(f *types.Var) bool) *types.Var {
	var res *types.Var
	for _, f := range fs {
		if pred(f) {
			if res != nil {
				return nil
			}
			res = f
		}
	}
	return res
}

// writerInner is the nested struct of segment.Writer that holds the write-side state (the one with a []byte).
func writerInner(p *Prog) *types.Var {
	n := p.NamedType("segment", "Writer")
	if n == nil {
		return nil
	}
	return oneField(structFields(n), func(f *types.Var) bool {
		return oneField(structFields(f.Type()), func(g *types.Var) bool { return g.Type().String() == "[]byte" }) != nil
	})
}

// fieldUsedBy: the field f among cands such that some production instruction satisfies uses(ins, f).
func fieldUsedBy(p *Prog, rel string, cands []*types.Var, uses func(ins ssa.Instruction, f *types.Var) bool) *types.Var {
	hit := map[*types.Var]bool{}
	for _, fn := range p.Funcs {
		if pkgRelOf(p, fn) != rel {
			continue
		}
		for _, b := range fn.Blocks {
			for _, ins := range b.Instrs {
				for _, f := range cands {
					if uses(ins, f) {
						hit[f] = true
					}
				}
			}
		}
	}
	var res *types.Var
	for _, f := range cands {
		if hit[f] {
			if res != nil {
				return nil
			}
			res = f
		}
	}
	return res
}

func (p *Prog) fieldByRole(rel, typ, path string) *types.Var {
	switch rel + "|" + typ + "|" + path {
	case "|WAL|codec":
		if n := p.NamedType("", "WAL"); n != nil {
			return fieldWhere(n, "codec", func(f *types.Var) bool { return typeEnds(f.Type(), "raft-wal.Codec") })
		}
	case "segment|Writer|offsets":
		if n := p.NamedType("segment", "Writer"); n != nil {
			return oneField(structFields(n), func(f *types.Var) bool { return f.Type().String() == "sync/atomic.Value" })
		}
	case "segment|Writer|commitIdx":
		// the uint64 field of Writer that is stored through sync/atomic
		if n := p.NamedType("segment", "Writer"); n != nil {
			var cands []*types.Var
			for _, f := range structFields(n) {
				if f.Type().String() == "uint64" {
					cands = append(cands, f)
				}
			}
			return fieldUsedBy(p, "segment", cands, func(ins ssa.Instruction, f *types.Var) bool {
				ci, ok := ins.(ssa.CallInstruction)
				return ok && eventName(ci) == "atomic.StoreUint64" && len(ci.Common().Args) > 0 && fieldOfAddr(ci.Common().Args[0]) == f
			})
		}
	case "segment|Writer|writer.commitBuf":
		if in := writerInner(p); in != nil {
			return oneField(structFields(in.Type()), func(g *types.Var) bool { return g.Type().String() == "[]byte" })
		}
	case "segment|Writer|writer.indexStart":
		if in := writerInner(p); in != nil {
			return oneField(structFields(in.Type()), func(g *types.Var) bool { return g.Type().String() == "uint64" })
		}
	case "segment|Writer|writer.crc", "segment|Writer|writer.writeOffset":
		in := writerInner(p)
		if in == nil {
			return nil
		}
		var cands []*types.Var
		for _, g := range structFields(in.Type()) {
			if g.Type().String() == "uint32" {
				cands = append(cands, g)
			}
		}
		// the rolling CRC is the one that receives the result of crc32.Update
		crc := fieldUsedBy(p, "segment", cands, func(ins ssa.Instruction, f *types.Var) bool {
			st, ok := ins.(*ssa.Store)
			if !ok || fieldOfAddr(st.Addr) != f {
				return false
			}
			c, ok := st.Val.(*ssa.Call)
			return ok && eventName(c) == "crc32.Update"
		})
		if crc == nil || len(cands) != 2 {
			return nil
		}
		if strings.HasSuffix(path, ".crc") {
			return crc
		}
		for _, g := range cands {
			if g != crc {
				return g
			}
		}
	case "verifier|LogStore|checksum", "verifier|LogStore|sumStartIdx":
		return p.verifierStateField(path == "checksum")
	}
	return nil
}

// verifierStateField finds the two atomically accessed uint64 fields of verifier.LogStore by what flows into
// the per-entry transition function: the running sum is the argument that the transition passes on to the one
// hash routine, the range start is the other uint64 argument.
func (p *Prog) verifierStateField(wantSum bool) *types.Var {
	uvs := p.Func("verifier", "LogStore.updateVerifyState")
	if uvs == nil {
		return nil
	}
	// which uint64 parameter of the transition is hashed
	var through func(v ssa.Value, d int) ssa.Value
	through = func(v ssa.Value, d int) ssa.Value {
		if phi, ok := v.(*ssa.Phi); ok && d < 4 {
			for _, e := range phi.Edges {
				if r := through(e, d+1); r != nil {
					if _, isP := r.(*ssa.Parameter); isP {
						return r
					}
					if _, isC := r.(*ssa.Call); isC {
						return r
					}
				}
			}
			return nil
		}
		return v
	}
	sumParam := -1
	for _, b := range uvs.Blocks {
		for _, ins := range b.Instrs {
			c, ok := ins.(*ssa.Call)
			if !ok || c.Call.StaticCallee() == nil || pkgRelOf(p, c.Call.StaticCallee()) != "verifier" {
				continue
			}
			if !callsEvent(c.Call.StaticCallee(), func(n string) bool { return strings.HasPrefix(n, "fnv1a.") }) {
				continue
			}
			for _, a := range c.Call.Args {
				if prm, ok := through(a, 0).(*ssa.Parameter); ok && prm.Type().String() == "uint64" {
					for i, q := range uvs.Params {
						if q == prm {
							sumParam = i
						}
					}
				}
			}
		}
	}
	if sumParam < 0 {
		return nil
	}
	var res *types.Var
	for _, fn := range p.Funcs {
		if pkgRelOf(p, fn) != "verifier" {
			continue
		}
		for _, b := range fn.Blocks {
			for _, ins := range b.Instrs {
				c, ok := ins.(*ssa.Call)
				if !ok || c.Call.StaticCallee() != uvs {
					continue
				}
				for i, a := range c.Call.Args {
					if i >= len(uvs.Params) || uvs.Params[i].Type().String() != "uint64" {
						continue
					}
					if (i == sumParam) != wantSum {
						continue
					}
					src := through(a, 0)
					// the loop-carried value: follow the phi to the atomic load before the loop
					if ex, ok := src.(*ssa.Extract); ok {
						_ = ex
						continue
					}
					if ld, ok := src.(*ssa.Call); ok && eventName(ld) == "atomic.LoadUint64" {
						res = fieldOfAddr(ld.Call.Args[0])
					}
				}
			}
		}
	}
	return res
}

// frameHeaderFields resolves the three fields of the in-memory frame header (type byte, length, CRC).
// Names first (typ/len/crc); after a rename: the uint8 field, and of the two uint32 fields the CRC is the
// one that is compared with / assigned from a CRC-32 value.
func frameHeaderFields(p *Prog) (typ, length, crc *types.Var) {
	var n *types.Named
	if pk := p.Pkg["segment"]; pk != nil {
		sc := pk.Types.Scope()
		for _, name := range sc.Names() {
			tn, ok := sc.Lookup(name).(*types.TypeName)
			if !ok {
				continue
			}
			named, ok := tn.Type().(*types.Named)
			if !ok {
				continue
			}
			fs := structFields(named)
			if len(fs) != 3 {
				continue
			}
			n8, n32 := 0, 0
			for _, f := range fs {
				switch f.Type().String() {
				case "uint8", "byte":
					n8++
				case "uint32":
					n32++
				}
			}
			if n8 == 1 && n32 == 2 {
				if n != nil {
					return nil, nil, nil
				}
				n = named
			}
		}
	}
	if n == nil {
		return nil, nil, nil
	}
	fs := structFields(n)
	byName := map[string]*types.Var{}
	var u32 []*types.Var
	for _, f := range fs {
		byName[f.Name()] = f
		if f.Type().String() == "uint32" {
			u32 = append(u32, f)
		} else {
			typ = f
		}
	}
	if byName["len"] != nil && byName["crc"] != nil {
		return typ, byName["len"], byName["crc"]
	}
	wcrc := p.Field("segment", "Writer", "writer.crc")
	crc = fieldUsedBy(p, "segment", u32, func(ins ssa.Instruction, f *types.Var) bool {
		switch x := ins.(type) {
		case *ssa.Store:
			// commit frame: header.crc = writer's rolling crc
			return fieldOfAddr(x.Addr) == f && wcrc != nil && loadedField(x.Val) == wcrc
		case *ssa.BinOp:
			// recovery: computed crc32 == header.crc
			for _, pair := range [][2]ssa.Value{{x.X, x.Y}, {x.Y, x.X}} {
				if c, ok := pair[0].(*ssa.Call); ok && strings.HasPrefix(eventName(c), "crc32.") {
					if u, ok := pair[1].(*ssa.UnOp); ok && fieldOfAddr(u.X) == f {
						return true
					}
					if fl, ok := pair[1].(*ssa.Field); ok && fieldOfAddr(fl) == f {
						return true
					}
				}
			}
		}
		return false
	})
	if crc == nil {
		return typ, nil, nil
	}
	for _, f := range u32 {
		if f != crc {
			length = f
		}
	}
	return typ, length, crc
}
