package main

import (
	"fmt"
	"go/token"
	"go/types"
	"sort"
	"strings"

	"golang.org/x/tools/go/ssa"
)

func init() {
	register(&Rule{ID: "ACC-01", Title: "fields documented as atomic are accessed only through sync/atomic",
		Props: []string{"C06", "C14"}, Floor: 15, Run: runACC01})
	register(&Rule{ID: "ACC-02", Title: "writer-side data is touched only with writeMu held (or in Open before the goroutine starts)",
		Props: []string{"C06"}, Floor: 8, Run: runACC02})
	register(&Rule{ID: "ACC-03", Title: "read paths touch no writer-side data and call no mutator",
		Props: []string{"C06"}, Floor: 10, Run: runACC03})
	register(&Rule{ID: "ACC-04", Title: "who may call what: file writes/syncs, VFS, SegmentFiler/MetaStore, os/bbolt, fnv1a are confined to their owners",
		Props: []string{"C07", "C08", "C16"}, Floor: 20, Run: runACC04})
	register(&Rule{ID: "ACC-05", Title: "every state pin is released exactly once on every path",
		Props: []string{"C06", "C13"}, Floor: 8, Run: runACC05})
}

type atomicField struct {
	rel, typ, path, why string
}

func atomicFields(p *Prog) []atomicField {
	out := []atomicField{
		{"", "WAL", "closed", "closed flag read by every API call while Close swaps it"},
		{"", "state", "refCount", "reader pin count"},
		{"segment", "Writer", "commitIdx", "published commit index read by lock-free readers"},
		{"verifier", "LogStore", "checksum", "running checksum read/written by StoreLogs"},
		{"verifier", "LogStore", "sumStartIdx", "running checksum start"},
	}
	// the new-file flag of fs.File, if the implementation keeps one (it is found by role, and optional:
	// a different mechanism, e.g. a mutex, would be judged by ORD-05 alone)
	if f := atomicFlagOfFile(p); f != nil {
		out = append(out, atomicField{"fs", "File", f.Name(), "new-file flag shared by concurrent Syncs"})
	}
	return out
}

func runACC01(p *Prog, r *RuleRun) {
	rt := p.methodImpl("segment", "Filer", "RecoverTail")
	cr := p.methodImpl("segment", "Filer", "Create")
	pre := p.reachableFuncs(rt, cr)
	var mutRoots []*ssa.Function
	for _, n := range []string{"Append", "ForceSeal", "Sealed", "GetLog", "LastIndex", "Close", "OffsetForFrame"} {
		if f := p.methodImpl("segment", "Writer", n); f != nil {
			mutRoots = append(mutRoots, f)
		}
	}
	shared := p.reachableFuncs(mutRoots...)
	for _, af := range atomicFields(p) {
		fv := p.Field(af.rel, af.typ, af.path)
		name := af.typ + "." + af.path
		if fv == nil {
			r.Unknown("anchor:"+name, "?", "field "+name+" not found")
			continue
		}
		ord := ordinal{}
		n := 0
		for _, fn := range p.Funcs {
			for _, b := range fn.Blocks {
				for _, ins := range b.Instrs {
					switch x := ins.(type) {
					case *ssa.FieldAddr:
						if fieldOfAddr(x) != fv {
							continue
						}
						for _, ref := range *x.Referrers() {
							n++
							key := ord.next(name + "@" + funcDisplay(fn))
							pos := posOf(p, ref)
							if ci, ok := ref.(ssa.CallInstruction); ok && strings.HasPrefix(eventName(ci), "atomic.") && len(ci.Common().Args) > 0 && ci.Common().Args[0] == x {
								r.OK(key, pos, eventName(ci)+" on "+name)
								continue
							}
							if st, ok := ref.(*ssa.Store); ok && st.Addr == x {
								if al, ok := x.X.(*ssa.Alloc); ok && al.Comment == "complit" {
									r.OK(key, pos, "exempt: composite-literal initialisation of an object that has not escaped yet")
									continue
								}
								if af.path == "commitIdx" && pre[fn] && !shared[fn] {
									r.OK(key, pos, "exempt: recovery-time store in code reachable only from Filer.RecoverTail/Create, before the Writer is returned")
									continue
								}
							}
							r.Fail(key, pos, fmt.Sprintf("%s (%s) is accessed non-atomically in %s: %s — a data race with the atomic accesses elsewhere", name, af.why, funcDisplay(fn), strings.TrimSpace(ref.String())))
						}
					case *ssa.Field:
						if fieldOfAddr(x) == fv {
							n++
							r.Fail(ord.next(name+"@"+funcDisplay(fn)), posOf(p, x), name+" is read through a struct copy (non-atomic)")
						}
					}
				}
			}
		}
		if n == 0 {
			r.Unknown("unused:"+name, "?", "no access to "+name+" found: the field no longer plays its role")
		}
	}
}

// ---------------------------------------------------------------- ACC-03

func runACC03(p *Prog, r *RuleRun) {
	v := newWalVocab(p)
	a := resolveWriterAnchors(p)
	if len(v.missing)+len(a.missing) > 0 {
		r.Unknown("anchor", "?", "unresolved anchors: "+strings.Join(append(v.missing, a.missing...), ", "))
		return
	}
	var roots []*ssa.Function
	for _, n := range []string{"GetLog", "FirstIndex", "LastIndex", "Get", "GetUint64"} {
		fn := p.Func("", "WAL."+n)
		if fn == nil {
			r.Unknown("anchor:"+n, "?", "(*WAL)."+n+" not found")
			return
		}
		roots = append(roots, fn)
	}
	forbiddenFields := map[*types.Var]string{a.commitBuf: "Writer.commitBuf", a.crc: "Writer.crc", a.writeOffset: "Writer.writeOffset", a.indexStart: "Writer.indexStart", v.await: "WAL.awaitRotate"}
	forbiddenCalls := map[string]bool{"types.SegmentWriter.Append": true, "types.SegmentWriter.ForceSeal": true, "types.SegmentWriter.Sealed": true,
		"types.MetaStore.CommitState": true, "types.MetaStore.SetStable": true, "types.SegmentFiler.Create": true, "types.SegmentFiler.Delete": true,
		"segment.Writer.Append": true, "segment.Writer.ForceSeal": true, "segment.Writer.Sealed": true, "metadb.BoltMetaDB.CommitState": true,
		"metadb.BoltMetaDB.SetStable": true, "segment.Filer.Create": true, "segment.Filer.Delete": true, "types.WritableFile.WriteAt": true, "types.WritableFile.Sync": true}
	reach := p.reachableFuncs(roots...)
	var fns []*ssa.Function
	for fn := range reach {
		fns = append(fns, fn)
	}
	sort.Slice(fns, func(i, j int) bool { return fns[i].String() < fns[j].String() })
	for _, fn := range fns {
		var bad []string
		pos := p.Position(fn.Pos())
		for _, b := range fn.Blocks {
			for _, ins := range b.Instrs {
				switch x := ins.(type) {
				case *ssa.FieldAddr:
					if n, ok := forbiddenFields[fieldOfAddr(x)]; ok {
						bad = append(bad, "touches "+n+" at "+posOf(p, x))
					}
				case ssa.CallInstruction:
					n := eventName(x)
					if forbiddenCalls[n] {
						bad = append(bad, "calls "+n+" at "+posOf(p, x))
					}
					if strings.HasPrefix(n, "atomic.Value.Store") || strings.HasPrefix(n, "atomic.Value.Swap") {
						if f := fieldOfAddr(x.Common().Args[0]); f == v.stateCell || f == a.offsets {
							bad = append(bad, "stores to "+f.Name()+" at "+posOf(p, x))
						}
					}
				}
			}
		}
		key := funcDisplay(fn)
		if len(bad) == 0 {
			r.OK(key, pos, "reachable from the read API; touches only immutable, atomic or pinned data")
		} else {
			r.Fail(key, pos, "reachable from a lock-free read path (GetLog/FirstIndex/LastIndex/Get) but "+strings.Join(bad, "; ")+": writer-side state is only safe under writeMu")
		}
	}
	r.Stats["read_path_functions"] = len(fns)
}

// ---------------------------------------------------------------- ACC-04

func recvTypeName(fn *ssa.Function) string {
	for fn.Parent() != nil {
		fn = fn.Parent()
	}
	if fn.Signature.Recv() != nil {
		return typeShort(fn.Signature.Recv().Type())
	}
	return ""
}

func pkgRelOf(p *Prog, fn *ssa.Function) string {
	for fn.Parent() != nil {
		fn = fn.Parent()
	}
	if fn.Pkg != nil {
		return p.RelPkg(fn.Pkg.Pkg)
	}
	if o := fn.Object(); o != nil {
		return p.RelPkg(o.Pkg())
	}
	return "?"
}

func runACC04(p *Prog, r *RuleRun) {
	v := newWalVocab(p)
	type rule struct {
		match func(n string) bool
		allow func(fn *ssa.Function) bool
		what  string
	}
	stableAPI := map[*ssa.Function]bool{}
	for _, n := range []string{"Set", "Get"} {
		if fn := p.Func("", "WAL."+n); fn != nil {
			stableAPI[fn] = true
		}
	}
	if len(stableAPI) != 2 {
		r.Unknown("anchor:stable-api", "?", "(*WAL).Set/Get not found")
	}
	rules := []rule{
		{func(n string) bool { return n == "types.WritableFile.WriteAt" || n == "types.WritableFile.Sync" },
			func(fn *ssa.Function) bool { return recvTypeName(fn) == "segment.Writer" }, "segment file writes/fsyncs belong to *segment.Writer only"},
		{func(n string) bool { return strings.HasPrefix(n, "types.VFS.") },
			func(fn *ssa.Function) bool { return recvTypeName(fn) == "segment.Filer" }, "VFS operations belong to *segment.Filer only"},
		{func(n string) bool {
			return strings.HasPrefix(n, "types.SegmentFiler.") || n == "types.MetaStore.CommitState" || n == "types.MetaStore.Load" || n == "types.MetaStore.Close"
		}, func(fn *ssa.Function) bool { return pkgRelOf(p, fn) == "" }, "segment filer and metadata commits are driven by package wal only"},
		{func(n string) bool { return n == "types.MetaStore.SetStable" || n == "types.MetaStore.GetStable" },
			func(fn *ssa.Function) bool { return stableAPI[fn] }, "the stable store is reached only through (*WAL).Set/Get"},
		{func(n string) bool {
			return strings.HasPrefix(n, "bbolt.") || strings.HasPrefix(n, "ioutil.") || strings.HasPrefix(n, "fileutil.") ||
				(strings.HasPrefix(n, "os.") && n != "os.Exit" && !strings.HasPrefix(n, "os.File.Write") && !strings.HasPrefix(n, "os.Getenv"))
		}, func(fn *ssa.Function) bool { rel := pkgRelOf(p, fn); return rel == "fs" || rel == "metadb" }, "direct os / bbolt / fileutil calls are confined to packages fs and metadb"},
	}
	ord := ordinal{}
	fnvUsers := map[string]bool{}
	for _, fn := range p.Funcs {
		if pkgRelOf(p, fn) == "cmd/waldump" {
			continue
		}
		for _, b := range fn.Blocks {
			for _, ins := range b.Instrs {
				ci, ok := ins.(ssa.CallInstruction)
				if !ok {
					continue
				}
				n := eventName(ci)
				if strings.HasPrefix(n, "fnv1a.") {
					fnvUsers[funcDisplay(fn)] = true
				}
				for _, ru := range rules {
					if !ru.match(n) {
						continue
					}
					key := ord.next(n + "@" + funcDisplay(fn))
					if ru.allow(fn) {
						r.OK(key, posOf(p, ins), ru.what)
					} else {
						r.Fail(key, posOf(p, ins), fmt.Sprintf("%s is called from %s: %s", n, funcDisplay(fn), ru.what))
					}
				}
			}
		}
	}
	// one hash routine serves every checksum
	var users []string
	for u := range fnvUsers {
		users = append(users, u)
	}
	sort.Strings(users)
	r.Check(len(users) == 1, "fnv1a:single-hash-routine", "?", "all checksums are computed by "+strings.Join(users, ","),
		"the verifier's hash is computed in more than one place ("+strings.Join(users, ", ")+"): leader, follower-write and read-back sums can drift apart (false or missed alarms)")
	// stable API reaches no log-side event; log-side code reaches no SetStable
	logSide := func(n string) bool {
		return strings.HasPrefix(n, "types.SegmentFiler.") || strings.HasPrefix(n, "types.SegmentWriter.") || n == "types.MetaStore.CommitState" ||
			strings.HasPrefix(n, "types.SegmentReader.")
	}
	for fn := range stableAPI {
		bad := ""
		for g := range p.reachableFuncs(fn) {
			for _, b := range g.Blocks {
				for _, ins := range b.Instrs {
					if ci, ok := ins.(ssa.CallInstruction); ok {
						n := eventName(ci)
						if logSide(n) {
							bad = n + " in " + funcDisplay(g)
						}
						if len(ci.Common().Args) > 0 && strings.HasPrefix(n, "atomic.Value.Store") && fieldOfAddr(ci.Common().Args[0]) == v.stateCell {
							bad = "state store in " + funcDisplay(g)
						}
					}
				}
			}
		}
		r.Check(bad == "", "isolation:"+funcDisplay(fn), p.Position(fn.Pos()), "stable-store operation reaches no log-side operation", "stable-store operation "+funcDisplay(fn)+" reaches the log side: "+bad)
	}
}

// ---------------------------------------------------------------- ACC-05

func runACC05(p *Prog, r *RuleRun) {
	v := newWalVocab(p)
	if !checkWalAnchors(r, v, nil) {
		return
	}
	_, _, _, cl, rot := walRoots(p, v)
	roots := append(v.apiMethods(), cl, rot)
	spec := v.baseSpec("pin-pairing")
	bump := func(f *Fact, d int) {
		n := map[string]int{"": 0, "1": 1, "2": 2, "3": 3, "-1": -1}[f.TS["pins"]]
		n += d
		switch {
		case n < 0:
			f.TS["pins"] = "-1"
		case n == 0:
			delete(f.TS, "pins")
		case n > 3:
			f.TS["pins"] = "3"
		default:
			f.TS["pins"] = fmt.Sprint(n)
		}
	}
	nAcq := 0
	spec.OnEvent = func(cx *Ctx, ev, phase string, ins ssa.Instruction, f *Fact) {
		if !strings.HasPrefix(ev, "REF.Add") || phase != "call" {
			return
		}
		ci := ins.(ssa.CallInstruction)
		c, ok := ci.Common().Args[1].(*ssa.Const)
		if !ok {
			r.Unknown(cx.Key(ins, "refcount-delta"), posOf(p, ins), "reference count changed by a non-constant")
			return
		}
		if c.Int64() > 0 {
			nAcq++
			bump(f, 1)
		} else {
			bump(f, -1)
			if f.TS["pins"] == "-1" {
				r.Fail(funcDisplay(cx.Fr.Root().Fn)+":double-release", posOf(p, ins), "the state is released more often than it was pinned on this path (the finalizer can run while another reader still uses the files); via "+cx.Fr.Stack()+"; path: "+trace(f))
			}
		}
	}
	spec.OnReturn = func(cx *Ctx, ret *ssa.Return, class RetClass, f *Fact) {
		key := cx.Key(ret, "return")
		r.Check(f.TS["pins"] == "", key, posOf(p, ret), "every pin taken on this path was released exactly once",
			fmt.Sprintf("%s returns with the state pin count off by %q: a leaked pin keeps truncated files open and on disk forever; a missing pin lets files be closed under a reader; path: %s", funcDisplay(cx.Fr.Fn), f.TS["pins"], trace(f)))
	}
	eng := newOrdEngine(p, spec)
	for _, root := range roots {
		if root != nil {
			eng.RunRoot(root, nil)
		}
	}
	finishEngine(r, eng)
	r.Stats["acquisitions_seen"] = nAcq
}

// ---------------------------------------------------------------- ACC-02

func runACC02(p *Prog, r *RuleRun) {
	v := newWalVocab(p)
	open, sl, dr, cl, rot := walRoots(p, v)
	if !checkWalAnchors(r, v, map[string]*ssa.Function{"Open": open, "StoreLogs": sl, "DeleteRange": dr, "Close": cl, "rotation goroutine": rot}) {
		return
	}
	protected := map[string]bool{"SegmentWriter.Append": true, "SegmentWriter.ForceSeal": true, "SegmentWriter.Sealed": true, "STATE.Store": true,
		"MetaStore.CommitState": true, "AWAIT=nil": true, "AWAIT=make": true, "AWAIT=?": true, "SEND(trigger)": true, "FIN.Store": true}
	seen := map[ssa.Instruction]bool{}
	spec := v.baseSpec("lockset")
	base := v.instr
	spec.Instr = func(cx *Ctx, ins ssa.Instruction, f *Fact) {
		base(cx, ins, f)
		if u, ok := ins.(*ssa.UnOp); ok && u.Op == token.MUL && fieldOfAddr(u.X) == v.await {
			cx.E.emit(cx, "AWAIT=?load", "", ins, f)
		}
	}
	spec.OnEvent = func(cx *Ctx, ev, phase string, ins ssa.Instruction, f *Fact) {
		switch ev {
		case "LOCK":
			f.Add("HELD")
			return
		case "UNLOCK":
			f.Drop("HELD")
			return
		}
		if strings.HasPrefix(ev, "GO(") {
			f.Add("GO")
		}
		if (protected[ev] || ev == "AWAIT=?load") && (phase == "call" || phase == "") {
			seen[ins] = true
			key := cx.Key(ins, ev)
			switch {
			case f.Must["HELD"]:
				r.OK(key, posOf(p, ins), ev+" with writeMu held ("+funcDisplay(cx.Fr.Root().Fn)+")")
			case cx.Fr.Root().Fn == open && !f.May["GO"]:
				r.OK(key, posOf(p, ins), ev+" in Open before the WAL is shared")
			default:
				r.Fail(key, posOf(p, ins), ev+" without writeMu held (root "+funcDisplay(cx.Fr.Root().Fn)+"): the single-writer discipline is broken; path: "+trace(f))
			}
		}
	}
	eng := newOrdEngine(p, spec)
	for _, root := range []*ssa.Function{open, sl, dr, cl, rot} {
		eng.RunRoot(root, nil)
	}
	finishEngine(r, eng)
	// any protected operation in package wal that no analysed root reaches is outside the discipline
	for _, fn := range p.Funcs {
		if pkgRelOf(p, fn) != "" {
			continue
		}
		for _, b := range fn.Blocks {
			for _, ins := range b.Instrs {
				ci, ok := ins.(ssa.CallInstruction)
				if !ok || seen[ins] {
					continue
				}
				info := v.call(&Ctx{P: p}, ci)
				if protected[info.Event] {
					dead := true
					if n := p.CG.Nodes[fn]; n != nil {
						for _, e := range n.In {
							if p.IsProdFunc(e.Caller.Func) {
								dead = false
							}
						}
					}
					if dead {
						r.Trivial(funcDisplay(fn)+":"+info.Event+":dead", posOf(p, ins), funcDisplay(fn)+" has no production caller (dead code): not an execution the discipline has to cover")
						continue
					}
					r.Fail(funcDisplay(fn)+":"+info.Event+":unreached", posOf(p, ins), info.Event+" in "+funcDisplay(fn)+" is not reachable from StoreLogs/DeleteRange/Close/rotation/Open: it runs outside the lock discipline the analysis can establish")
				}
			}
		}
	}
}
