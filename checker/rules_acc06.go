package main

import (
	"fmt"
	"go/token"
	"go/types"
	"sort"
	"strings"

	"golang.org/x/tools/go/ssa"
)

func init() {
	register(&Rule{ID: "ACC-06", Title: "lockset consistency: no production struct field is written by one API call and touched by a concurrent one without a common lock",
		Props: []string{"C14", "C06"}, Floor: 3, Run: runACC06})
}

type fieldAccess struct {
	write bool
	held  bool            // writeMu
	locks map[string]bool // every mutex held (by owner.field)
	root  string
	fn    string
	pos   string
}

// staticFresh: the address is derived from an object allocated in this very function.
func staticFresh(v ssa.Value, depth int) bool {
	if depth > 8 || v == nil {
		return false
	}
	switch x := v.(type) {
	case *ssa.Alloc:
		return true
	case *ssa.MakeSlice:
		return true
	case *ssa.FieldAddr:
		return staticFresh(x.X, depth+1)
	case *ssa.IndexAddr:
		return staticFresh(x.X, depth+1)
	case *ssa.Slice:
		return staticFresh(x.X, depth+1)
	case *ssa.Phi:
		for _, e := range x.Edges {
			if !staticFresh(e, depth+1) {
				return false
			}
		}
		return true
	}
	return false
}

func isSyncType(t types.Type) bool {
	for {
		if pt, ok := t.(*types.Pointer); ok {
			t = pt.Elem()
			continue
		}
		break
	}
	if n, ok := t.(*types.Named); ok && n.Obj().Pkg() != nil {
		switch n.Obj().Pkg().Path() {
		case "sync", "sync/atomic":
			return true
		}
	}
	return false
}

func runACC06(p *Prog, r *RuleRun) {
	v := newWalVocab(p)
	_, _, _, cl, rot := walRoots(p, v)
	if !checkWalAnchors(r, v, map[string]*ssa.Function{"Close": cl, "rotation goroutine": rot}) {
		return
	}
	roots := append(v.apiMethods(), cl, rot)
	// fields accessed through sync/atomic anywhere are ACC-01's business
	atomicFieldsSeen := map[*types.Var]bool{}
	for _, fn := range p.Funcs {
		for _, b := range fn.Blocks {
			for _, ins := range b.Instrs {
				if ci, ok := ins.(ssa.CallInstruction); ok && strings.HasPrefix(eventName(ci), "atomic.") && len(ci.Common().Args) > 0 {
					if fv := fieldOfAddr(ci.Common().Args[0]); fv != nil {
						atomicFieldsSeen[fv] = true
					}
				}
			}
		}
	}
	acc := map[*types.Var][]fieldAccess{}
	owner := map[*types.Var]string{}
	record := func(cx *Ctx, ins ssa.Instruction, fa *ssa.FieldAddr, write bool, f *Fact) {
		fv := fieldOfAddr(fa)
		if fv == nil || atomicFieldsSeen[fv] || isSyncType(fv.Type()) {
			return
		}
		// only fields of struct types declared in production packages (an anonymous
		// nested struct belongs to the named struct that contains it)
		var named *types.Named
		for cur := ssa.Value(fa); named == nil; {
			inner, ok := cur.(*ssa.FieldAddr)
			if !ok {
				break
			}
			base := inner.X.Type()
			if pt, ok := base.Underlying().(*types.Pointer); ok {
				base = pt.Elem()
			}
			if n, ok := base.(*types.Named); ok {
				named = n
				break
			}
			cur = inner.X
		}
		if named == nil || !p.IsProdPkg(named.Obj().Pkg()) {
			return
		}
		root := fa.X
		for {
			if inner, ok := root.(*ssa.FieldAddr); ok {
				root = inner.X
				continue
			}
			if inner, ok := root.(*ssa.IndexAddr); ok {
				root = inner.X
				continue
			}
			break
		}
		if staticFresh(fa.X, 0) || cx.Eval(root, f).K == avCell {
			return // object allocated on this call path, not yet shared
		}
		owner[fv] = typeShort(named) + "." + fv.Name()
		locks := map[string]bool{}
		for t := range f.Must {
			if strings.HasPrefix(t, "HELD:") {
				locks[t] = true
			}
		}
		acc[fv] = append(acc[fv], fieldAccess{write: write, held: f.Must["HELD"], locks: locks, root: funcDisplay(cx.Fr.Root().Fn), fn: funcDisplay(cx.Fr.Fn), pos: posOf(p, ins)})
	}
	spec := &OrdSpec{Name: "lockset",
		Call: func(cx *Ctx, ci ssa.CallInstruction) CallInfo {
			info := v.call(cx, ci)
			if info.Event == "LOCK" || info.Event == "UNLOCK" {
				return info
			}
			// any other mutex held in a struct field
			switch n := eventName(ci); n {
			case "sync.Mutex.Lock", "sync.RWMutex.Lock", "sync.RWMutex.RLock", "sync.Mutex.Unlock", "sync.RWMutex.Unlock", "sync.RWMutex.RUnlock":
				if len(ci.Common().Args) > 0 {
					if fv := fieldOfAddr(ci.Common().Args[0]); fv != nil {
						if strings.HasSuffix(n, "Lock") && !strings.HasSuffix(n, "Unlock") {
							return CallInfo{Event: "MLOCK:" + fv.Name(), Primitive: true}
						}
						return CallInfo{Event: "MUNLOCK:" + fv.Name(), Primitive: true}
					}
				}
			}
			return CallInfo{Inline: true}
		},
		OnEvent: func(cx *Ctx, ev, phase string, ins ssa.Instruction, f *Fact) {
			switch {
			case ev == "LOCK":
				f.Add("HELD", "HELD:writeMu")
			case ev == "UNLOCK":
				f.Drop("HELD", "HELD:writeMu")
			case strings.HasPrefix(ev, "MLOCK:") && phase == "call":
				f.Add("HELD:" + strings.TrimPrefix(ev, "MLOCK:"))
			case strings.HasPrefix(ev, "MUNLOCK:") && phase == "call":
				f.Drop("HELD:" + strings.TrimPrefix(ev, "MUNLOCK:"))
			}
		},
		Instr: func(cx *Ctx, ins ssa.Instruction, f *Fact) {
			switch x := ins.(type) {
			case *ssa.Store:
				if fa, ok := x.Addr.(*ssa.FieldAddr); ok {
					record(cx, ins, fa, true, f)
				}
			case *ssa.UnOp:
				if x.Op == token.MUL {
					if fa, ok := x.X.(*ssa.FieldAddr); ok {
						record(cx, ins, fa, false, f)
					}
				}
			}
		},
		MaxDepth: 20,
	}
	eng := newOrdEngine(p, spec)
	eng.MaxSteps = 30_000_000
	for _, root := range roots {
		eng.RunRoot(root, nil)
	}
	finishEngine(r, eng)
	var fields []*types.Var
	for fv := range acc {
		fields = append(fields, fv)
	}
	sort.Slice(fields, func(i, j int) bool { return owner[fields[i]] < owner[fields[j]] })
	nWritten := 0
	for _, fv := range fields {
		as := acc[fv]
		var writes []fieldAccess
		for _, a := range as {
			if a.write {
				writes = append(writes, a)
			}
		}
		if len(writes) == 0 {
			continue // read-only after construction
		}
		nWritten++
		key := owner[fv]
		var conflict string
		for _, w := range writes {
			for _, a := range as {
				common := false
				for l := range w.locks {
					if a.locks[l] {
						common = true
					}
				}
				if common {
					continue
				}
				conflict = fmt.Sprintf("written by %s (in %s at %s, locks held: %v) while %s %s it (in %s at %s, locks held: %v)",
					w.root, w.fn, w.pos, sortedKeys(w.locks), a.root, map[bool]string{true: "writes", false: "reads"}[a.write], a.fn, a.pos, sortedKeys(a.locks))
				break
			}
			if conflict != "" {
				break
			}
		}
		if conflict == "" {
			r.OK(key, writes[0].pos, fmt.Sprintf("%d accesses from API roots; every write shares a held mutex with every other access", len(as)))
		} else {
			r.Fail(key, writes[0].pos, "field "+key+" is shared between concurrent API calls without a common lock or atomic access: "+conflict+" — a data race, and the reader can observe the torn-down value")
		}
	}
	r.Stats["fields_touched_from_api_roots"] = len(fields)
	r.Stats["fields_written_after_construction"] = nWritten
}
