package main

import (
	"fmt"
	"go/types"
	"sort"
	"strings"

	"golang.org/x/tools/go/ssa"
)

func init() {
	register(&Rule{ID: "ACC-07", Title: "segment file lifecycle call sites: RecoverTail only on Open's path; segment handles are closed and files deleted only by finalizers (or by Open)",
		Props: []string{"C10", "C13", "C14", "C04", "C03"}, Floor: 5, Run: runACC07})
}

// runACC07 is a who-may-call check over the resolved program.
//
//	(a) SegmentFiler.RecoverTail adopts whatever file has the segment's name.  That is only sound for the one
//	    segment durable metadata already names as the unsealed tail, i.e. on Open's path.  Anywhere else (a
//	    post-commit step, a retry) it would adopt a file no committed state vouches for.
//	(b) A segment reader/writer may still be in use by a reader that pinned an older state.  The only code
//	    allowed to close one, or to delete a segment file, is a finalizer (run when the last pin is released)
//	    and what it calls - plus Open, where no reader exists yet.
func runACC07(p *Prog, r *RuleRun) {
	v := newWalVocab(p)
	open := p.Func("", "Open")
	if open == nil || !checkWalAnchors(r, v, nil) {
		r.Unknown("anchor", "?", "wal.Open not found")
		return
	}
	// API roots other than Open: exported methods of *WAL and every goroutine body
	var others []*ssa.Function
	for _, fn := range p.Funcs {
		if pkgRelOf(p, fn) != "" {
			continue
		}
		if recvTypeName(fn) == "wal.WAL" && fn.Object() != nil && fn.Object().Exported() {
			others = append(others, fn)
		}
		for _, b := range fn.Blocks {
			for _, ins := range b.Instrs {
				if g, ok := ins.(*ssa.Go); ok {
					if callee := g.Call.StaticCallee(); callee != nil {
						others = append(others, callee)
					} else if mc, ok := g.Call.Value.(*ssa.MakeClosure); ok {
						others = append(others, mc.Fn.(*ssa.Function))
					}
				}
			}
		}
	}
	rOther := p.reachableFuncs(others...)
	rOpen := p.reachableFuncs(open)
	// ---- (a)
	ord := ordinal{}
	nRecover := 0
	for _, fn := range p.Funcs {
		if pkgRelOf(p, fn) != "" {
			continue
		}
		for _, b := range fn.Blocks {
			for _, ins := range b.Instrs {
				ci, ok := ins.(ssa.CallInstruction)
				if !ok || eventName(ci) != "types.SegmentFiler.RecoverTail" {
					continue
				}
				nRecover++
				key := ord.next("RecoverTail@" + funcDisplay(fn))
				switch {
				case rOpen[fn] && !rOther[fn]:
					r.OK(key, posOf(p, ins), "tail recovery happens on Open's path only")
				default:
					r.Fail(key, posOf(p, ins), fmt.Sprintf("SegmentFiler.RecoverTail is called from %s, which runs outside Open (append / truncation / rotation path): an existing file that no committed metadata names is adopted as the new tail instead of being refused", funcDisplay(fn)))
				}
			}
		}
	}
	if nRecover == 0 {
		r.Unknown("RecoverTail:sites", p.Position(open.Pos()), "no SegmentFiler.RecoverTail call found in package wal")
	}
	// ---- (b) finalizer closures: func() values that reach FIN.Store or result #0 of a transaction body
	isFinalizer := map[*ssa.Function]bool{}
	for _, fn := range p.Funcs {
		if pkgRelOf(p, fn) != "" {
			continue
		}
		for _, b := range fn.Blocks {
			for _, ins := range b.Instrs {
				mc, ok := ins.(*ssa.MakeClosure)
				if !ok {
					continue
				}
				cl := mc.Fn.(*ssa.Function)
				if cl.Signature.Params().Len() != 0 || cl.Signature.Results().Len() != 0 {
					continue
				}
				if flowsToFinalizer(p, v, mc, fn, map[ssa.Value]bool{}) {
					isFinalizer[cl] = true
				}
			}
		}
	}
	// allowed = finalizer closures, Open and its closures, and named helpers all of whose callers are allowed
	allowed := map[*ssa.Function]bool{}
	for fn := range isFinalizer {
		allowed[fn] = true
	}
	for fn := range rOpen {
		if fn == open || fn.Parent() == open {
			allowed[fn] = true
		}
	}
	callers := map[*ssa.Function][]*ssa.Function{}
	for _, fn := range p.Funcs {
		if pkgRelOf(p, fn) != "" {
			continue
		}
		for _, b := range fn.Blocks {
			for _, ins := range b.Instrs {
				if ci, ok := ins.(ssa.CallInstruction); ok {
					if callee := ci.Common().StaticCallee(); callee != nil && pkgRelOf(p, callee) == "" {
						callers[callee] = append(callers[callee], fn)
					}
				}
			}
		}
	}
	for changed := true; changed; {
		changed = false
		for callee, cs := range callers {
			if allowed[callee] || len(cs) == 0 || callee.Parent() != nil {
				continue
			}
			all := true
			for _, c := range cs {
				if !allowed[c] {
					all = false
				}
			}
			if all {
				allowed[callee] = true
				changed = true
			}
		}
	}
	isSegHandle := func(t types.Type) bool {
		s := t.String()
		return strings.HasSuffix(s, "types.SegmentReader") || strings.HasSuffix(s, "types.SegmentWriter") || s == "io.Closer" || strings.HasSuffix(s, "wal.tailWriter")
	}
	nSites := 0
	var fins []string
	for fn := range isFinalizer {
		fins = append(fins, funcDisplay(fn))
		r.OK("finalizer:"+funcDisplay(fn), p.Position(fn.Pos()), "closure handed to the finalizer slot / returned as a transaction's finalizer: runs once the last pin of the old state is released")
	}
	sort.Strings(fins)
	for _, fn := range p.Funcs {
		if pkgRelOf(p, fn) != "" {
			continue
		}
		for _, b := range fn.Blocks {
			for _, ins := range b.Instrs {
				ci, ok := ins.(ssa.CallInstruction)
				if !ok {
					continue
				}
				cc := ci.Common()
				what := ""
				switch {
				case eventName(ci) == "types.SegmentFiler.Delete":
					what = "SegmentFiler.Delete"
				case cc.IsInvoke() && cc.Method.Name() == "Close" && isSegHandle(cc.Value.Type()):
					what = "Close of a segment handle (" + cc.Value.Type().String()[strings.LastIndex(cc.Value.Type().String(), "/")+1:] + ")"
				default:
					continue
				}
				nSites++
				key := ord.next(what + "@" + funcDisplay(fn))
				if allowed[fn] {
					r.OK(key, posOf(p, ins), "runs only as part of a finalizer (after the last reader of the old state released it) or inside Open")
				} else {
					r.Fail(key, posOf(p, ins), fmt.Sprintf("%s in %s runs outside any finalizer: a reader that pinned the state before this call can still be using the segment (read of a closed file / deleted segment); only finalizers %v and Open may do this", what, funcDisplay(fn), fins))
				}
			}
		}
	}
	if nSites == 0 || len(isFinalizer) == 0 {
		r.Unknown("finalizers", p.Position(open.Pos()), fmt.Sprintf("%d close/delete sites and %d finalizer closures found in package wal", nSites, len(isFinalizer)))
	}
	r.Stats["finalizer_closures"] = len(isFinalizer)
	r.Stats["close_delete_sites"] = nSites
}

// flowsToFinalizer: does value val (in fn) reach the finalizer slot (FIN.Store) or result #0 of a transaction body?
func flowsToFinalizer(p *Prog, v *walVocab, val ssa.Value, fn *ssa.Function, seen map[ssa.Value]bool) bool {
	if seen[val] {
		return false
	}
	seen[val] = true
	refs := val.Referrers()
	if refs == nil {
		return false
	}
	for _, ref := range *refs {
		switch x := ref.(type) {
		case *ssa.Return:
			if v.isTxnSig(fn.Signature) && len(x.Results) > 0 && x.Results[0] == val {
				return true
			}
			// a helper that builds the closure: follow its result at every call site
			for ri, res := range x.Results {
				if res != val || v.isTxnSig(fn.Signature) {
					continue
				}
				for _, caller := range p.Funcs {
					if pkgRelOf(p, caller) != "" {
						continue
					}
					for _, b := range caller.Blocks {
						for _, ins := range b.Instrs {
							c, ok := ins.(*ssa.Call)
							if !ok || c.Call.StaticCallee() != fn {
								continue
							}
							if len(x.Results) == 1 {
								if flowsToFinalizer(p, v, c, caller, seen) {
									return true
								}
								continue
							}
							for _, r2 := range *c.Referrers() {
								if ex, ok := r2.(*ssa.Extract); ok && ex.Index == ri && flowsToFinalizer(p, v, ex, caller, seen) {
									return true
								}
							}
						}
					}
				}
			}
		case *ssa.Phi:
			if flowsToFinalizer(p, v, x, fn, seen) {
				return true
			}
		case *ssa.MakeInterface:
			if flowsToFinalizer(p, v, x, fn, seen) {
				return true
			}
		case *ssa.ChangeType:
			if flowsToFinalizer(p, v, x, fn, seen) {
				return true
			}
		case *ssa.Store:
			// through a local variable (possibly shared with closures)
			if x.Val == val {
				if al, ok := x.Addr.(*ssa.Alloc); ok {
					for _, r2 := range *al.Referrers() {
						if ld, ok := r2.(*ssa.UnOp); ok && flowsToFinalizer(p, v, ld, fn, seen) {
							return true
						}
					}
				}
			}
		case ssa.CallInstruction:
			cc := x.Common()
			if eventName(x) == "atomic.Value.Store" && len(cc.Args) == 2 && cc.Args[1] == val && fieldOfAddr(cc.Args[0]) == v.finalizer {
				return true
			}
		}
	}
	return false
}
