package main

import (
	"golang.org/x/tools/go/ssa"
)

func init() {
	register(&Rule{ID: "ACC-08", Title: "writeMu pairing: never locked while held, never unlocked while free, released on every exit of every function that takes it",
		Props: []string{"C14", "C03", "C06", "C10"}, Floor: 8, Run: runACC08})
}

// sync.Mutex is not re-entrant and has no owner: a path that returns with the lock held blocks every later
// writer (and Close) forever; a second Lock on the same path deadlocks on the spot; an Unlock of a free mutex
// panics.  Typestate over every path of the functions that lock writeMu themselves, callees inlined (so the
// temporary release inside awaitRotationLocked is followed), deferred unlocks replayed at the returns.
func runACC08(p *Prog, r *RuleRun) {
	v := newWalVocab(p)
	if !checkWalAnchors(r, v, nil) {
		return
	}
	var roots []*ssa.Function
	for _, fn := range p.Funcs {
		if pkgRelOf(p, fn) != "" || fn.Parent() != nil {
			continue
		}
		if bodyHas(fn, func(ins ssa.Instruction) bool {
			ci, ok := ins.(ssa.CallInstruction)
			if !ok || len(ci.Common().Args) == 0 {
				return false
			}
			return eventName(ci) == "sync.Mutex.Lock" && fieldOfAddr(ci.Common().Args[0]) == v.writeMu
		}) {
			roots = append(roots, fn)
		}
	}
	// a locker that another locker calls (awaitRotationLocked: releases and re-takes the lock it is entered
	// with) is analysed inlined in its callers, not on its own
	goBodies := map[*ssa.Function]bool{}
	for _, fn := range p.Funcs {
		for _, b := range fn.Blocks {
			for _, ins := range b.Instrs {
				if g, ok := ins.(*ssa.Go); ok {
					if callee := g.Call.StaticCallee(); callee != nil {
						goBodies[callee] = true
					}
				}
			}
		}
	}
	var top []*ssa.Function
	for _, fn := range roots {
		if goBodies[fn] {
			top = append(top, fn) // a goroutine body starts with the lock free, whoever started it
			continue
		}
		nested := false
		for _, other := range roots {
			if other != fn && p.reachableFuncs(other)[fn] {
				nested = true
			}
		}
		if !nested {
			top = append(top, fn)
		}
	}
	roots = top
	if len(roots) < 3 {
		r.Unknown("anchor:lockers", "?", "fewer than three functions lock writeMu")
		return
	}
	for _, root := range roots {
		spec := v.baseSpec("writeMu-pairing")
		spec.OnEvent = func(cx *Ctx, ev, phase string, ins ssa.Instruction, f *Fact) {
			if phase != "call" {
				return
			}
			switch ev {
			case "LOCK":
				r.Check(f.TS["mu"] != "held", cx.Key(ins, "lock"), posOf(p, ins), "writeMu is free when it is locked here",
					"writeMu is locked on a path that already holds it (sync.Mutex is not re-entrant: the goroutine deadlocks on itself and every later writer and Close hang); via "+cx.Fr.Stack()+"; path: "+trace(f))
				f.TS["mu"] = "held"
			case "UNLOCK":
				r.Check(f.TS["mu"] == "held", cx.Key(ins, "unlock"), posOf(p, ins), "writeMu is held when it is unlocked here",
					"writeMu is unlocked on a path that does not hold it (runtime panic: unlock of unlocked mutex, or another goroutine's critical section is opened up); via "+cx.Fr.Stack()+"; path: "+trace(f))
				delete(f.TS, "mu")
			case "RECV(trigger)":
				r.Check(f.TS["mu"] != "held", cx.Key(ins, "wait"), posOf(p, ins), "the goroutine does not wait for the next trigger with writeMu held",
					"the rotation goroutine goes back to waiting for a trigger while it still holds writeMu: every writer and Close block forever; path: "+trace(f))
			}
		}
		base := v.instr
		spec.Instr = func(cx *Ctx, ins ssa.Instruction, f *Fact) {
			base(cx, ins, f)
		}
		spec.OnReturn = func(cx *Ctx, ret *ssa.Return, class RetClass, f *Fact) {
			r.Check(f.TS["mu"] != "held", cx.Key(ret, "exit"), posOf(p, ret), "writeMu is released when "+funcDisplay(root)+" returns here",
				funcDisplay(root)+" returns with writeMu still held (an early return without the unlock): the next StoreLogs, DeleteRange, rotation or Close blocks forever; path: "+trace(f))
		}
		eng := newOrdEngine(p, spec)
		eng.RunRoot(root, nil)
		finishEngine(r, eng)
	}
}
