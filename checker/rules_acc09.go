package main

import (
	"fmt"
	"go/token"
	"go/types"
	"sort"
	"strings"

	"golang.org/x/tools/go/ssa"
)

// ACC-09: the read paths write nothing that another reader can see.
//
// GetLog / FirstIndex / LastIndex run concurrently with each other and with the
// writer, holding no lock.  That is only safe because everything they write is
// either private to the call (locals, buffers taken from the pool, objects they
// allocate), owned by the caller (the *raft.Log result parameter), or written
// through sync/atomic.  A scratch buffer kept in a struct that several readers
// share (a Reader, the state, the WAL) is a data race and, worse, makes one
// reader decode another reader's bytes.
//
// For every plain memory write in the production functions reachable from those
// three methods (stores, map updates, and the destination arguments of ReadAt /
// copy / PutUintN), the written object must be attributable to one of the three
// private classes.  Parameters are resolved through all call sites on those paths.
func init() {
	register(&Rule{ID: "ACC-09", Title: "read paths (GetLog / FirstIndex / LastIndex) write only call-private or caller-owned memory, everything else through sync/atomic",
		Props: []string{"C06"}, Floor: 5, Run: runACC09})
}

type acc09Class int

const (
	accFresh acc09Class = iota
	accCaller
	accShared
)

func (c acc09Class) String() string { return [...]string{"private", "caller-owned", "shared"}[c] }

func runACC09(p *Prog, r *RuleRun) {
	var roots []*ssa.Function
	for _, n := range []string{"GetLog", "FirstIndex", "LastIndex"} {
		if fn := p.Func("", "WAL."+n); fn != nil {
			roots = append(roots, fn)
		}
	}
	if len(roots) != 3 {
		r.Unknown("anchor", "?", "(*WAL).GetLog / FirstIndex / LastIndex not found")
		return
	}
	isRoot := map[*ssa.Function]bool{}
	for _, fn := range roots {
		isRoot[fn] = true
	}
	// reachable production functions; calls of plain func() values (finalizers, pooled-buffer closers) are the
	// clean-up hooks of other rules (ORD-13, VF-22) and are not followed
	reach := map[*ssa.Function]bool{}
	type site struct {
		caller *ssa.Function
		call   ssa.CallInstruction
	}
	callers := map[*ssa.Function][]site{}
	var visit func(fn *ssa.Function)
	visit = func(fn *ssa.Function) {
		if reach[fn] || fn.Blocks == nil {
			return
		}
		reach[fn] = true
		for _, b := range fn.Blocks {
			for _, ins := range b.Instrs {
				ci, ok := ins.(ssa.CallInstruction)
				if !ok {
					continue
				}
				if _, isGo := ins.(*ssa.Go); isGo {
					continue
				}
				cc := ci.Common()
				var cs []*ssa.Function
				if sc := cc.StaticCallee(); sc != nil {
					cs = []*ssa.Function{sc}
				} else if cc.IsInvoke() {
					cs = p.cgCalleesOf(fn, ci)
				} else if mc, ok := cc.Value.(*ssa.MakeClosure); ok {
					cs = []*ssa.Function{mc.Fn.(*ssa.Function)}
				}
				for _, c := range cs {
					if p.IsProdFunc(c) {
						callers[c] = append(callers[c], site{fn, ci})
						visit(c)
					}
				}
			}
		}
	}
	for _, fn := range roots {
		visit(fn)
	}
	// returnsFresh: every value a function returns at index i is allocated inside it
	var classify func(fn *ssa.Function, v ssa.Value, depth int) (acc09Class, string)
	retMemo := map[string]acc09Class{}
	returnsClass := func(fn *ssa.Function, idx int, depth int) acc09Class {
		k := fmt.Sprintf("%p/%d", fn, idx)
		if c, ok := retMemo[k]; ok {
			return c
		}
		retMemo[k] = accShared // recursion guard
		worst := accFresh
		for _, b := range fn.Blocks {
			if ret, ok := b.Instrs[len(b.Instrs)-1].(*ssa.Return); ok && idx < len(ret.Results) {
				c, _ := classify(fn, ret.Results[idx], depth+1)
				if c > worst {
					worst = c
				}
			}
		}
		retMemo[k] = worst
		return worst
	}
	prmMemo := map[string]acc09Class{}
	paramClass := func(fn *ssa.Function, idx int, depth int) (acc09Class, string) {
		if isRoot[fn] {
			if fn.Signature.Recv() != nil && idx == 0 {
				return accShared, "the WAL itself"
			}
			return accCaller, "a parameter of the API call (owned by the caller)"
		}
		k := fmt.Sprintf("%p/%d", fn, idx)
		if c, ok := prmMemo[k]; ok {
			return c, "parameter"
		}
		prmMemo[k] = accFresh // optimistic for recursion
		worst, why := accFresh, "every caller passes private memory"
		if len(callers[fn]) == 0 {
			worst, why = accShared, "no call site found"
		}
		for _, s := range callers[fn] {
			cc := s.call.Common()
			args := cc.Args
			var arg ssa.Value
			if cc.IsInvoke() {
				if idx == 0 {
					arg = cc.Value
				} else if idx-1 < len(args) {
					arg = args[idx-1]
				}
			} else if idx < len(args) {
				arg = args[idx]
			}
			if arg == nil {
				worst, why = accShared, "call site without a matching argument"
				continue
			}
			c, w := classify(s.caller, arg, depth+1)
			if c > worst {
				worst, why = c, w+" (passed by "+funcDisplay(s.caller)+")"
			}
		}
		prmMemo[k] = worst
		return worst, why
	}
	classify = func(fn *ssa.Function, v ssa.Value, depth int) (acc09Class, string) {
		if depth > 24 || v == nil {
			return accShared, "too deep to attribute"
		}
		switch x := v.(type) {
		case *ssa.Const:
			return accFresh, "constant"
		case *ssa.Alloc:
			return accFresh, "allocated in " + funcDisplay(fn)
		case *ssa.MakeSlice, *ssa.MakeMap, *ssa.MakeChan, *ssa.MakeClosure:
			return accFresh, "made in " + funcDisplay(fn)
		case *ssa.Global:
			return accShared, "package-level variable " + x.Name()
		case *ssa.Parameter:
			for i, prm := range fn.Params {
				if prm == x {
					return paramClass(fn, i, depth)
				}
			}
		case *ssa.FreeVar:
			// a captured variable of the enclosing function: classify its binding at the closure's creation
			if par := fn.Parent(); par != nil {
				for _, b := range par.Blocks {
					for _, ins := range b.Instrs {
						if mc, ok := ins.(*ssa.MakeClosure); ok && mc.Fn == ssa.Value(fn) {
							for i, fv := range fn.FreeVars {
								if fv == x && i < len(mc.Bindings) {
									return classify(par, mc.Bindings[i], depth+1)
								}
							}
						}
					}
				}
			}
			return accShared, "captured variable"
		case *ssa.FieldAddr:
			return classify(fn, x.X, depth+1)
		case *ssa.Field:
			return classify(fn, x.X, depth+1)
		case *ssa.IndexAddr:
			return classify(fn, x.X, depth+1)
		case *ssa.Index:
			return classify(fn, x.X, depth+1)
		case *ssa.Slice:
			return classify(fn, x.X, depth+1)
		case *ssa.UnOp:
			if x.Op == token.MUL {
				// what a pointer stored in a private object points to was put there by this call tree
				// only if the stored values are private too
				if al, ok := x.X.(*ssa.Alloc); ok {
					worst, why := accFresh, "local variable"
					for _, ref := range *al.Referrers() {
						if st, ok := ref.(*ssa.Store); ok && st.Addr == ssa.Value(al) {
							if c, w := classify(fn, st.Val, depth+1); c > worst {
								worst, why = c, w
							}
						}
					}
					return worst, why
				}
				return classify(fn, x.X, depth+1)
			}
		case *ssa.Phi:
			worst, why := accFresh, "all incoming values private"
			for _, e := range x.Edges {
				if c, w := classify(fn, e, depth+1); c > worst {
					worst, why = c, w
				}
			}
			return worst, why
		case *ssa.ChangeType:
			return classify(fn, x.X, depth+1)
		case *ssa.Convert:
			return classify(fn, x.X, depth+1)
		case *ssa.ChangeInterface:
			return classify(fn, x.X, depth+1)
		case *ssa.MakeInterface:
			return classify(fn, x.X, depth+1)
		case *ssa.TypeAssert:
			return classify(fn, x.X, depth+1)
		case *ssa.Extract:
			if c, ok := x.Tuple.(*ssa.Call); ok {
				if callee := c.Call.StaticCallee(); callee != nil && p.IsProdFunc(callee) && callee.Blocks != nil {
					return returnsClass(callee, x.Index, depth), "result of " + funcDisplay(callee)
				}
				return accShared, "result of " + eventName(c)
			}
		case *ssa.Call:
			n := eventName(x)
			if n == "sync.Pool.Get" {
				return accFresh, "taken from the buffer pool"
			}
			if isBuiltinCall(x, "append") && len(x.Call.Args) > 0 {
				return classify(fn, x.Call.Args[0], depth+1)
			}
			if callee := x.Call.StaticCallee(); callee != nil && p.IsProdFunc(callee) && callee.Blocks != nil {
				return returnsClass(callee, 0, depth), "result of " + funcDisplay(callee)
			}
			if callee := x.Call.StaticCallee(); callee != nil && !p.IsProdFunc(callee) {
				// constructors / iterators of libraries hand out new objects
				if strings.HasSuffix(n, ".Iterator") || strings.HasPrefix(callee.Name(), "New") {
					return accFresh, "new object from " + n
				}
			}
			return accShared, "result of " + n
		}
		return accShared, fmt.Sprintf("%T the analysis cannot attribute", v)
	}
	var fns []*ssa.Function
	for fn := range reach {
		fns = append(fns, fn)
	}
	sort.Slice(fns, func(i, j int) bool { return fns[i].String() < fns[j].String() })
	r.Stats["functions_on_read_paths"] = len(fns)
	nSinks := 0
	for _, fn := range fns {
		ord := ordinal{}
		for _, b := range fn.Blocks {
			for _, ins := range b.Instrs {
				var target ssa.Value
				what := ""
				switch x := ins.(type) {
				case *ssa.Store:
					if _, isAlloc := x.Addr.(*ssa.Alloc); isAlloc {
						continue // a local variable
					}
					target, what = x.Addr, "store"
					if fv := fieldOfAddr(x.Addr); fv != nil {
						what = "store(" + fv.Name() + ")"
					}
				case *ssa.MapUpdate:
					target, what = x.Map, "map-update"
				case *ssa.Call:
					n := eventName(x)
					switch {
					case strings.HasSuffix(n, ".ReadAt") && len(x.Call.Args) >= 1:
						target, what = x.Call.Args[0], "ReadAt-into"
					case isBuiltinCall(x, "copy"):
						target, what = x.Call.Args[0], "copy-into"
					case strings.HasPrefix(n, "binary.") && strings.Contains(n, ".PutUint"):
						target, what = x.Call.Args[len(x.Call.Args)-2], "PutUint-into"
					case isBuiltinCall(x, "clear"):
						target, what = x.Call.Args[0], "clear"
					}
				}
				if target == nil {
					continue
				}
				nSinks++
				key := ord.next(funcDisplay(fn) + ":" + what)
				c, why := classify(fn, target, 0)
				if c == accShared {
					r.Fail(key, posOf(p, ins), fmt.Sprintf("a read path writes memory that is shared between concurrent readers (%s in %s targets %s): two GetLog calls overlap freely, so one reader's bytes are overwritten by another's (wrong entry returned) and the access is a data race", what, funcDisplay(fn), why))
				} else {
					r.OK(key, posOf(p, ins), fmt.Sprintf("%s targets %s memory (%s)", what, c, why))
				}
			}
		}
	}
	r.Stats["write_sites"] = nSinks
	_ = types.Typ
}

// cgCalleesOf: the callees the call graph gives for a call site of fn.
func (p *Prog) cgCalleesOf(fn *ssa.Function, ci ssa.CallInstruction) []*ssa.Function {
	if p.CG == nil {
		return nil
	}
	n := p.CG.Nodes[fn]
	if n == nil {
		return nil
	}
	seen := map[*ssa.Function]bool{}
	var out []*ssa.Function
	for _, ed := range n.Out {
		if ed.Site == ci && !seen[ed.Callee.Func] {
			seen[ed.Callee.Func] = true
			out = append(out, ed.Callee.Func)
		}
	}
	sort.Slice(out, func(i, j int) bool { return out[i].String() < out[j].String() })
	return out
}
