package main

import (
	"sort"
	"strings"

	"golang.org/x/tools/go/ssa"
)

// ACC-10: the stable store keeps no state of its own inside the WAL.
//
// Set / Get / SetUint64 / GetUint64 are pass-throughs to the MetaStore: bolt's
// transactions are what makes "Get returns the latest successful Set" true
// across interleavings and reopens.  Any copy of stable values kept in the WAL
// (a mirror map filled after the commit and consulted before the read) is a
// second source of truth whose updates are not ordered with bolt's commits: a
// slow Get can overwrite the mirror with the value it read before a Set
// committed, and every later Get reports the old value until restart.  So on
// the stable paths nothing is written into the WAL object: no field store, no
// map update, no mutating call (Store, Delete, Swap, ...) on one of its fields.
// (Metrics go through the metrics.Collector interface, not through WAL memory.)
// A deliberate, correctly locked cache would need this rule replaced by a lock
// discipline for the pair (commit, mirror update); see DESIGN.md.
func init() {
	register(&Rule{ID: "ACC-10", Title: "stable store operations write nothing into the WAL object (no mirror of stable values beside the MetaStore)",
		Props: []string{"C08"}, Floor: 4, Run: runACC10})
}

func runACC10(p *Prog, r *RuleRun) {
	v := newWalVocab(p)
	if !checkWalAnchors(r, v, nil) {
		return
	}
	mutating := map[string]bool{"Store": true, "Delete": true, "Swap": true, "LoadOrStore": true, "LoadAndDelete": true, "CompareAndSwap": true, "CompareAndDelete": true, "Clear": true, "Add": true}
	isWalObj := func(val ssa.Value) bool {
		for i := 0; i < 6; i++ {
			switch x := val.(type) {
			case *ssa.FieldAddr:
				val = x.X
				continue
			case *ssa.UnOp:
				val = x.X
				continue
			case *ssa.IndexAddr:
				val = x.X
				continue
			}
			break
		}
		t := val.Type()
		return isNamed(derefType(t), ModPath, "WAL")
	}
	for _, name := range []string{"Set", "Get", "SetUint64", "GetUint64"} {
		root := p.Func("", "WAL."+name)
		if root == nil {
			r.Unknown("anchor:WAL."+name, "?", "method not found")
			continue
		}
		var bad []string
		var fns []*ssa.Function
		for fn := range p.reachableFuncs(root) {
			if pkgRelOf(p, fn) == "" {
				fns = append(fns, fn)
			}
		}
		sort.Slice(fns, func(i, j int) bool { return fns[i].String() < fns[j].String() })
		for _, fn := range fns {
			for _, b := range fn.Blocks {
				for _, ins := range b.Instrs {
					switch x := ins.(type) {
					case *ssa.Store:
						if fa, ok := x.Addr.(*ssa.FieldAddr); ok && isWalObj(fa.X) {
							bad = append(bad, "store to WAL."+fieldOfAddr(fa).Name()+" at "+posOf(p, x))
						}
					case *ssa.MapUpdate:
						if isWalObj(x.Map) {
							bad = append(bad, "map update on a WAL field at "+posOf(p, x))
						}
					case *ssa.Call:
						callee := x.Call.StaticCallee()
						if callee == nil || len(x.Call.Args) == 0 || p.IsProdFunc(callee) {
							continue
						}
						n := callee.Name()
						if i := strings.Index(n, "["); i >= 0 {
							n = n[:i]
						}
						if fa, ok := x.Call.Args[0].(*ssa.FieldAddr); ok && isWalObj(fa.X) && mutating[n] && !strings.HasPrefix(eventName(x), "atomic.") {
							bad = append(bad, eventName(x)+" on WAL."+fieldOfAddr(fa).Name()+" at "+posOf(p, x))
						}
					}
				}
			}
		}
		r.Check(len(bad) == 0, "(*wal.WAL)."+name+":no-wal-state", p.Position(root.Pos()), name+" writes nothing into the WAL object: the MetaStore is the only holder of stable values",
			name+" keeps state in the WAL object ("+strings.Join(bad, "; ")+"): a copy of stable values beside the MetaStore is updated outside bolt's transaction order, so a Get overlapping a Set (or two overlapping Sets) can leave the copy older than the store and every later Get returns a value that is not the latest successful Set")
	}
}
