package main

import (
	"fmt"
	"go/token"
	"go/types"
	"sort"
	"strings"

	"golang.org/x/tools/go/ssa"
)

func init() {
	register(&Rule{ID: "FD-01", Title: "DeleteRange classification equals the prefix/suffix/middle/no-op model for every weak ordering of min,max,first,last",
		Props: []string{"C04", "C05"}, Floor: 1, Run: runFD01})
	register(&Rule{ID: "FD-02", Title: "lookup bound polarity: 'not found' exactly below the lower and above the upper bound in every lookup function",
		Props: []string{"C05", "C06", "C10"}, Floor: 4, Run: runFD02})
	register(&Rule{ID: "FD-04", Title: "frame arithmetic: padding in [0,7], encoded size a multiple of 8 and >= 8; scan loops advance by it",
		Props: []string{"C01", "C02", "C09", "C11"}, Floor: 3, Run: runFD04})
	register(&Rule{ID: "FD-05", Title: "loop shapes: verifier read-back covers [Start,End); CopyLogs covers [first,last]",
		Props: []string{"C17", "C19"}, Floor: 2, Run: runFD05})
	register(&Rule{ID: "FD-07", Title: "monotonic append: exactly index != last+1 is refused (WAL) and index != BaseIndex+len(offsets) (segment)",
		Props: []string{"C05"}, Floor: 2, Run: runFD07})
	register(&Rule{ID: "FD-08", Title: "verifier comparisons have exactly the stated polarity",
		Props: []string{"C16", "C17"}, Floor: 3, Run: runFD08})
	register(&Rule{ID: "FD-06", Title: "codec-ID gates: reserved IDs rejected before anything is opened; foreign persisted codec refused before the segment is opened",
		Props: []string{"C12"}, Floor: 2, Run: runFD06})
}

// fieldLoadName: v is a load of (or Field selection of) a struct field; returns its name.
func fieldLoadName(v ssa.Value) string {
	switch x := v.(type) {
	case *ssa.UnOp:
		if x.Op == token.MUL {
			if fv := fieldOfAddr(x.X); fv != nil {
				return fv.Name()
			}
		}
	case *ssa.Field:
		if fv := fieldOfAddr(x); fv != nil {
			return fv.Name()
		}
	}
	return ""
}

// allPathsStoreMismatch: every path from b to a return stores an ErrChecksumMismatch into an Err field.
func allPathsStoreMismatch(b *ssa.BasicBlock) bool {
	seen := map[*ssa.BasicBlock]bool{}
	var walk func(x *ssa.BasicBlock) bool
	walk = func(x *ssa.BasicBlock) bool {
		if seen[x] {
			return true
		}
		seen[x] = true
		for _, ins := range x.Instrs {
			if st, ok := ins.(*ssa.Store); ok {
				if fv := fieldOfAddr(st.Addr); fv != nil && fv.Name() == "Err" {
					if mi, ok := st.Val.(*ssa.MakeInterface); ok && strings.Contains(mi.X.Type().String(), "ErrChecksumMismatch") {
						return true
					}
				}
			}
			if _, ok := ins.(*ssa.Return); ok {
				return false
			}
		}
		for _, s := range x.Succs {
			if !walk(s) {
				return false
			}
		}
		return len(x.Succs) > 0
	}
	return walk(b)
}

// fieldBase returns the struct (pointer) value whose field v loads.
func fieldBase(v ssa.Value) ssa.Value {
	switch x := v.(type) {
	case *ssa.UnOp:
		if fa, ok := x.X.(*ssa.FieldAddr); ok && x.Op == token.MUL {
			return fa.X
		}
	case *ssa.Field:
		return x.X
	}
	return nil
}

// paramIndexOf: index of the parameter base denotes (directly, loaded from or being its spill slot), or -1.
func paramIndexOf(fn *ssa.Function, base ssa.Value) int {
	if u, ok := base.(*ssa.UnOp); ok && u.Op == token.MUL {
		base = u.X
	}
	if al, ok := base.(*ssa.Alloc); ok {
		for _, ref := range *al.Referrers() {
			if st, ok := ref.(*ssa.Store); ok && st.Addr == al {
				base = st.Val
				break
			}
		}
	}
	for i, prm := range fn.Params {
		if prm == base {
			return i
		}
	}
	return -1
}

// ---------------------------------------------------------------- FD-01

// prog01 remembers, per analysed program, the argument conventions FD-01 observed (HEAD: arg-max, TAIL: arg-min).
var prog01 map[*Prog]map[string]int64

// truncationArgOffsets returns the offsets FD-01 observed, running FD-01's enumeration if it has not run yet.
func truncationArgOffsets(p *Prog) (head, tail int64, ok bool) {
	if prog01 == nil || prog01[p] == nil {
		rr := newRuleRun(&Rule{ID: "FD-01"}, "quick")
		runFD01(p, rr)
	}
	m := prog01[p]
	if m == nil {
		return 0, 0, false
	}
	h, ok1 := m["HEAD"]
	t, ok2 := m["TAIL"]
	return h, t, ok1 && ok2
}

func runFD01(p *Prog, r *RuleRun) {
	fn := p.Func("", "WAL.DeleteRange")
	firstFn, lastFn := p.Func("", "state.firstIndex"), p.Func("", "state.lastIndex")
	minF := p.Field("types", "SegmentInfo", "MinIndex")
	maxF := p.Field("types", "SegmentInfo", "MaxIndex")
	if fn == nil || firstFn == nil || lastFn == nil || minF == nil || maxF == nil {
		r.Unknown("anchor", "?", "DeleteRange / state.firstIndex / state.lastIndex not found")
		return
	}
	// classify truncation helpers by what their transaction writes
	kindOf := map[*ssa.Function]string{}
	classify := func(callee *ssa.Function) string {
		if k, ok := kindOf[callee]; ok {
			return k
		}
		setsMin, setsMax, seals := false, false, false
		own := map[*ssa.Function]bool{callee: true}
		var addClosures func(f *ssa.Function)
		addClosures = func(f *ssa.Function) {
			for _, af := range f.AnonFuncs {
				if !own[af] {
					own[af] = true
					addClosures(af)
				}
			}
		}
		addClosures(callee)
		for g := range own {
			for _, b := range g.Blocks {
				for _, ins := range b.Instrs {
					if st, ok := ins.(*ssa.Store); ok {
						switch fieldOfAddr(st.Addr) {
						case minF:
							setsMin = true
						case maxF:
							setsMax = true
						}
					}
					if ci, ok := ins.(ssa.CallInstruction); ok && eventName(ci) == "types.SegmentWriter.ForceSeal" {
						seals = true
					}
				}
			}
		}
		k := ""
		switch {
		case setsMax && seals:
			k = "TAIL"
		case setsMin:
			k = "HEAD"
		}
		kindOf[callee] = k
		return k
	}
	var uparams []*ssa.Parameter
	for _, prm := range fn.Params {
		if b, ok := prm.Type().Underlying().(*types.Basic); ok && b.Kind() == types.Uint64 {
			uparams = append(uparams, prm)
		}
	}
	if len(uparams) != 2 {
		r.Unknown("anchor:params", p.Position(fn.Pos()), "DeleteRange does not have exactly two uint64 parameters")
		return
	}
	spec := &fdSpec{
		Symbol: func(v ssa.Value) string {
			switch x := v.(type) {
			case *ssa.Parameter:
				if x == uparams[0] {
					return "min"
				}
				if x == uparams[1] {
					return "max"
				}
			case *ssa.Call:
				switch x.Call.StaticCallee() {
				case firstFn:
					return "first"
				case lastFn:
					return "last"
				}
			}
			return ""
		},
		Return: func(ret *ssa.Return, res []ssa.Value, eval func(ssa.Value) fdVal) string {
			v := res[len(res)-1]
			if c, ok := v.(*ssa.Call); ok {
				if callee := c.Call.StaticCallee(); callee != nil {
					if k := classify(callee); k != "" {
						arg := eval(c.Call.Args[len(c.Call.Args)-1])
						if !arg.known {
							return k + "(?)"
						}
						return fmt.Sprintf("%s(%d)", k, arg.n)
					}
					if strings.Contains(eventName(c), "checkClosed") {
						return "closed"
					}
				}
			}
			if ex, ok := v.(*ssa.UnOp); ok && ex.Op == token.MUL {
				return "closed?"
			}
			l := errLabel(v)
			switch l {
			case "nil":
				return "NOOP"
			case "error":
				return "ERROR"
			}
			if strings.HasPrefix(l, "call:") && strings.Contains(l, "checkClosed") {
				return "closed"
			}
			return l
		},
	}
	names := []string{"min", "max", "first", "last"}
	orderings := map[string]bool{}
	var bad []string
	outcomes := map[string]int{}
	deltas := map[string]map[int64]bool{}
	n := enumAssignments(names, 0, 6, func(a map[string]int64) bool {
		return a["min"] >= 1 && a["first"] <= a["last"] && (a["first"] == 0) == (a["last"] == 0)
	}, func(a map[string]int64) {
		orderings[orderingSig(a, names)] = true
		var want string
		switch {
		case a["min"] > a["max"]:
			want = "NOOP"
		case a["first"] == 0, a["max"] < a["first"], a["min"] > a["last"]:
			want = "NOOP"
		case a["min"] <= a["first"]:
			want = "HEAD"
		case a["max"] >= a["last"]:
			want = "TAIL"
		default:
			want = "ERROR"
		}
		got := map[string]bool{}
		for _, t := range fdRun(fn, spec, a) {
			parts := strings.Split(t, " > ")
			last := parts[len(parts)-1]
			if last == "closed" || last == "closed?" || strings.HasPrefix(last, "err-of:") || strings.HasPrefix(last, "call:") {
				continue // closed-check exits
			}
			// the helper's argument is a fixed offset from max (head) / min (tail); which offset is the helper's
			// own convention and is checked against the helper's decisions by FD-09
			if k, rest, ok := strings.Cut(last, "("); ok && (k == "HEAD" || k == "TAIL") {
				var n int64
				if _, err := fmt.Sscanf(rest, "%d)", &n); err != nil {
					last = k + "(argument not derived from min/max)"
				} else {
					d := n - a["max"]
					if k == "TAIL" {
						d = n - a["min"]
					}
					if deltas[k] == nil {
						deltas[k] = map[int64]bool{}
					}
					deltas[k][d] = true
					last = k
				}
			}
			got[last] = true
		}
		var gl []string
		for g := range got {
			gl = append(gl, g)
		}
		sort.Strings(gl)
		outcomes[strings.SplitN(want, "(", 2)[0]]++
		if len(gl) != 1 || gl[0] != want {
			if len(bad) < 6 {
				bad = append(bad, fmt.Sprintf("%s: model %s, code %v", fmtAssign(a), want, gl))
			}
		}
	})
	r.Stats["assignments"] = n
	r.Stats["distinct_orderings"] = len(orderings)
	for k, c := range outcomes {
		r.Stats["outcome_"+k] = c
	}
	for _, k := range []string{"HEAD", "TAIL"} {
		if len(deltas[k]) != 1 && len(bad) < 6 {
			bad = append(bad, fmt.Sprintf("the argument of the %s truncation is not one fixed offset from the range bound (offsets seen: %v)", k, deltas[k]))
		}
	}
	if prog01 == nil {
		prog01 = map[*Prog]map[string]int64{}
	}
	prog01[p] = map[string]int64{}
	for k, ds := range deltas {
		for d := range ds {
			prog01[p][k] = d
		}
	}
	r.Check(len(bad) == 0 && n > 0, funcDisplay(fn)+":classification", p.Position(fn.Pos()),
		fmt.Sprintf("for all %d weak orderings (%d witnesses) of min,max,first,last with min>=1, first<=last, both 0 iff empty: empty/disjoint -> no-op, min<=first -> head truncation (argument max%+d), else max>=last -> tail truncation (argument min%+d), else error without effect; the offsets are checked against the helpers' decisions by FD-09", len(orderings), n, prog01[p]["HEAD"], prog01[p]["TAIL"]),
		"DeleteRange classifies some (min,max) against (first,last) differently from the contiguous-log model (wrong truncation kind, off-by-one argument, or a middle range not refused): "+strings.Join(bad, " | "))
}

// ---------------------------------------------------------------- FD-02

func runFD02(p *Prog, r *RuleRun) {
	type lookup struct {
		fn      *ssa.Function
		symbols func(v ssa.Value) string
		names   []string
		// expect: given the assignment, must "found" be unreachable (notfound only), or must it be reachable?
		inRange func(a map[string]int64) bool
		// requireFound: when in range, a "found" terminal must be reachable under this extra condition
		requireFound func(a map[string]int64) bool
		what         string
	}
	idxParam := func(fn *ssa.Function) *ssa.Parameter {
		for _, prm := range fn.Params {
			if b, ok := prm.Type().Underlying().(*types.Basic); ok && b.Kind() == types.Uint64 {
				return prm
			}
		}
		return nil
	}
	firstFn := p.Func("", "state.firstIndex")
	mk := func(fn *ssa.Function, extra func(v ssa.Value) string) func(v ssa.Value) string {
		ip := idxParam(fn)
		return func(v ssa.Value) string {
			if prm, ok := v.(*ssa.Parameter); ok && prm == ip {
				return "idx"
			}
			if s := extra(v); s != "" {
				return s
			}
			switch fieldLoadName(v) {
			case "MinIndex":
				return "Min"
			case "MaxIndex":
				return "Max"
			case "BaseIndex":
				return "Base"
			}
			return ""
		}
	}
	var lookups []lookup
	if fn := p.Func("", "state.getLog"); fn != nil {
		lookups = append(lookups, lookup{fn: fn, names: []string{"idx", "first"},
			symbols: mk(fn, func(v ssa.Value) string {
				if c, ok := v.(*ssa.Call); ok && c.Call.StaticCallee() == firstFn {
					return "first"
				}
				return ""
			}),
			inRange:      func(a map[string]int64) bool { return a["first"] != 0 && a["idx"] >= a["first"] },
			requireFound: func(a map[string]int64) bool { return true },
			what:         "snapshot first index (0 = empty log)"})
	}
	if fn := p.Func("", "state.findSegmentReader"); fn != nil {
		lookups = append(lookups, lookup{fn: fn, names: []string{"idx", "Base", "Min", "Max"}, symbols: mk(fn, func(ssa.Value) string { return "" }),
			inRange:      func(a map[string]int64) bool { return a["idx"] >= a["Min"] && (a["Max"] == 0 || a["idx"] <= a["Max"]) },
			requireFound: func(a map[string]int64) bool { return a["Base"] <= a["idx"] },
			what:         "segment [MinIndex, MaxIndex] (MaxIndex 0 = unsealed)"})
	}
	if fn := p.methodImpl("segment", "Writer", "OffsetForFrame"); fn != nil {
		lookups = append(lookups, lookup{fn: fn, names: []string{"idx", "Base", "Min", "Last"},
			symbols: mk(fn, func(v ssa.Value) string {
				if c, ok := v.(*ssa.Call); ok && strings.HasSuffix(eventName(c), ".LastIndex") {
					return "Last"
				}
				return ""
			}),
			inRange: func(a map[string]int64) bool {
				return a["idx"] >= a["Base"] && a["idx"] >= a["Min"] && a["idx"] <= a["Last"]
			},
			requireFound: func(a map[string]int64) bool { return true },
			what:         "tail [max(BaseIndex,MinIndex), committed index]"})
	}
	if fn := p.Func("segment", "Reader.findFrameOffset"); fn != nil {
		lookups = append(lookups, lookup{fn: fn, names: []string{"idx", "Min", "Max"}, symbols: mk(fn, func(ssa.Value) string { return "" }),
			inRange:      func(a map[string]int64) bool { return a["idx"] >= a["Min"] && (a["Max"] == 0 || a["idx"] <= a["Max"]) },
			requireFound: func(a map[string]int64) bool { return true },
			what:         "sealed segment [MinIndex, MaxIndex]"})
	}
	if len(lookups) < 4 {
		r.Unknown("anchor", "?", fmt.Sprintf("only %d of the 4 lookup functions found", len(lookups)))
	}
	isLookup := map[*ssa.Function]bool{}
	for _, lk := range lookups {
		isLookup[lk.fn] = true
	}
	for _, lk := range lookups {
		lk := lk
		spec := &fdSpec{Symbol: lk.symbols,
			// private helpers of the lookup (range tests, the sealed/unsealed halves) are part of it
			Inline: func(callee *ssa.Function) bool { return callee.Pkg == lk.fn.Pkg && !isLookup[callee] },
			Effect: func(ins ssa.Instruction, eval func(ssa.Value) fdVal) (string, bool) {
				if ci, ok := ins.(ssa.CallInstruction); ok {
					n := eventName(ci)
					if strings.HasSuffix(n, "tailWriter.OffsetForFrame") {
						return "DELEGATED", true // the unsealed case is decided by the tail writer (checked separately)
					}
					if strings.HasSuffix(n, ".GetLog") || strings.HasSuffix(n, ".ReadAt") {
						return "FOUND(" + n + ")", true
					}
				}
				return "", false
			},
			Return: func(ret *ssa.Return, res []ssa.Value, eval func(ssa.Value) fdVal) string {
				l := errLabel(res[len(res)-1])
				if l == "nil" {
					return "FOUND(return)"
				}
				return l
			}}
		orderings := map[string]bool{}
		var bad []string
		n := enumAssignments(lk.names, 0, 4, nil, func(a map[string]int64) {
			orderings[orderingSig(a, lk.names)] = true
			found, notfound := false, false
			for _, t := range fdRun(lk.fn, spec, a) {
				parts := strings.Split(t, " > ")
				last := parts[len(parts)-1]
				if last == "DELEGATED" {
					continue
				}
				if strings.HasPrefix(last, "FOUND") {
					found = true
				}
				if last == "notfound" {
					notfound = true
				}
			}
			in := lk.inRange(a)
			switch {
			case !in && found:
				if len(bad) < 5 {
					bad = append(bad, fmt.Sprintf("%s: out of range but the lookup proceeds", fmtAssign(a)))
				}
			case !in && !notfound:
				if len(bad) < 5 {
					bad = append(bad, fmt.Sprintf("%s: out of range but ErrNotFound is not returned", fmtAssign(a)))
				}
			case in && lk.requireFound(a) && !found:
				if len(bad) < 5 {
					bad = append(bad, fmt.Sprintf("%s: in range but the lookup cannot proceed", fmtAssign(a)))
				}
			}
		})
		key := funcDisplay(lk.fn) + ":bounds"
		r.Stats["orderings:"+funcDisplay(lk.fn)] = len(orderings)
		r.Check(len(bad) == 0, key, p.Position(lk.fn.Pos()),
			fmt.Sprintf("for all %d orderings (%d witnesses) the lookup proceeds exactly inside %s and returns ErrNotFound outside", len(orderings), n, lk.what),
			funcDisplay(lk.fn)+" treats a bound with the wrong polarity ("+lk.what+"): "+strings.Join(bad, " | "))
	}
}

// ---------------------------------------------------------------- FD-04

func runFD04(p *Prog, r *RuleRun) {
	pad := p.Func("segment", "padLen")
	enc := p.Func("segment", "encodedFrameSize")
	fhl, ok := constU64(p, "segment", "frameHeaderLen")
	if pad == nil || enc == nil || !ok {
		r.Unknown("anchor", "?", "segment.padLen / encodedFrameSize / frameHeaderLen not found")
		return
	}
	// residue evaluation: parameter = 8k + res (k >= 0 unknown); values are either exact small ints or "8k + c"
	type rv struct {
		exact bool
		n     int64 // exact value, or c in 8k+c
	}
	var evalFn func(fn *ssa.Function, arg rv, depth int) (rv, bool)
	evalFn = func(fn *ssa.Function, arg rv, depth int) (rv, bool) {
		if depth > 3 || len(fn.Blocks) != 1 {
			return rv{}, false
		}
		env := map[ssa.Value]rv{fn.Params[0]: arg}
		get := func(v ssa.Value) (rv, bool) {
			if c, ok := v.(*ssa.Const); ok {
				return rv{true, c.Int64()}, true
			}
			x, ok := env[v]
			return x, ok
		}
		for _, ins := range fn.Blocks[0].Instrs {
			switch x := ins.(type) {
			case *ssa.BinOp:
				a, ok1 := get(x.X)
				b, ok2 := get(x.Y)
				if !ok1 || !ok2 {
					return rv{}, false
				}
				switch x.Op {
				case token.REM:
					if !b.exact || b.n != 8 {
						return rv{}, false
					}
					env[x] = rv{true, ((a.n % 8) + 8) % 8}
				case token.SUB:
					if a.exact && b.exact {
						env[x] = rv{true, a.n - b.n}
					} else {
						return rv{}, false
					}
				case token.AND:
					if a.exact && b.exact {
						env[x] = rv{true, a.n & b.n}
					} else {
						return rv{}, false
					}
				case token.ADD:
					switch {
					case a.exact && b.exact:
						env[x] = rv{true, a.n + b.n}
					case a.exact:
						env[x] = rv{false, a.n + b.n}
					case b.exact:
						env[x] = rv{false, a.n + b.n}
					default:
						return rv{}, false
					}
				default:
					return rv{}, false
				}
			case *ssa.Call:
				callee := x.Call.StaticCallee()
				if callee == nil || len(x.Call.Args) != 1 {
					return rv{}, false
				}
				a, ok := get(x.Call.Args[0])
				if !ok {
					return rv{}, false
				}
				res, ok := evalFn(callee, a, depth+1)
				if !ok {
					return rv{}, false
				}
				env[x] = res
			case *ssa.Return:
				return get(x.Results[0])
			}
		}
		return rv{}, false
	}
	var bad []string
	for res := int64(0); res < 8; res++ {
		pv, ok1 := evalFn(pad, rv{false, res}, 0)
		ev, ok2 := evalFn(enc, rv{false, res}, 0)
		if !ok1 || !ok2 {
			r.Unknown("segment.encodedFrameSize:arith", p.Position(enc.Pos()), "frame size arithmetic uses operations outside the residue domain (+ - % & with constants): cannot be evaluated")
			return
		}
		if !pv.exact || pv.n < 0 || pv.n > 7 || (res+pv.n)%8 != 0 {
			bad = append(bad, fmt.Sprintf("payload ≡ %d (mod 8): padding %d", res, pv.n))
		}
		// ev = 8k + c : multiple of 8 iff c%8==0 ; >= frameHeaderLen iff c >= 8 for k = 0 (res itself is the smallest payload)
		if ev.exact || ev.n%8 != 0 || ev.n < int64(fhl) {
			bad = append(bad, fmt.Sprintf("payload ≡ %d (mod 8): encoded size 8k+%d", res, ev.n))
		}
	}
	r.Stats["residue_classes"] = 8
	r.Check(len(bad) == 0, "segment.encodedFrameSize:alignment", p.Position(enc.Pos()), "for all payload lengths (all 8 residues): padding in [0,7], encoded size ≡ 0 (mod 8) and >= 8",
		"frame size arithmetic breaks 8-byte alignment / forward progress: "+strings.Join(bad, "; "))
	// scan loops: every loop that reads frame headers advances its offset by encodedFrameSize(...) on every back edge
	roots := []*ssa.Function{p.methodImpl("segment", "Filer", "RecoverTail"), p.Func("segment", "Filer.DumpSegment"), p.Func("segment", "Filer.DumpLogs")}
	n := 0
	for fn := range p.reachableFuncs(roots...) {
		for _, b := range fn.Blocks {
			for _, ins := range b.Instrs {
				phi, ok := ins.(*ssa.Phi)
				if !ok {
					break
				}
				// is this phi (possibly converted) the offset of a ReadAt in the loop?
				used := false
				var users []ssa.Instruction
				users = append(users, *phi.Referrers()...)
				for _, ref := range *phi.Referrers() {
					if cv, ok := ref.(*ssa.Convert); ok {
						users = append(users, *cv.Referrers()...)
					}
				}
				parses := parsesFrameHeaders(fn)
				for _, ref := range users {
					c, ok := ref.(*ssa.Call)
					if !ok {
						continue
					}
					if strings.HasSuffix(eventName(c), ".ReadAt") {
						used = true
					}
					// or the offset is handed to a helper of the package that reads (and parses) the header there
					if callee := c.Call.StaticCallee(); callee != nil && callee.Pkg == fn.Pkg && callee.Blocks != nil {
						for i, a := range c.Call.Args {
							if (a == ssa.Value(phi) || isConvertOf(a, phi)) && i < len(callee.Params) && paramIsReadAtOffset(callee, callee.Params[i]) {
								used = true
								parses = parses || parsesFrameHeaders(callee)
							}
						}
					}
				}
				if !used || !parses {
					continue // not a frame scan (e.g. a chunked read of a known byte range)
				}
				n++
				key := funcDisplay(fn) + ":scan-step"
				ok2 := true
				nBack := 0
				for i, e := range phi.Edges {
					pred := b.Preds[i]
					if !b.Dominates(pred) {
						continue // loop entry
					}
					nBack++
					bo, isAdd := e.(*ssa.BinOp)
					if !isAdd || bo.Op != token.ADD || bo.X != phi {
						ok2 = false
						continue
					}
					step := bo.Y
					for {
						cv, ok := step.(*ssa.Convert)
						if !ok {
							break
						}
						step = cv.X
					}
					c, isCall := step.(*ssa.Call)
					if !isCall || c.Call.StaticCallee() != enc {
						ok2 = false
					}
				}
				r.Check(ok2 && nBack > 0, key, posOf(p, phi), "the scan offset advances by encodedFrameSize(len) (>= 8, aligned) on every way back to the loop head",
					"a frame scan loop can return to its head without advancing the read offset by a whole aligned frame: on damaged input it loops forever or reads misaligned headers")
				// the cursor must be wide enough not to wrap: a 32-bit length field plus header and padding exceeds 32 bits
				wide := false
				if bt, ok := phi.Type().Underlying().(*types.Basic); ok {
					switch bt.Kind() {
					case types.Int64, types.Uint64, types.Int, types.Uint, types.Uintptr:
						wide = true
					}
				}
				r.Check(wide, funcDisplay(fn)+":scan-cursor-width", posOf(p, phi), "the scan cursor is a 64-bit integer: adding a frame size derived from a 32-bit length field cannot wrap",
					fmt.Sprintf("the scan cursor has type %s: a damaged length field near 2^32 makes cursor + frame size wrap around, the scan stops advancing (or goes backwards) and recovery/dump never terminates", phi.Type()))
			}
		}
	}
	if n == 0 {
		r.Fail("scan-loops", "?", "no frame scan loop (ReadAt at a loop-carried offset) found in the recovery/dump paths")
	}
}

func isConvertOf(v ssa.Value, x ssa.Value) bool {
	cv, ok := v.(*ssa.Convert)
	return ok && cv.X == x
}

// paramIsReadAtOffset: prm (possibly converted) is the offset argument of a ReadAt in fn.
func paramIsReadAtOffset(fn *ssa.Function, prm *ssa.Parameter) bool {
	return bodyHas(fn, func(ins ssa.Instruction) bool {
		c, ok := ins.(*ssa.Call)
		if !ok || !strings.HasSuffix(eventName(c), ".ReadAt") {
			return false
		}
		off := c.Call.Args[len(c.Call.Args)-1]
		return off == ssa.Value(prm) || isConvertOf(off, prm)
	})
}

// parsesFrameHeaders: does fn decode frame headers (calls a function returning the in-memory frame header type)?
func parsesFrameHeaders(fn *ssa.Function) bool {
	return bodyHas(fn, func(ins ssa.Instruction) bool {
		c, ok := ins.(*ssa.Call)
		if !ok || c.Call.StaticCallee() == nil {
			return false
		}
		rs := c.Call.StaticCallee().Signature.Results()
		if rs.Len() != 2 || !isErrorType(rs.At(1).Type()) {
			return false
		}
		fs := structFields(rs.At(0).Type())
		if len(fs) != 3 {
			return false
		}
		n8, n32 := 0, 0
		for _, f := range fs {
			switch f.Type().String() {
			case "uint8", "byte":
				n8++
			case "uint32":
				n32++
			}
		}
		return n8 == 1 && n32 == 2
	})
}

// ---------------------------------------------------------------- FD-05

type loopShape struct {
	init, bound ssa.Value
	op          token.Token
	step        int64
	phi         *ssa.Phi
}

// countedLoops finds loops "for i := init; i OP bound; i += step" in fn.
func countedLoops(fn *ssa.Function) []loopShape {
	var out []loopShape
	for _, b := range fn.Blocks {
		for _, ins := range b.Instrs {
			phi, ok := ins.(*ssa.Phi)
			if !ok {
				break
			}
			if len(phi.Edges) != 2 {
				continue
			}
			var ls loopShape
			ls.phi = phi
			okShape := false
			for i, e := range phi.Edges {
				if bo, ok := e.(*ssa.BinOp); ok && bo.Op == token.ADD && bo.X == phi {
					if c, ok := bo.Y.(*ssa.Const); ok {
						ls.step = c.Int64()
						ls.init = phi.Edges[1-i]
						okShape = true
					}
				}
			}
			if !okShape {
				continue
			}
			// the loop condition compares phi with a bound
			for _, ref := range *phi.Referrers() {
				if bo, ok := ref.(*ssa.BinOp); ok && bo.X == phi && (bo.Op == token.LSS || bo.Op == token.LEQ) {
					for _, r2 := range *bo.Referrers() {
						if _, ok := r2.(*ssa.If); ok {
							ls.bound, ls.op = bo.Y, bo.Op
						}
					}
				}
			}
			if ls.bound != nil {
				out = append(out, ls)
			}
		}
	}
	return out
}

func runFD05(p *Prog, r *RuleRun) {
	// verifier read-back
	vf := p.Func("verifier", "LogStore.verify")
	if vf == nil {
		r.Unknown("anchor:verify", "?", "(*verifier.LogStore).verify not found")
	} else {
		found := false
		// the loop may live in verify itself or in a helper of the verifier package it calls with report.Range
		cands := []*ssa.Function{vf}
		for fn := range p.reachableFuncs(vf) {
			if fn != vf && pkgRelOf(p, fn) == "verifier" {
				cands = append(cands, fn)
			}
		}
		sort.Slice(cands[1:], func(i, j int) bool { return cands[1+i].String() < cands[1+j].String() })
		for _, fn := range cands {
			for _, ls := range countedLoops(fn) {
				usedAsIdx := false
				for _, ref := range *ls.phi.Referrers() {
					if c, ok := ref.(ssa.CallInstruction); ok && eventName(c) == "raft.LogStore.GetLog" {
						usedAsIdx = true
					}
				}
				if !usedAsIdx {
					continue
				}
				found = true
				ok := fieldLoadName(ls.init) == "Start" && fieldLoadName(ls.bound) == "End" && ls.op == token.LSS && ls.step == 1
				why := ""
				if ok && fn != vf {
					// Start/End are read from one parameter, and every call of the helper passes the report's Range there
					pi, pb := paramIndexOf(fn, fieldBase(ls.init)), paramIndexOf(fn, fieldBase(ls.bound))
					if pi < 0 || pi != pb {
						ok, why = false, "; Start/End are not fields of one parameter of "+funcDisplay(fn)
					} else {
						nCalls := 0
						for _, c := range cands {
							for _, b := range c.Blocks {
								for _, ins := range b.Instrs {
									if ci, isCall := ins.(ssa.CallInstruction); isCall && ci.Common().StaticCallee() == fn {
										nCalls++
										if fieldLoadName(ci.Common().Args[pi]) != "Range" {
											ok, why = false, "; "+funcDisplay(c)+" calls it with something other than the report's Range"
										}
									}
								}
							}
						}
						if nCalls == 0 {
							ok, why = false, "; no static call of "+funcDisplay(fn)+" found"
						}
					}
				}
				r.Check(ok, funcDisplay(vf)+":read-back-loop", posOf(p, ls.phi), "read-back iterates idx = Range.Start; idx < Range.End; idx++ (in "+funcDisplay(fn)+")",
					fmt.Sprintf("the verifier's read-back loop is init=%s %s bound=%s step=%d%s; it must cover exactly [Range.Start, Range.End) (an off-by-one misses or double-counts an entry: false alarm or missed divergence)", fieldLoadName(ls.init), ls.op, fieldLoadName(ls.bound), ls.step, why))
			}
		}
		if !found {
			r.Fail(funcDisplay(vf)+":read-back-loop", p.Position(vf.Pos()), "no counted loop feeding GetLog found in the verifier's read-back")
		}
	}
	cl := p.Func("migrate", "CopyLogs")
	if cl == nil {
		r.Unknown("anchor:CopyLogs", "?", "migrate.CopyLogs not found")
		return
	}
	found := false
	for _, ls := range countedLoops(cl) {
		usedAsIdx := false
		for _, ref := range *ls.phi.Referrers() {
			if c, ok := ref.(ssa.CallInstruction); ok && eventName(c) == "raft.LogStore.GetLog" {
				usedAsIdx = true
			}
		}
		if !usedAsIdx {
			continue
		}
		found = true
		src := func(v ssa.Value) string {
			if ex, ok := v.(*ssa.Extract); ok {
				if c, ok := ex.Tuple.(*ssa.Call); ok {
					return eventName(c)
				}
			}
			return "?"
		}
		ok := src(ls.init) == "raft.LogStore.FirstIndex" && src(ls.bound) == "raft.LogStore.LastIndex" && ls.op == token.LEQ && ls.step == 1
		r.Check(ok, funcDisplay(cl)+":copy-loop", posOf(p, ls.phi), "copy iterates idx = FirstIndex(); idx <= LastIndex(); idx++",
			fmt.Sprintf("CopyLogs iterates init=%s %s bound=%s step=%d; it must cover [first,last] inclusive", src(ls.init), ls.op, src(ls.bound), ls.step))
	}
	if !found {
		r.Fail(funcDisplay(cl)+":copy-loop", p.Position(cl.Pos()), "no counted loop feeding GetLog found in CopyLogs")
	}
	// the loop is reached for every non-empty source: the only early success return is "last index is 0"
	indexOf := func(v ssa.Value, which string) bool {
		ex, ok := v.(*ssa.Extract)
		if !ok || ex.Index != 0 {
			return false
		}
		c, ok := ex.Tuple.(*ssa.Call)
		return ok && eventName(c) == "raft.LogStore."+which
	}
	spec := &fdSpec{MaxVisits: 1,
		Inline: func(callee *ssa.Function) bool { return false },
		Symbol: func(v ssa.Value) string {
			switch {
			case indexOf(v, "FirstIndex"):
				return "first"
			case indexOf(v, "LastIndex"):
				return "last"
			}
			return ""
		},
		Effect: func(ins ssa.Instruction, eval func(ssa.Value) fdVal) (string, bool) {
			if ci, ok := ins.(ssa.CallInstruction); ok && eventName(ci) == "raft.LogStore.GetLog" {
				return "READ", true
			}
			return "", false
		},
		Return: func(ret *ssa.Return, res []ssa.Value, eval func(ssa.Value) fdVal) string {
			if c, ok := res[len(res)-1].(*ssa.Const); ok && c.IsNil() {
				return "ret-nil"
			}
			return "ret-err"
		}}
	var bad []string
	nw := enumAssignments([]string{"first", "last"}, 0, 3, func(a map[string]int64) bool { return a["first"] <= a["last"] && (a["last"] == 0 || a["first"] > 0) }, func(a map[string]int64) {
		read, early := false, false
		for _, t := range fdRun(cl, spec, a) {
			switch {
			case strings.HasSuffix(t, "READ"):
				read = true
			case strings.HasSuffix(t, "ret-nil"):
				early = true
			}
		}
		switch {
		case a["last"] == 0 && read:
			bad = append(bad, fmtAssign(a)+": an empty source still reads an entry")
		case a["last"] == 0 && !early:
			bad = append(bad, fmtAssign(a)+": an empty source does not return nil")
		case a["last"] > 0 && early:
			bad = append(bad, fmtAssign(a)+": a non-empty source returns nil without reading anything")
		case a["last"] > 0 && !read:
			bad = append(bad, fmtAssign(a)+": a non-empty source never reaches the copy loop")
		}
	})
	if len(bad) > 4 {
		bad = bad[:4]
	}
	r.Check(len(bad) == 0 && nw > 0, funcDisplay(cl)+":empty-source", p.Position(cl.Pos()), "CopyLogs returns early exactly for an empty source (last index 0); every non-empty source, a single entry included, reaches the copy loop",
		"CopyLogs's early return does not coincide with the empty source: "+strings.Join(bad, " | ")+" (a log holding one entry - first == last - is reported as copied although nothing was)")
}

// liveBlocks returns the blocks reachable from the entry when Ifs on constant conditions take only their live edge.
func liveBlocks(fn *ssa.Function) map[*ssa.BasicBlock]bool {
	live := map[*ssa.BasicBlock]bool{}
	var visit func(b *ssa.BasicBlock)
	visit = func(b *ssa.BasicBlock) {
		if live[b] {
			return
		}
		live[b] = true
		if ifi, ok := b.Instrs[len(b.Instrs)-1].(*ssa.If); ok {
			if c, ok := ifi.Cond.(*ssa.Const); ok && c.Value != nil {
				if c.Value.String() == "true" {
					visit(b.Succs[0])
				} else {
					visit(b.Succs[1])
				}
				return
			}
		}
		for _, s := range b.Succs {
			visit(s)
		}
	}
	if len(fn.Blocks) > 0 {
		visit(fn.Blocks[0])
	}
	return live
}

// ---------------------------------------------------------------- FD-07

func runFD07(p *Prog, r *RuleRun) {
	// WAL level: in StoreLogs an error return guarded by (last > 0) && (entry.Index != last+1)
	sl := p.Func("", "WAL.StoreLogs")
	if sl == nil {
		r.Unknown("anchor:StoreLogs", "?", "(*WAL).StoreLogs not found")
	} else {
		found := false
		for fn := range p.reachableFuncs(sl) {
			if pkgRelOf(p, fn) != "" {
				continue
			}
			fnLive := liveBlocks(fn)
			for _, b := range fn.Blocks {
				ifi, ok := b.Instrs[len(b.Instrs)-1].(*ssa.If)
				if !ok || !fnLive[b] {
					continue
				}
				ne, ok := ifi.Cond.(*ssa.BinOp)
				if !ok || ne.Op != token.NEQ {
					continue
				}
				add, ok := ne.Y.(*ssa.BinOp)
				if !ok || add.Op != token.ADD || fieldLoadName(ne.X) != "Index" {
					continue
				}
				c, ok := add.Y.(*ssa.Const)
				if !ok || c.Int64() != 1 {
					continue
				}
				// true edge returns an error
				isErr := blockRejects(b.Succs[0])
				// reached only through last > 0 (the same `last` value)
				gated := false
				for _, g := range fn.Blocks {
					gi, ok := g.Instrs[len(g.Instrs)-1].(*ssa.If)
					if !ok {
						continue
					}
					gt, ok := gi.Cond.(*ssa.BinOp)
					if ok && gt.Op == token.GTR && gt.X == add.X && g.Succs[0] == b {
						if z, ok := gt.Y.(*ssa.Const); ok && z.Int64() == 0 {
							gated = true
						}
					}
				}
				if isErr && gated {
					found = true
				}
			}
		}
		r.Check(found, funcDisplay(sl)+":monotonic", p.Position(sl.Pos()), "StoreLogs refuses exactly index != last+1 when the log is non-empty (last > 0)",
			"StoreLogs's contiguity test is not `last > 0 && index != last+1 -> error`: gaps/duplicates are accepted or valid appends refused")
	}
	// segment level: appendEntry refuses index != BaseIndex + len(offsets)
	a := resolveWriterAnchors(p)
	ap := p.methodImpl("segment", "Writer", "Append")
	if ap == nil || len(a.missing) > 0 {
		r.Unknown("anchor:Append", "?", "(*segment.Writer).Append not found")
		return
	}
	found := false
	for fn := range p.reachableFuncs(ap) {
		fnLive := liveBlocks(fn)
		for _, b := range fn.Blocks {
			ifi, ok := b.Instrs[len(b.Instrs)-1].(*ssa.If)
			if !ok || !fnLive[b] {
				continue
			}
			ne, ok := ifi.Cond.(*ssa.BinOp)
			if !ok || ne.Op != token.NEQ || fieldLoadName(ne.X) != "Index" {
				continue
			}
			add, ok := ne.Y.(*ssa.BinOp)
			if !ok || add.Op != token.ADD || fieldLoadName(add.X) != "BaseIndex" {
				continue
			}
			isLen := false
			if cv, ok := add.Y.(*ssa.Convert); ok {
				if c, ok := cv.X.(*ssa.Call); ok && isBuiltinCall(c, "len") {
					isLen = true
				}
			}
			isErr := false
			for _, ins := range b.Succs[0].Instrs {
				if ret, ok := ins.(*ssa.Return); ok && errLabel(ret.Results[len(ret.Results)-1]) == "error" {
					isErr = true
				}
			}
			if isLen && isErr {
				found = true
			}
		}
	}
	r.Check(found, funcDisplay(ap)+":monotonic", p.Position(ap.Pos()), "the segment writer refuses exactly index != BaseIndex + len(offsets)",
		"the segment writer's invariant test `index != BaseIndex+len(offsets) -> error` is missing or altered: the in-memory offset table would be indexed wrongly on read")
}

// ---------------------------------------------------------------- FD-08

func runFD08(p *Prog, r *RuleRun) {
	vf := p.Func("verifier", "LogStore.verify")
	uv := p.Func("verifier", "LogStore.updateVerifyState")
	if vf == nil || uv == nil {
		r.Unknown("anchor", "?", "verifier verify/updateVerifyState not found")
		return
	}
	spec := &fdSpec{MaxVisits: 1,
		Symbol: func(v ssa.Value) string {
			switch fieldLoadName(v) {
			case "WrittenSum":
				return "W"
			case "ExpectedSum":
				return "E"
			case "ReadSum":
				return "R"
			case "Start":
				return "Start"
			}
			if ex, ok := v.(*ssa.Extract); ok && ex.Index == 0 {
				if c, ok := ex.Tuple.(*ssa.Call); ok && eventName(c) == "raft.LogStore.FirstIndex" {
					return "first"
				}
			}
			return ""
		},
		// helpers of the verifier package are walked as part of verify (the checks may live in a function that
		// returns the error which verify then stores); a helper that itself reads the range is the READ step
		Inline: func(callee *ssa.Function) bool {
			return pkgRelOf(p, callee) == "verifier" && !callsEvent(callee, func(n string) bool { return n == "raft.LogStore.GetLog" })
		},
		EffectR: func(ins ssa.Instruction, eval func(ssa.Value) fdVal, resolve func(ssa.Value) ssa.Value) (string, bool) {
			switch x := ins.(type) {
			case *ssa.Store:
				if fv := fieldOfAddr(x.Addr); fv != nil && fv.Name() == "Err" {
					val := resolve(x.Val)
					switch v := val.(type) {
					case *ssa.MakeInterface:
						if strings.Contains(v.X.Type().String(), "ErrChecksumMismatch") {
							return "MISMATCH", false
						}
					}
					if isGlobalLoad(val, "ErrRangeMismatch") {
						return "RANGE", false
					}
					return "ERR(other)", false
				}
			case ssa.CallInstruction:
				switch eventName(x) {
				case "raft.LogStore.FirstIndex":
					return "FIRSTINDEX", false
				case "raft.LogStore.GetLog":
					return "READ", true // the read loop: stop, its effect on R is symbolic
				}
				if callee := x.Common().StaticCallee(); callee != nil && pkgRelOf(p, callee) == "verifier" &&
					callsEvent(callee, func(n string) bool { return n == "raft.LogStore.GetLog" }) {
					return "READ", true // the read loop in a helper
				}
			}
			return "", false
		}}
	// Part 1: everything before the read loop
	var bad []string
	names := []string{"W", "E", "first", "Start"}
	n := enumAssignments(names, 0, 2, nil, func(a map[string]int64) {
		for _, t := range fdRun(vf, spec, a) {
			if strings.Contains(t, "ERR(other)") {
				continue // FirstIndex itself failed
			}
			var ok bool
			var want string
			switch {
			case a["W"] != 0 && a["W"] != a["E"]:
				want = "in-flight blame, nothing read"
				ok = t == "MISMATCH > return"
			case a["first"] > a["Start"]:
				want = "range mismatch after FirstIndex"
				ok = t == "FIRSTINDEX > RANGE > return"
			default:
				want = "range is read back (no blame before reading)"
				ok = strings.HasPrefix(t, "FIRSTINDEX") && !strings.Contains(t, "RANGE") && !strings.HasPrefix(t, "FIRSTINDEX > MISMATCH") || strings.HasPrefix(t, "FIRSTINDEX > READ")
				if strings.HasPrefix(t, "FIRSTINDEX > MISMATCH") {
					// empty range: the loop body is skipped and the read-side comparison follows directly
					ok = true
				}
			}
			if !ok && len(bad) < 5 {
				bad = append(bad, fmt.Sprintf("%s: want %s, code %s", fmtAssign(a), want, t))
			}
		}
	})
	r.Stats["verify_witnesses"] = n
	r.Check(len(bad) == 0, funcDisplay(vf)+":pre-read", p.Position(vf.Pos()),
		"in-flight blame iff WrittenSum != 0 && WrittenSum != ExpectedSum (then nothing is read); range mismatch iff first > Range.Start; otherwise the range is read back",
		"the verifier's write-side / range comparisons deviate from the stated polarity: "+strings.Join(bad, " | "))
	// Part 2: the read-side comparison: the last store to Err of a mismatch is guarded by ReadSum != ExpectedSum
	okRead := false
	cmpFns := []*ssa.Function{vf}
	for fn := range p.reachableFuncs(vf) {
		if fn != vf && pkgRelOf(p, fn) == "verifier" {
			cmpFns = append(cmpFns, fn)
		}
	}
	// blame: the instruction stores an ErrChecksumMismatch into an Err field, or returns one from a function
	// whose error result the caller stores into Err
	isMismatchVal := func(v ssa.Value) bool {
		mi, ok := v.(*ssa.MakeInterface)
		return ok && strings.Contains(mi.X.Type().String(), "ErrChecksumMismatch")
	}
	resultStoredToErr := func(fn *ssa.Function) bool {
		for _, caller := range cmpFns {
			for _, b := range caller.Blocks {
				for _, ins := range b.Instrs {
					c, ok := ins.(*ssa.Call)
					if !ok || c.Call.StaticCallee() != fn {
						continue
					}
					for _, ref := range *c.Referrers() {
						if st, ok := ref.(*ssa.Store); ok && st.Val == ssa.Value(c) {
							if fv := fieldOfAddr(st.Addr); fv != nil && fv.Name() == "Err" {
								return true
							}
						}
					}
				}
			}
		}
		return false
	}
	depthBlame := 0
	var blames func(fn *ssa.Function, ins ssa.Instruction) bool
	blames = func(fn *ssa.Function, ins ssa.Instruction) bool {
		switch x := ins.(type) {
		case *ssa.Store:
			fv := fieldOfAddr(x.Addr)
			return fv != nil && fv.Name() == "Err" && isMismatchVal(x.Val)
		case *ssa.Return:
			for _, res := range x.Results {
				if isMismatchVal(res) && resultStoredToErr(fn) {
					return true
				}
			}
		case *ssa.Call:
			// a local closure that does the blaming (mismatch := func(...) { report.Err = ErrChecksumMismatch(...) })
			if callee := x.Call.StaticCallee(); callee != nil && callee.Parent() == fn && depthBlame < 2 {
				depthBlame++
				defer func() { depthBlame-- }()
				for _, cb := range callee.Blocks {
					for _, ci := range cb.Instrs {
						if blames(callee, ci) {
							return true
						}
					}
				}
			}
		}
		return false
	}
	for _, fn := range cmpFns {
		fnLive := liveBlocks(fn)
		for _, b := range fn.Blocks {
			ifi, ok := b.Instrs[len(b.Instrs)-1].(*ssa.If)
			if !ok || !fnLive[b] {
				continue
			}
			bo, ok := ifi.Cond.(*ssa.BinOp)
			if !ok || (bo.Op != token.NEQ && bo.Op != token.EQL) {
				continue
			}
			l, rr := fieldLoadName(bo.X), fieldLoadName(bo.Y)
			if !(l == "ReadSum" && rr == "ExpectedSum" || l == "ExpectedSum" && rr == "ReadSum") {
				continue
			}
			diff, same := b.Succs[0], b.Succs[1]
			if bo.Op == token.EQL {
				diff, same = same, diff
			}
			if len(diff.Preds) != 1 {
				continue
			}
			blamed, blamedWhenSame := false, false
			for _, b2 := range fn.Blocks {
				for _, ins := range b2.Instrs {
					if !blames(fn, ins) {
						continue
					}
					if diff.Dominates(b2) {
						blamed = true
					} else if b2 == same || (len(same.Preds) == 1 && same.Dominates(b2)) || reachesBlock(same, b2) && !reachesBlock(diff, b2) {
						blamedWhenSame = true
					}
				}
			}
			// every path from the differing edge blames
			seen := map[*ssa.BasicBlock]bool{}
			var all func(x *ssa.BasicBlock) bool
			all = func(x *ssa.BasicBlock) bool {
				if seen[x] {
					return true
				}
				seen[x] = true
				for _, ins := range x.Instrs {
					if blames(fn, ins) {
						return true
					}
					if _, ok := ins.(*ssa.Return); ok {
						return false
					}
				}
				for _, s2 := range x.Succs {
					if !all(s2) {
						return false
					}
				}
				return len(x.Succs) > 0
			}
			if blamed && !blamedWhenSame && all(diff) {
				okRead = true
			}
		}
	}
	r.Check(okRead, funcDisplay(vf)+":read-compare", p.Position(vf.Pos()), "storage blame iff ReadSum != ExpectedSum, reported as ErrChecksumMismatch",
		"the read-back comparison `ReadSum != ExpectedSum -> ErrChecksumMismatch` is missing or altered: at-rest divergence goes unreported or intact ranges are blamed")
	// Part 3: follower's written sum is zeroed iff the checkpoint's start differs from its own
	okZero := false
	zeroFns := []*ssa.Function{uv}
	for fn := range p.reachableFuncs(uv) {
		if fn != uv && pkgRelOf(p, fn) == "verifier" {
			zeroFns = append(zeroFns, fn)
		}
	}
	isDecodedStart := func(v ssa.Value) bool {
		ex, ok := v.(*ssa.Extract)
		if !ok || ex.Index != 0 {
			return false
		}
		c, ok := ex.Tuple.(*ssa.Call)
		return ok && c.Call.StaticCallee() != nil && pkgRelOf(p, c.Call.StaticCallee()) == "verifier" && c.Call.Signature().Results().Len() == 3 &&
			len(c.Call.Args) == 1 && fieldLoadName(c.Call.Args[0]) == "Extensions"
	}
	var isOwnStart func(v ssa.Value, depth int) bool
	isOwnStart = func(v ssa.Value, depth int) bool {
		switch x := v.(type) {
		case *ssa.Parameter:
			b, ok := x.Type().Underlying().(*types.Basic)
			return ok && b.Kind() == types.Uint64
		case *ssa.Phi:
			if depth > 3 {
				return false
			}
			for _, e := range x.Edges {
				if isOwnStart(e, depth+1) {
					return true
				}
			}
		case *ssa.UnOp:
			// a uint64 field of a parameter (the running state passed as a struct / receiver)
			if fa, ok := x.X.(*ssa.FieldAddr); ok && x.Op == token.MUL {
				_, isParam := fa.X.(*ssa.Parameter)
				if al, ok := fa.X.(*ssa.Alloc); ok {
					// a struct parameter passed by value and assigned to lives in a local copy of it
					for _, ref := range *al.Referrers() {
						if st, ok := ref.(*ssa.Store); ok && st.Addr == ssa.Value(al) {
							if _, fromParam := st.Val.(*ssa.Parameter); fromParam {
								isParam = true
							}
						}
					}
				}
				if isParam {
					b, ok := x.Type().Underlying().(*types.Basic)
					return ok && b.Kind() == types.Uint64
				}
			}
		case *ssa.Field:
			if _, isParam := x.X.(*ssa.Parameter); isParam {
				b, ok := x.Type().Underlying().(*types.Basic)
				return ok && b.Kind() == types.Uint64
			}
		}
		return false
	}
	for _, fn := range zeroFns {
		live := liveBlocks(fn)
		for _, b := range fn.Blocks {
			ifi, ok := b.Instrs[len(b.Instrs)-1].(*ssa.If)
			if !ok || !live[b] {
				continue
			}
			bo, ok := ifi.Cond.(*ssa.BinOp)
			if !ok || (bo.Op != token.NEQ && bo.Op != token.EQL) {
				continue
			}
			if !(isDecodedStart(bo.X) && isOwnStart(bo.Y, 0) || isDecodedStart(bo.Y) && isOwnStart(bo.X, 0)) {
				continue
			}
			diff, same := b.Succs[0], b.Succs[1]
			if bo.Op == token.EQL {
				diff, same = same, diff
			}
			if len(diff.Preds) != 1 {
				continue
			}
			zeroOnDiff, zeroElsewhere := false, false
			for _, b2 := range fn.Blocks {
				for _, ins := range b2.Instrs {
					st, ok := ins.(*ssa.Store)
					if !ok {
						continue
					}
					fv := fieldOfAddr(st.Addr)
					if fv == nil || fv.Name() != "WrittenSum" {
						continue
					}
					if c, ok := st.Val.(*ssa.Const); !ok || c.Int64() != 0 {
						continue
					}
					if diff.Dominates(b2) {
						zeroOnDiff = true
					} else if live[b2] {
						zeroElsewhere = true
					}
				}
			}
			_ = same
			if zeroOnDiff && !zeroElsewhere {
				okZero = true
			}
		}
	}
	r.Check(okZero, funcDisplay(uv)+":written-sum-suppression", p.Position(uv.Pos()), "the written sum is discarded exactly when the follower's range start differs from the checkpoint's",
		"the follower's written sum is no longer zeroed when (and only when) its range start differs from the leader's: sums over different ranges get compared (false in-flight alarms) or valid comparisons are skipped")
}

// ---------------------------------------------------------------- FD-06

func runFD06(p *Prog, r *RuleRun) {
	v := newWalVocab(p)
	open, _, _, _, _ := walRoots(p, v)
	if !checkWalAnchors(r, v, map[string]*ssa.Function{"Open": open}) {
		return
	}
	lim, ok := constU64(p, "", "FirstExternalCodecID")
	if !ok {
		r.Unknown("anchor:FirstExternalCodecID", "?", "constant not found")
		return
	}
	isCodecID := func(val ssa.Value) bool {
		c, ok := val.(*ssa.Call)
		return ok && eventName(c) == "wal.Codec.ID"
	}
	spec := v.baseSpec("codec-gates")
	spec.OnBranch = func(cx *Ctx, ifi *ssa.If, truth bool, f *Fact) {
		bo, ok := ifi.Cond.(*ssa.BinOp)
		if !ok {
			return
		}
		// reserved-id gate: ID() < FirstExternalCodecID
		if c, isC := bo.Y.(*ssa.Const); isC && isCodecID(bo.X) && c.Value != nil && c.Uint64() == lim {
			reserved := (bo.Op == token.LSS) == truth || (bo.Op == token.GEQ) != truth
			if bo.Op != token.LSS && bo.Op != token.GEQ {
				f.TS["gate"] = "odd"
			} else if reserved {
				f.TS["gate"] = "reserved"
			} else {
				f.TS["gate"] = "external"
			}
		}
		// persisted-codec gate: si.Codec != w.codec.ID()
		if (bo.Op == token.NEQ || bo.Op == token.EQL) && (fieldLoadName(bo.X) == "Codec" && isCodecID(bo.Y) || fieldLoadName(bo.Y) == "Codec" && isCodecID(bo.X)) {
			if (bo.Op == token.NEQ) == truth {
				f.TS["seg"] = "foreign"
			} else {
				f.TS["seg"] = "same"
			}
		}
	}
	spec.OnEvent = func(cx *Ctx, ev, phase string, ins ssa.Instruction, f *Fact) {
		if phase != "call" {
			return
		}
		switch ev {
		case "MetaStore.Load":
			key := cx.Key(ins, "reserved-id-gate")
			r.Check(f.TS["gate"] != "reserved" && f.TS["gate"] != "odd", key, posOf(p, ins), "nothing is loaded/opened when the configured codec uses a reserved ID",
				"Open proceeds to load the metadata store although the configured codec's ID is below FirstExternalCodecID (reserved)")
		case "SegmentFiler.Open", "SegmentFiler.RecoverTail":
			key := cx.Key(ins, "persisted-codec-gate")
			r.Check(f.TS["seg"] == "same", key, posOf(p, ins), "a persisted segment is opened only after its codec was found equal to the configured codec's ID",
				"a persisted segment is opened without (or despite) comparing its recorded codec with the configured codec: entries written with another codec would be decoded as garbage")
			delete(f.TS, "seg")
		}
	}
	nRes := 0
	spec.OnReturn = func(cx *Ctx, ret *ssa.Return, class RetClass, f *Fact) {
		if f.TS["gate"] == "reserved" {
			nRes++
			r.Check(class == RetFailure, cx.Key(ret, "reserved-id-return"), posOf(p, ret), "a reserved codec ID makes Open fail", "Open succeeds with a codec using a reserved ID")
		}
	}
	eng := newOrdEngine(p, spec)
	eng.RunRoot(open, nil)
	finishEngine(r, eng)
	if nRes == 0 {
		r.Fail(funcDisplay(open)+":reserved-id-gate-missing", p.Position(open.Pos()), "Open never compares the configured codec's ID with FirstExternalCodecID: reserved IDs are accepted")
	}
}

// ---------------------------------------------------------------- FD-09

func init() {
	register(&Rule{ID: "FD-09", Title: "truncation keep/drop decisions: a segment becomes the new head only if it holds entries >= newMin; tail truncation drops exactly the segments with BaseIndex > newMax",
		Props: []string{"C04", "C05", "C13", "C03"}, Floor: 2, Run: runFD09})
}

func runFD09(p *Prog, r *RuleRun) {
	v := newWalVocab(p)
	dr := p.Func("", "WAL.DeleteRange")
	lastFn := p.Func("", "state.lastIndex")
	if !checkWalAnchors(r, v, map[string]*ssa.Function{"DeleteRange": dr}) || lastFn == nil {
		return
	}
	minF := p.Field("types", "SegmentInfo", "MinIndex")
	var headTxn, tailTxn *ssa.Function
	for fn := range p.reachableFuncs(dr) {
		if !v.isTxnSig(fn.Signature) || fn.Parent() == nil {
			continue
		}
		seals, setsMin := false, false
		for _, b := range fn.Blocks {
			for _, ins := range b.Instrs {
				if ci, ok := ins.(ssa.CallInstruction); ok && eventName(ci) == "types.SegmentWriter.ForceSeal" {
					seals = true
				}
				if st, ok := ins.(*ssa.Store); ok && fieldOfAddr(st.Addr) == minF {
					setsMin = true
				}
			}
		}
		if seals {
			tailTxn = fn
		} else if setsMin {
			headTxn = fn
		}
	}
	if headTxn == nil || tailTxn == nil {
		r.Unknown("anchor:txns", "?", "head/tail truncation transaction bodies not found under DeleteRange")
		return
	}
	// The transaction body sees the truncation bound through captured variables of its parent (the helper
	// DeleteRange calls): the helper's uint64 parameter itself, or a local computed from it (newMin :=
	// lastRemoved + 1).  fvOffsets gives, per captured uint64 variable, its fixed offset from that parameter.
	fvOffsets := func(txn *ssa.Function) (map[*ssa.FreeVar]int64, bool) {
		parent := txn.Parent()
		if parent == nil {
			return nil, false
		}
		var mc *ssa.MakeClosure
		for _, b := range parent.Blocks {
			for _, ins := range b.Instrs {
				if m, ok := ins.(*ssa.MakeClosure); ok && m.Fn == ssa.Value(txn) {
					mc = m
				}
			}
		}
		if mc == nil {
			return nil, false
		}
		var linear func(v ssa.Value, depth int) (int64, bool)
		linear = func(v ssa.Value, depth int) (int64, bool) {
			if depth > 8 {
				return 0, false
			}
			switch x := v.(type) {
			case *ssa.Parameter:
				if b, ok := x.Type().Underlying().(*types.Basic); ok && b.Kind() == types.Uint64 {
					return 0, true
				}
			case *ssa.Convert:
				return linear(x.X, depth+1)
			case *ssa.BinOp:
				if c, ok := x.Y.(*ssa.Const); ok && (x.Op == token.ADD || x.Op == token.SUB) {
					if o, ok := linear(x.X, depth+1); ok {
						if x.Op == token.ADD {
							return o + c.Int64(), true
						}
						return o - c.Int64(), true
					}
				}
			case *ssa.UnOp:
				if x.Op == token.MUL {
					if al, ok := x.X.(*ssa.Alloc); ok {
						return linear(al, depth+1)
					}
				}
			case *ssa.Alloc:
				var stored ssa.Value
				n := 0
				for _, ref := range *x.Referrers() {
					if st, ok := ref.(*ssa.Store); ok && st.Addr == ssa.Value(x) {
						stored = st.Val
						n++
					}
				}
				if n == 1 {
					return linear(stored, depth+1)
				}
			}
			return 0, false
		}
		out := map[*ssa.FreeVar]int64{}
		for i, fv := range txn.FreeVars {
			t := fv.Type()
			if pt, ok := t.(*types.Pointer); ok {
				t = pt.Elem()
			}
			if b, ok := t.Underlying().(*types.Basic); !ok || b.Kind() != types.Uint64 {
				continue
			}
			if i >= len(mc.Bindings) {
				return nil, false
			}
			o, ok := linear(mc.Bindings[i], 0)
			if !ok {
				return nil, false
			}
			out[fv] = o
		}
		return out, len(out) > 0
	}
	symbols := func(bound string, offs map[*ssa.FreeVar]int64) func(val ssa.Value) string {
		name := func(fv *ssa.FreeVar) string {
			if o, ok := offs[fv]; ok {
				return fmt.Sprintf("%s%+d", bound, o)
			}
			return ""
		}
		return func(val ssa.Value) string {
			switch x := val.(type) {
			case *ssa.FreeVar:
				if _, isPtr := x.Type().(*types.Pointer); !isPtr {
					return name(x)
				}
			case *ssa.UnOp:
				if x.Op == token.MUL {
					if fv, ok := x.X.(*ssa.FreeVar); ok {
						if s := name(fv); s != "" {
							return s
						}
					}
				}
			case *ssa.Call:
				if x.Call.StaticCallee() == lastFn {
					return "last"
				}
				switch eventName(x) {
				case "types.SegmentWriter.LastIndex":
					return "tailLast"
				case "time.Time.IsZero":
					if fieldLoadName(x.Call.Args[0]) == "SealTime" {
						return "b:unsealed"
					}
				}
			}
			switch fieldLoadName(val) {
			case "MaxIndex":
				return "Max"
			case "BaseIndex":
				return "Base"
			}
			return ""
		}
	}
	// small helpers of the snapshot type (e.g. "last index of this segment") are part of the decision
	inlineHelpers := func(callee *ssa.Function) bool {
		return pkgRelOf(p, callee) == "" && callee != lastFn && callee.Parent() == nil && len(callee.Blocks) <= 6 &&
			callee.Signature.Results().Len() == 1
	}
	effect := func(ins ssa.Instruction, eval func(ssa.Value) fdVal) (string, bool) {
		switch x := ins.(type) {
		case *ssa.Store:
			if fieldOfAddr(x.Addr) == minF {
				return "CHOSEN", true // the new head's MinIndex is moved up
			}
		case *ssa.Call:
			if c := x.Call.StaticCallee(); c != nil && c == p.Func("", "state.getTailInfo") {
				return "LOOP-LEFT", true
			}
			// the segment leaves the working segment list (what is then closed/deleted is VF-15's question)
			if c := x.Call.StaticCallee(); c != nil && strings.HasPrefix(c.Name(), "Delete") && strings.Contains(c.String(), "immutable.SortedMap") {
				return "DROPPED", true
			}
			if c := x.Call.StaticCallee(); c != nil && (strings.HasPrefix(c.Name(), "Prev") || strings.HasPrefix(c.Name(), "Next")) && strings.Contains(c.String(), "immutable.SortedMapIterator") {
				return "SEG", false
			}
		}
		return "", false
	}
	hd, td, okOff := truncationArgOffsets(p)
	if !okOff {
		r.Unknown("anchor:arg-offsets", p.Position(dr.Pos()), "the arguments DeleteRange hands to the truncation helpers are not fixed offsets from max / min (see FD-01)")
		return
	}
	// head truncation
	{
		offs, okFv := fvOffsets(headTxn)
		if !okFv {
			r.Unknown(funcDisplay(headTxn)+":keep-or-drop", p.Position(headTxn.Pos()), "the head truncation's captured bound is not a fixed offset from its helper's parameter")
			return
		}
		spec := &fdSpec{Inline: inlineHelpers, Symbol: symbols("newMin", offs), Effect: effect, MaxVisits: 1}
		// "newMin" is the value of the helper's parameter (max+hd); each captured variable is newMin+offset
		names := []string{"newMin", "Max", "last", "tailLast", "b:unsealed"}
		var bad []string
		n := enumAssignments(names, 0, 3, func(a map[string]int64) bool {
			return a["b:unsealed"] <= 1 && a["tailLast"] <= a["last"] && (a["tailLast"] == 0 || a["tailLast"] == a["last"])
		}, func(a map[string]int64) {
			// the helper's argument is max+hd: entries <= max go, so a segment stays iff it holds an entry > max
			delMax := a["newMin"] - hd
			for _, o := range offs {
				a[fmt.Sprintf("newMin%+d", o)] = a["newMin"] + o
			}
			keep := a["Max"] > delMax
			if a["b:unsealed"] == 1 {
				keep = a["last"] > delMax
			}
			chosen, dropped := false, false
			for _, t := range fdRun(headTxn, spec, a) {
				if strings.Contains(t, "CHOSEN") {
					chosen = true
				}
				if strings.Contains(t, "DROPPED") {
					dropped = true
				}
			}
			if (keep && (dropped || !chosen)) || (!keep && (chosen || !dropped)) {
				if len(bad) < 5 {
					bad = append(bad, fmt.Sprintf("%s: model keep=%v, code chosen=%v dropped=%v", fmtAssign(a), keep, chosen, dropped))
				}
			}
		})
		r.Stats["head_witnesses"] = n
		r.Check(len(bad) == 0 && n > 0, funcDisplay(headTxn)+":keep-or-drop", p.Position(headTxn.Pos()),
			"a sealed segment becomes the new head iff MaxIndex >= newMin, the unsealed tail iff lastIndex() >= newMin; otherwise it is dropped",
			"head truncation keeps or drops a segment differently from the model (a segment is the new head iff it still holds an entry >= newMin): an empty or fully truncated segment kept as head gets MinIndex = newMin beyond what it can hold, so entries appended at its BaseIndex afterwards are invisible to FirstIndex/GetLog: "+strings.Join(bad, " | "))
	}
	// tail truncation
	{
		offs, okFv := fvOffsets(tailTxn)
		if !okFv {
			r.Unknown(funcDisplay(tailTxn)+":keep-or-drop", p.Position(tailTxn.Pos()), "the tail truncation's captured bound is not a fixed offset from its helper's parameter")
			return
		}
		spec := &fdSpec{Inline: inlineHelpers, Symbol: symbols("newMax", offs), Effect: effect, MaxVisits: 1, RecordCut: true}
		names := []string{"newMax", "Base"}
		var bad []string
		nSeg := 0
		n := enumAssignments(names, 0, 4, func(a map[string]int64) bool { return a["newMax"]-td >= 1 }, func(a map[string]int64) {
			// the helper's argument is min+td: entries >= min go, so a segment goes iff it starts at or above min.
			// Every path through the loop body for such a segment must drop it (a path that skips it - an
			// "empty tail" shortcut, say - leaves a segment the code after the loop takes for the surviving one).
			delMin := a["newMax"] - td
			for _, o := range offs {
				a[fmt.Sprintf("newMax%+d", o)] = a["newMax"] + o
			}
			drop := a["Base"] >= delMin
			for _, t := range fdRun(tailTxn, spec, a) {
				i := strings.Index(t, "SEG")
				if i < 0 {
					continue
				}
				nSeg++
				dropped := strings.Contains(t[i:], "DROPPED")
				if drop != dropped && len(bad) < 5 {
					bad = append(bad, fmt.Sprintf("%s (first deleted index %d): model drop=%v, a path of the code dropped=%v [%s]", fmtAssign(a), delMin, drop, dropped, t))
				}
			}
		})
		r.Stats["tail_witnesses"] = n
		r.Stats["tail_loop_paths"] = nSeg
		if nSeg == 0 {
			r.Unknown(funcDisplay(tailTxn)+":keep-or-drop", p.Position(tailTxn.Pos()), "the segment loop of the tail truncation was not recognised (no iterator step on any path)")
			return
		}
		r.Check(len(bad) == 0 && n > 0, funcDisplay(tailTxn)+":keep-or-drop", p.Position(tailTxn.Pos()),
			"on every path of the loop body, tail truncation drops exactly the segments whose BaseIndex is at or above the first deleted index",
			"tail truncation drops/keeps segments differently from the model (drop iff BaseIndex >= first deleted index, on every path): a kept segment that lies wholly inside the deleted range is never closed/deleted or is taken for the surviving tail: "+strings.Join(bad, " | "))
	}
}

// ---------------------------------------------------------------- FD-10

func init() {
	register(&Rule{ID: "FD-10", Title: "first/last index derivation and the base index of a new segment follow the contiguous-log model",
		Props: []string{"C05", "C04"}, Floor: 3, Run: runFD10})
}

func runFD10(p *Prog, r *RuleRun) {
	firstFn, lastFn := p.Func("", "state.firstIndex"), p.Func("", "state.lastIndex")
	cns := p.Func("", "WAL.createNextSegment")
	if firstFn == nil || lastFn == nil || cns == nil {
		r.Unknown("anchor", "?", "state.firstIndex / state.lastIndex / WAL.createNextSegment not found")
		return
	}
	v := newWalVocab(p)
	sym := func(val ssa.Value) string {
		if c, ok := val.(*ssa.Call); ok {
			switch eventName(c) {
			case "types.SegmentWriter.LastIndex":
				return "tailLast"
			case "time.Time.IsZero":
				if fieldLoadName(c.Call.Args[0]) == "SealTime" {
					return "b:unsealed"
				}
			}
		}
		switch fieldLoadName(val) {
		case "MinIndex":
			return "Min"
		case "BaseIndex":
			return "Base"
		case "MaxIndex":
			return "Max"
		}
		// the base-index hint for an empty log: the snapshot's hint field, or a uint64 parameter of the function
		// that creates the next segment
		if nb := v.nextBaseIndex; nb != nil && loadedField(val) == nb {
			return "nextBase"
		}
		if prm, ok := val.(*ssa.Parameter); ok && prm.Parent() == cns && prm.Type().String() == "uint64" {
			return "nextBase"
		}
		return ""
	}
	retLabel := func(ret *ssa.Return, res []ssa.Value, eval func(ssa.Value) fdVal) string {
		v := res[0]
		if c, ok := v.(*ssa.Const); ok && c.Value != nil && c.Int64() == 0 {
			return "ZERO"
		}
		if c, ok := v.(*ssa.Call); ok && eventName(c) == "types.SegmentWriter.LastIndex" {
			return "TAIL"
		}
		if ph, ok := v.(*ssa.Phi); ok {
			// a phi of the tail's LastIndex() call is still that value on its edge; evaluate
			if ev := eval(ph); ev.known {
				return fmt.Sprintf("VAL(%d)", ev.n)
			}
		}
		if fieldLoadName(v) == "MinIndex" {
			return "MIN"
		}
		if bo, ok := v.(*ssa.BinOp); ok && bo.Op == token.SUB && fieldLoadName(bo.X) == "BaseIndex" {
			if c, ok := bo.Y.(*ssa.Const); ok && c.Int64() == 1 {
				return "BASE-1"
			}
		}
		if ev := eval(v); ev.known {
			return fmt.Sprintf("VAL(%d)", ev.n)
		}
		return "OTHER"
	}
	// firstIndex: 0 for no segment or an empty unsealed head; otherwise the head's MinIndex
	{
		spec := &fdSpec{Symbol: sym, Return: retLabel, MaxVisits: 1}
		var bad []string
		n := enumAssignments([]string{"b:unsealed", "tailLast", "Min"}, 0, 2, func(a map[string]int64) bool { return a["b:unsealed"] <= 1 && a["Min"] >= 1 }, func(a map[string]int64) {
			tr := fdRun(firstFn, spec, a)
			has := func(l string) bool {
				for _, t := range tr {
					if t == l || t == fmt.Sprintf("VAL(%d)", a["Min"]) && l == "MIN" {
						return true
					}
				}
				return false
			}
			emptyHead := a["b:unsealed"] == 1 && a["tailLast"] == 0
			if emptyHead && has("MIN") || !emptyHead && !has("MIN") {
				if len(bad) < 4 {
					bad = append(bad, fmt.Sprintf("%s: traces %v", fmtAssign(a), tr))
				}
			}
		})
		r.Check(len(bad) == 0 && n > 0, funcDisplay(firstFn)+":model", p.Position(firstFn.Pos()), "firstIndex is 0 for no segment or an empty unsealed head segment, the head's MinIndex otherwise",
			"firstIndex deviates from the model (0 iff the log is empty, else the first segment's MinIndex): "+strings.Join(bad, " | "))
	}
	// lastIndex: the tail's committed index when non-zero; otherwise the previous segment's end (tail BaseIndex-1) or 0
	{
		spec := &fdSpec{Symbol: sym, Return: retLabel, MaxVisits: 1}
		var bad []string
		n := enumAssignments([]string{"tailLast", "Base"}, 0, 3, nil, func(a map[string]int64) {
			tr := fdRun(lastFn, spec, a)
			set := map[string]bool{}
			for _, t := range tr {
				set[t] = true
			}
			tailVal := fmt.Sprintf("VAL(%d)", a["tailLast"])
			if a["tailLast"] > 0 {
				if len(set) != 1 || !(set["TAIL"] || set[tailVal]) {
					bad = append(bad, fmt.Sprintf("%s: want only the tail's index, traces %v", fmtAssign(a), tr))
				}
			} else {
				want := "BASE-1"
				if a["Base"] == 0 {
					want = "ZERO"
				}
				if set["TAIL"] && a["tailLast"] != 0 || !(set[want] || set[fmt.Sprintf("VAL(%d)", a["Base"]-1)]) {
					bad = append(bad, fmt.Sprintf("%s: want %s reachable, traces %v", fmtAssign(a), want, tr))
				}
			}
		})
		if len(bad) > 4 {
			bad = bad[:4]
		}
		r.Check(len(bad) == 0 && n > 0, funcDisplay(lastFn)+":model", p.Position(lastFn.Pos()), "lastIndex is the tail's committed index when non-zero, else the previous segment's last index (tail BaseIndex-1) or 0",
			"lastIndex deviates from the model: "+strings.Join(bad, " | "))
	}
	// createNextSegment: base index = previous tail's MaxIndex+1, else the requested nextBaseIndex, else 1
	{
		var newSeg *ssa.Call
		for _, b := range cns.Blocks {
			for _, ins := range b.Instrs {
				if c, ok := ins.(*ssa.Call); ok && c.Call.StaticCallee() != nil && c.Call.StaticCallee().Signature.Results().Len() == 1 &&
					isNamed(c.Call.StaticCallee().Signature.Results().At(0).Type(), ModPath+"/types", "SegmentInfo") {
					newSeg = c
				}
			}
		}
		if newSeg == nil {
			r.Unknown(funcDisplay(cns)+":base-index", p.Position(cns.Pos()), "no SegmentInfo constructor call found in createNextSegment")
			return
		}
		baseArg := newSeg.Call.Args[len(newSeg.Call.Args)-1]
		getTail := ""
		spec := &fdSpec{MaxVisits: 1,
			Symbol: func(val ssa.Value) string {
				if c, ok := val.(*ssa.Call); ok && c.Call.StaticCallee() != nil && c.Call.StaticCallee() == p.Func("", "state.getTailInfo") {
					getTail = "seen"
					return "tailptr"
				}
				return sym(val)
			},
			Effect: func(ins ssa.Instruction, eval func(ssa.Value) fdVal) (string, bool) {
				if ins == newSeg {
					v := eval(baseArg)
					if !v.known {
						return "BASE(?)", true
					}
					return fmt.Sprintf("BASE(%d)", v.n), true
				}
				return "", false
			}}
		var bad []string
		n := enumAssignments([]string{"tailptr", "Max", "nextBase"}, 0, 2, func(a map[string]int64) bool { return a["tailptr"] <= 1 }, func(a map[string]int64) {
			want := int64(1)
			if a["tailptr"] == 1 {
				want = a["Max"] + 1
			} else if a["nextBase"] > 0 {
				want = a["nextBase"]
			}
			for _, t := range fdRun(cns, spec, a) {
				if t != fmt.Sprintf("BASE(%d)", want) && len(bad) < 4 {
					bad = append(bad, fmt.Sprintf("%s: want base %d, code %s", fmtAssign(a), want, t))
				}
			}
		})
		_ = getTail
		r.Check(len(bad) == 0 && n > 0, funcDisplay(cns)+":base-index", posOf(p, newSeg), "a new segment starts at the previous tail's MaxIndex+1, else at the requested next base index, else at 1",
			"the base index of a newly created segment deviates from the model (contiguity with the sealed predecessor): "+strings.Join(bad, " | "))
	}
}
