package main

import (
	"fmt"
	"go/token"
	"go/types"
	"sort"
	"strings"

	"golang.org/x/tools/go/ssa"
)

func init() {
	register(&Rule{ID: "FD-03", Title: "entry-size limit agreement: every length the write path acknowledges is accepted by the read paths (same limit, compatible comparison, guard before buffering)",
		Props: []string{"C15", "C11"}, Floor: 3, Run: runFD03})
}

// linearForm decomposes v into root + c through conversions and constant additions.
func linearForm(v ssa.Value) (ssa.Value, int64) {
	c := int64(0)
	for i := 0; i < 10; i++ {
		switch x := v.(type) {
		case *ssa.Convert:
			v = x.X
			continue
		case *ssa.ChangeType:
			v = x.X
			continue
		case *ssa.BinOp:
			if x.Op == token.ADD {
				if k, ok := x.Y.(*ssa.Const); ok {
					c += k.Int64()
					v = x.X
					continue
				}
				if k, ok := x.X.(*ssa.Const); ok {
					c += k.Int64()
					v = x.Y
					continue
				}
			}
			if x.Op == token.SUB {
				if k, ok := x.Y.(*ssa.Const); ok {
					c -= k.Int64()
					v = x.X
					continue
				}
			}
		}
		break
	}
	return v, c
}

type sizeLimit struct {
	fn     *ssa.Function
	ifi    *ssa.If
	bound  int64 // largest payload length that passes the guard
	desc   string
	accept *ssa.BasicBlock
}

// blockRejects: the block (or its single-successor chain) returns a non-nil error.
func blockRejects(b *ssa.BasicBlock) bool {
	for depth := 0; depth < 3 && b != nil; depth++ {
		for _, ins := range b.Instrs {
			switch x := ins.(type) {
			case *ssa.Return:
				if len(x.Results) > 0 {
					l := errLabel(x.Results[len(x.Results)-1])
					return l != "nil" && l != "unknown"
				}
			case *ssa.Store:
				if l := errLabel(x.Val); l == "error" || strings.HasPrefix(l, "sentinel:") {
					return true
				}
			}
		}
		if len(b.Succs) != 1 {
			return false
		}
		b = b.Succs[0]
	}
	return false
}

func sizeLimits(p *Prog, fns map[*ssa.Function]bool, max int64) []sizeLimit {
	var out []sizeLimit
	for fn := range fns {
		live := liveBlocks(fn)
		for _, b := range fn.Blocks {
			if !live[b] {
				continue
			}
			ifi, ok := b.Instrs[len(b.Instrs)-1].(*ssa.If)
			if !ok {
				continue
			}
			bo, ok := ifi.Cond.(*ssa.BinOp)
			if !ok {
				continue
			}
			x, y, op := bo.X, bo.Y, bo.Op
			if c, ok := x.(*ssa.Const); ok && c.Value != nil && c.Int64() == max {
				x, y = y, x
				op = map[token.Token]token.Token{token.LSS: token.GTR, token.LEQ: token.GEQ, token.GTR: token.LSS, token.GEQ: token.LEQ}[op]
			}
			c, ok := y.(*ssa.Const)
			if !ok || c.Value == nil || c.Int64() != max {
				continue
			}
			_, off := linearForm(x)
			// which edge rejects?
			rejTrue, rejFalse := blockRejects(b.Succs[0]), blockRejects(b.Succs[1])
			var bound int64
			var accept *ssa.BasicBlock
			switch {
			case op == token.GTR && rejTrue && !rejFalse: // v > max -> reject ; accepts v <= max
				bound, accept = max-off, b.Succs[1]
			case op == token.GEQ && rejTrue && !rejFalse: // v >= max -> reject ; accepts v < max
				bound, accept = max-off-1, b.Succs[1]
			case op == token.LEQ && rejFalse && !rejTrue: // v <= max accept
				bound, accept = max-off, b.Succs[0]
			case op == token.LSS && rejFalse && !rejTrue:
				bound, accept = max-off-1, b.Succs[0]
			default:
				continue
			}
			out = append(out, sizeLimit{fn: fn, ifi: ifi, bound: bound, accept: accept,
				desc: fmt.Sprintf("%s: payload length + %d %s MaxEntrySize rejects (accepts lengths <= %d)", funcDisplay(fn), off, op, bound)})
		}
	}
	sort.Slice(out, func(i, j int) bool { return out[i].desc < out[j].desc })
	return out
}

func runFD03(p *Prog, r *RuleRun) {
	maxU, ok := constU64(p, "segment", "MaxEntrySize")
	if !ok {
		r.Unknown("anchor", "?", "segment.MaxEntrySize not found")
		return
	}
	max := int64(maxU)
	readRoots := []*ssa.Function{p.methodImpl("segment", "Reader", "GetLog"), p.Func("segment", "Filer.DumpSegment")}
	writeRoot := p.methodImpl("segment", "Writer", "Append")
	if readRoots[0] == nil || readRoots[1] == nil || writeRoot == nil {
		r.Unknown("anchor:roots", "?", "Reader.GetLog / Filer.DumpSegment / Writer.Append not found")
		return
	}
	writeSet := p.reachableFuncs(writeRoot)
	readSet := map[*ssa.Function]bool{}
	for fn := range p.reachableFuncs(readRoots...) {
		if !writeSet[fn] {
			readSet[fn] = true
		}
	}
	readers := sizeLimits(p, readSet, max)
	minRead := int64(-1)
	for _, rl := range readers {
		r.OK(funcDisplay(rl.fn)+":read-limit", posOf(p, rl.ifi), rl.desc)
		if minRead < 0 || rl.bound < minRead {
			minRead = rl.bound
		}
	}
	if len(readers) < 2 {
		r.Fail("read-limit:count", "?", fmt.Sprintf("only %d read-path guards against MaxEntrySize found (Reader.readFrame and Filer.DumpSegment must both bound the allocation by it)", len(readers)))
	}
	writers := sizeLimits(p, writeSet, max)
	key := funcDisplay(writeRoot) + ":write-limit"
	if len(writers) == 0 {
		r.Fail(key, p.Position(writeRoot.Pos()), "the write path (everything reachable from (*segment.Writer).Append) never compares an entry's size with MaxEntrySize: an entry larger than the limit is written and acknowledged, and every later GetLog of it fails with ErrCorrupt (the read path refuses frames above MaxEntrySize); ErrTooBig is declared but never returned")
		return
	}
	w := writers[0]
	for _, x := range writers {
		if x.bound < w.bound {
			w = x
		}
	}
	if minRead >= 0 && w.bound > minRead {
		r.Fail(key, posOf(p, w.ifi), fmt.Sprintf("the write path acknowledges payload lengths up to %d but a read path only accepts up to %d (%s): entries in between are stored, acknowledged and can never be read back", w.bound, minRead, readers[0].desc))
		return
	}
	// the guard precedes buffering: its accept edge dominates every call of its function that can store to the commit buffer
	a := resolveWriterAnchors(p)
	before := true
	for _, b := range w.fn.Blocks {
		for _, ins := range b.Instrs {
			ci, ok := ins.(ssa.CallInstruction)
			if !ok {
				continue
			}
			callee := ci.Common().StaticCallee()
			if callee == nil || !p.reachesInstr(callee, func(i2 ssa.Instruction) bool {
				st, ok := i2.(*ssa.Store)
				return ok && fieldOfAddr(st.Addr) == a.commitBuf
			}) {
				continue
			}
			if !(w.accept == b || w.accept.Dominates(b)) {
				before = false
			}
		}
	}
	r.Check(before, key, posOf(p, w.ifi), w.desc+"; every length it accepts the read paths accept; the guard precedes buffering",
		"the write-path size guard does not dominate the buffering of the entry: an oversized entry is already in the commit buffer when it is refused")

	// the other end of the range: a read path that refuses an empty payload needs a write path that refuses it too
	zeroGuards := func(set map[*ssa.Function]bool) []*ssa.If {
		var out []*ssa.If
		for fn := range set {
			if pkgRelOf(p, fn) != "segment" {
				continue
			}
			live := liveBlocks(fn)
			for _, b := range fn.Blocks {
				if !live[b] || len(b.Instrs) == 0 {
					continue
				}
				ifi, ok := b.Instrs[len(b.Instrs)-1].(*ssa.If)
				if !ok {
					continue
				}
				bo, ok := ifi.Cond.(*ssa.BinOp)
				if !ok {
					continue
				}
				c, ok := bo.Y.(*ssa.Const)
				if !ok || c.Value == nil {
					continue
				}
				lv, _ := linearForm(bo.X)
				isLen := false
				if lc, ok := lv.(*ssa.Call); ok && isBuiltinCall(lc, "len") {
					// the length of a byte slice (a payload), not of an offsets table or a batch
					if sl, ok := lc.Call.Args[0].Type().Underlying().(*types.Slice); ok {
						if bt, ok := sl.Elem().Underlying().(*types.Basic); ok && bt.Kind() == types.Uint8 {
							isLen = true
						}
					}
				} else if fieldLoadName(lv) == "len" {
					isLen = true
				}
				if !isLen {
					continue
				}
				var zeroEdge *ssa.BasicBlock
				switch {
				case bo.Op == token.EQL && c.Int64() == 0, bo.Op == token.LEQ && c.Int64() == 0, bo.Op == token.LSS && c.Int64() == 1:
					zeroEdge = b.Succs[0]
				case bo.Op == token.NEQ && c.Int64() == 0, bo.Op == token.GTR && c.Int64() == 0, bo.Op == token.GEQ && c.Int64() == 1:
					zeroEdge = b.Succs[1]
				}
				if zeroEdge != nil && blockRejects(zeroEdge) {
					out = append(out, ifi)
				}
			}
		}
		sort.Slice(out, func(i, j int) bool { return out[i].Pos() < out[j].Pos() })
		return out
	}
	rz, wz := zeroGuards(readSet), zeroGuards(writeSet)
	switch {
	case len(rz) == 0:
		r.OK("read-lower-limit", p.Position(readRoots[0].Pos()), "no read path refuses an empty payload (the write path accepts one)")
	case len(wz) > 0:
		r.OK("read-lower-limit", posOf(p, rz[0]), "a read path refuses an empty payload and so does the write path")
	default:
		r.Fail("read-lower-limit", posOf(p, rz[0]), "a read path refuses a zero-length payload with an error, but the write path buffers, syncs and acknowledges zero-length entries: such an entry (a codec that encodes an empty log to nothing) is accepted by StoreLogs and can never be read back")
	}
}
