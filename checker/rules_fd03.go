package main

import (
	"fmt"
	"go/ast"
	"go/token"
	"go/types"
	"strings"

	"golang.org/x/tools/go/ssa"
)

func init() {
	register(&Rule{ID: "FD-03", Title: "entry-size limit agreement: what the write path acknowledges the read paths accept (same constant, guard before buffering)",
		Props: []string{"C15", "C11"}, Floor: 3, Run: runFD03})
}

// maxEntryUse is one comparison against the MaxEntrySize constant object.
type maxEntryUse struct {
	fn     string // enclosing function display name
	decl   *ast.FuncDecl
	ifs    *ast.IfStmt
	op     token.Token // normalised: <value> OP MaxEntrySize
	value  ast.Expr
	pos    token.Pos
	reject bool // the taken branch returns a non-nil error
}

func runFD03(p *Prog, r *RuleRun) {
	pk := p.Pkg["segment"]
	obj, _ := pk.Types.Scope().Lookup("MaxEntrySize").(*types.Const)
	if obj == nil {
		r.Unknown("anchor", "?", "segment.MaxEntrySize not found")
		return
	}
	var uses []maxEntryUse
	for _, f := range pk.Syntax {
		if isTestFile(p, f) {
			continue
		}
		for _, d := range f.Decls {
			fd, ok := d.(*ast.FuncDecl)
			if !ok || fd.Body == nil {
				continue
			}
			ast.Inspect(fd.Body, func(n ast.Node) bool {
				ifs, ok := n.(*ast.IfStmt)
				if !ok {
					return true
				}
				be, ok := ifs.Cond.(*ast.BinaryExpr)
				if !ok {
					return true
				}
				isMax := func(e ast.Expr) bool {
					id, ok := ast.Unparen(e).(*ast.Ident)
					return ok && pk.TypesInfo.Uses[id] == obj
				}
				u := maxEntryUse{fn: declName("segment", fd), decl: fd, ifs: ifs, pos: be.Pos()}
				switch {
				case isMax(be.Y):
					u.op, u.value = be.Op, be.X
				case isMax(be.X):
					u.value = be.Y
					u.op = map[token.Token]token.Token{token.LSS: token.GTR, token.LEQ: token.GEQ, token.GTR: token.LSS, token.GEQ: token.LEQ}[be.Op]
				default:
					return true
				}
				// does the then-branch return a non-nil error?
				for _, st := range ifs.Body.List {
					if rs, ok := st.(*ast.ReturnStmt); ok && len(rs.Results) > 0 {
						last := rs.Results[len(rs.Results)-1]
						if id, ok := last.(*ast.Ident); !ok || id.Name != "nil" {
							u.reject = true
						}
					}
				}
				uses = append(uses, u)
				return true
			})
		}
	}
	// read side: functions reachable from Reader.GetLog / Filer.DumpSegment
	readRoots := []*ssa.Function{p.methodImpl("segment", "Reader", "GetLog"), p.Func("segment", "Filer.DumpSegment")}
	writeRoot := p.methodImpl("segment", "Writer", "Append")
	if readRoots[0] == nil || readRoots[1] == nil || writeRoot == nil {
		r.Unknown("anchor:roots", "?", "Reader.GetLog / Filer.DumpSegment / Writer.Append not found")
		return
	}
	inSet := func(set map[*ssa.Function]bool, name string) bool {
		for fn := range set {
			root := fn
			for root.Parent() != nil {
				root = root.Parent()
			}
			if funcDisplay(root) == name {
				return true
			}
		}
		return false
	}
	readSet := p.reachableFuncs(readRoots...)
	writeSet := p.reachableFuncs(writeRoot)
	nRead := 0
	var readOps []token.Token
	for _, u := range uses {
		if !inSet(readSet, u.fn) || inSet(writeSet, u.fn) {
			continue
		}
		nRead++
		readOps = append(readOps, u.op)
		key := u.fn + ":read-limit"
		r.Check(u.reject && (u.op == token.GTR || u.op == token.GEQ), key, p.Position(u.pos),
			fmt.Sprintf("read path rejects frames with length %s MaxEntrySize before allocating", u.op),
			"the read path's MaxEntrySize test does not reject over-long frames (it must return an error on length > MaxEntrySize before allocating)")
	}
	if nRead < 2 {
		r.Fail("read-limit:count", "?", fmt.Sprintf("only %d read-path comparisons against MaxEntrySize found (Reader.readFrame and Filer.DumpSegment must both bound the allocation)", nRead))
	}
	// write side
	var w *maxEntryUse
	for i := range uses {
		if inSet(writeSet, uses[i].fn) {
			w = &uses[i]
		}
	}
	key := funcDisplay(writeRoot) + ":write-limit"
	if w == nil {
		r.Fail(key, p.Position(writeRoot.Pos()), "the write path (everything reachable from (*segment.Writer).Append) never compares an entry's size with MaxEntrySize: an entry larger than the limit is written and acknowledged, and every later GetLog of it fails with ErrCorrupt (the read path refuses frames above MaxEntrySize); ErrTooBig is declared but never returned")
		return
	}
	// same polarity as the readers (writer must reject at least what readers reject)
	strict := true
	for _, ro := range readOps {
		if ro == token.GTR && w.op != token.GTR && w.op != token.GEQ {
			strict = false
		}
		if ro == token.GEQ && w.op != token.GEQ {
			strict = false
		}
	}
	if !w.reject || !strict {
		r.Fail(key, p.Position(w.pos), fmt.Sprintf("the write path's size test (%s MaxEntrySize, rejects=%v) accepts sizes the read path (%v MaxEntrySize) rejects", w.op, w.reject, readOps))
		return
	}
	// the value compared must be the payload length, and the guard must precede buffering in its function
	lenOfData := false
	if ce, ok := ast.Unparen(w.value).(*ast.CallExpr); ok {
		if id, ok := ce.Fun.(*ast.Ident); ok && id.Name == "len" && len(ce.Args) == 1 {
			lenOfData = true
		}
	}
	firstBuffering := token.NoPos
	var bufFns = map[string]bool{}
	a := resolveWriterAnchors(p)
	for fn := range writeSet {
		for _, b := range fn.Blocks {
			for _, ins := range b.Instrs {
				if st, ok := ins.(*ssa.Store); ok && fieldOfAddr(st.Addr) == a.commitBuf {
					bufFns[fn.Name()] = true
				}
			}
		}
	}
	ast.Inspect(w.decl.Body, func(n ast.Node) bool {
		ce, ok := n.(*ast.CallExpr)
		if !ok {
			return true
		}
		if se, ok := ce.Fun.(*ast.SelectorExpr); ok && bufFns[se.Sel.Name] && (firstBuffering == token.NoPos || ce.Pos() < firstBuffering) {
			firstBuffering = ce.Pos()
		}
		return true
	})
	before := firstBuffering == token.NoPos || w.ifs.Pos() < firstBuffering
	r.Check(lenOfData && before, key, p.Position(w.pos), "the write path refuses entries with len(data) "+w.op.String()+" MaxEntrySize with an error before anything is buffered; same constant object as the read paths",
		fmt.Sprintf("the write-path size guard is not on the payload length (%v) or comes after the entry was buffered (%v)", lenOfData, before))
	_ = strings.TrimSpace
}
