package main

import (
	"fmt"
	"go/token"
	"strings"

	"golang.org/x/tools/go/ssa"
)

func init() {
	register(&Rule{ID: "FD-11", Title: "skipped checkpoints are named: a report carries SkippedRange exactly when the previous report's range did not end where this one starts",
		Props: []string{"C18"}, Floor: 1, Run: runFD11})
}

// The background verifier remembers where the last delivered report's range ended.  When the next report
// starts somewhere else, one or more checkpoints were dropped in between (the hand-off is non-blocking) and
// the report must say so - whatever else is in it (a follower's suppressed WrittenSum, an error, ...).
// The loop body is evaluated for every ordering of (previous End, this Start) and both values of the other
// report fields; SkippedRange must be stored iff End > 0 && End != Start, and nothing else may decide it.
func runFD11(p *Prog, r *RuleRun) {
	var goFn *ssa.Function
	if nl := p.Func("verifier", "NewLogStore"); nl != nil {
		for _, b := range nl.Blocks {
			for _, ins := range b.Instrs {
				if g, ok := ins.(*ssa.Go); ok {
					goFn = g.Call.StaticCallee()
				}
			}
		}
	}
	if goFn == nil {
		r.Unknown("anchor", "?", "the verifier's background goroutine (started by NewLogStore) was not found")
		return
	}
	spec := &fdSpec{MaxVisits: 3,
		Inline: func(callee *ssa.Function) bool {
			// small helpers of the loop (e.g. "handle one report") are part of it; the verification itself is not
			return pkgRelOf(p, callee) == "verifier" && !callsEvent(callee, func(n string) bool { return strings.HasPrefix(n, "raft.LogStore.") }) &&
				!p.reaches(callee, func(ci ssa.CallInstruction) bool { return strings.HasPrefix(eventName(ci), "raft.LogStore.") })
		},
		Symbol: func(v ssa.Value) string {
			switch fieldLoadName(v) {
			case "Start":
				return "Start"
			case "End":
				return "End"
			case "WrittenSum":
				return "W"
			case "ExpectedSum":
				return "X"
			}
			return ""
		},
		Effect: func(ins ssa.Instruction, eval func(ssa.Value) fdVal) (string, bool) {
			switch x := ins.(type) {
			case *ssa.UnOp:
				if x.Op == token.ARROW && isVerifyChLoad(x.X) {
					return "RECV", false
				}
			case *ssa.Select:
				return "RECV", false
			case *ssa.Store:
				if fv := fieldOfAddr(x.Addr); fv != nil && fv.Name() == "SkippedRange" {
					if c, ok := x.Val.(*ssa.Const); ok && c.IsNil() {
						return "", false
					}
					return "SKIP", false
				}
			}
			return "", false
		}}
	var bad []string
	nw := 0
	n := enumAssignments([]string{"End", "Start", "W", "X"}, 0, 2, func(a map[string]int64) bool { return a["W"] <= 1 && a["X"] <= 1 }, func(a map[string]int64) {
		want := a["End"] > 0 && a["End"] != a["Start"]
		for _, t := range fdRun(goFn, spec, a) {
			parts := strings.Split(t, " > ")
			// the second iteration: between the 2nd RECV and the next RECV / the end
			nRecv, inSecond, skipped := 0, false, false
			for _, l := range parts {
				if l == "RECV" {
					nRecv++
					inSecond = nRecv == 2
					continue
				}
				if inSecond && l == "SKIP" {
					skipped = true
				}
			}
			if nRecv < 3 {
				continue // the second iteration did not complete on this path
			}
			nw++
			if skipped != want && len(bad) < 4 {
				bad = append(bad, fmt.Sprintf("%s: SkippedRange set=%v, want %v", fmtAssign(a), skipped, want))
			}
		}
	})
	r.Stats["witnesses"] = n
	r.Check(len(bad) == 0 && nw > 0, funcDisplay(goFn)+":skipped-range", p.Position(goFn.Pos()),
		"a report names the skipped range iff the previous range's End is set and differs from this range's Start, independent of the report's other fields",
		"the skipped-checkpoint detection does not coincide with `previous End > 0 && previous End != Start`: "+strings.Join(bad, " | ")+" (a counted drop whose range no later report names, or a bogus skipped range)")
}
