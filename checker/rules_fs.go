package main

import (
	"fmt"
	"go/constant"
	"go/token"
	"go/types"
	"strings"

	"golang.org/x/tools/go/ssa"
)

func init() {
	register(&Rule{ID: "ORD-05", Title: "fs.File.Sync: file fsync, then directory fsync until one succeeded; the new-flag is cleared only after it",
		Props: []string{"C07", "C01"}, Floor: 1, Run: runORD05})
	register(&Rule{ID: "ORD-06", Title: "fs.FS.Delete: unlink then directory fsync before reporting success",
		Props: []string{"C07", "C13"}, Floor: 1, Run: runORD06})
	register(&Rule{ID: "ORD-07", Title: "directory-sync routines: open(dir) ok then fsync ok on success",
		Props: []string{"C07"}, Floor: 1, Run: runORD07})
	register(&Rule{ID: "ORD-08", Title: "fs.FS.Create: O_CREATE|O_EXCL, preallocation with extension, dir-syncing wrapper returned",
		Props: []string{"C07"}, Floor: 3, Run: runORD08})
	register(&Rule{ID: "ORD-09", Title: "crash-safe meta DB creation: tmp, buckets, commit, close, rename, dir fsync; final name opened only when complete",
		Props: []string{"C07", "C03"}, Floor: 5, Run: runORD09})
	register(&Rule{ID: "ORD-10", Title: "SetStable/CommitState: one Put/Delete in one committed bolt write transaction, in the right bucket",
		Props: []string{"C04", "C08"}, Floor: 6, Run: runORD10})
}

// depConstInt looks up an integer constant of a dependency package as compiled for the target platform.
func depConstInt(p *Prog, path, name string) (int64, bool) {
	for _, sp := range p.SSA.AllPackages() {
		if sp.Pkg.Path() == path {
			if c, ok := sp.Pkg.Scope().Lookup(name).(*types.Const); ok {
				v, exact := constant.Int64Val(constant.ToInt(c.Val()))
				return v, exact
			}
		}
	}
	return 0, false
}

// constStringOf returns the constant string behind v (also through []byte(...) conversions).
func constStringOf(v ssa.Value) (string, bool) {
	switch x := v.(type) {
	case *ssa.Const:
		if x.Value != nil && x.Value.Kind() == constant.String {
			return constant.StringVal(x.Value), true
		}
	case *ssa.Convert:
		return constStringOf(x.X)
	case *ssa.ChangeType:
		return constStringOf(x.X)
	}
	return "", false
}

// strArg / boolArg: the string / bool an argument denotes, as a constant or as evaluated by the engine
// (a parameter of an inlined helper, the element of a literal list being ranged over, ...).
func strArg(cx *Ctx, v ssa.Value, f *Fact) (string, bool) {
	if s, ok := constStringOf(v); ok {
		return s, true
	}
	if a := cx.Eval(v, f); a.K == avStr {
		return a.S, true
	}
	return "", false
}

func boolArg(cx *Ctx, v ssa.Value, f *Fact) (val, known bool) {
	if c, ok := v.(*ssa.Const); ok && c.Value != nil && c.Value.Kind() == constant.Bool {
		return constant.BoolVal(c.Value), true
	}
	switch cx.Eval(v, f).K {
	case avTrue:
		return true, true
	case avFalse:
		return false, true
	}
	return false, false
}

// joinLast returns the constant last element of a filepath.Join(...) call, "" if not constant.
func joinLast(v ssa.Value) (isJoin bool, last string, lastConst bool) {
	c, ok := v.(*ssa.Call)
	if !ok || eventName(c) != "filepath.Join" || len(c.Call.Args) != 1 {
		return false, "", false
	}
	sl, ok := c.Call.Args[0].(*ssa.Slice)
	if !ok {
		return true, "", false
	}
	al, ok := sl.X.(*ssa.Alloc)
	if !ok {
		return true, "", false
	}
	n := int64(-1)
	if at, ok := al.Type().(*types.Pointer).Elem().Underlying().(*types.Array); ok {
		n = at.Len()
	}
	for _, ref := range *al.Referrers() {
		ia, ok := ref.(*ssa.IndexAddr)
		if !ok {
			continue
		}
		ic, ok := ia.Index.(*ssa.Const)
		if !ok || ic.Int64() != n-1 {
			continue
		}
		for _, r2 := range *ia.Referrers() {
			if st, ok := r2.(*ssa.Store); ok && st.Addr == ia {
				s, ok := constStringOf(st.Val)
				return true, s, ok
			}
		}
	}
	return true, "", false
}

// syncKind classifies a (*os.File).Sync call by where its receiver comes from.
func syncKind(ci ssa.CallInstruction) string {
	if eventName(ci) != "os.File.Sync" || len(ci.Common().Args) == 0 {
		return ""
	}
	v := ci.Common().Args[0]
	if _, ok := v.(*ssa.FieldAddr); ok {
		return "FileSync"
	}
	kindOf := func(v ssa.Value) string {
		if ex, ok := v.(*ssa.Extract); ok {
			if c, ok := ex.Tuple.(*ssa.Call); ok {
				switch eventName(c) {
				case "os.Open":
					return "DirSync"
				case "os.OpenFile", "os.Create":
					return "FileSync"
				}
			}
		}
		return ""
	}
	if k := kindOf(v); k != "" {
		return k
	}
	// the handle lives in a local variable (it is shared with a deferred closure that closes it): every value
	// stored into that variable decides
	if u, ok := v.(*ssa.UnOp); ok {
		if cell := rootCell(u.X); cell != nil {
			kind := ""
			for _, ref := range *cell.Referrers() {
				if st, ok := ref.(*ssa.Store); ok && st.Addr == ssa.Value(cell) {
					k := kindOf(st.Val)
					if k == "" || kind != "" && kind != k {
						return "Sync(?)"
					}
					kind = k
				}
			}
			if kind != "" {
				return kind
			}
		}
	}
	return "Sync(?)"
}

// fsCall is the shared event vocabulary of the fs/metadb layer rules.
func fsCall(cx *Ctx, ci ssa.CallInstruction) CallInfo {
	n := eventName(ci)
	switch n {
	case "os.File.Sync":
		return CallInfo{Event: syncKind(ci), Primitive: true}
	case "os.Remove", "os.RemoveAll", "os.Rename", "os.Open", "os.OpenFile", "os.Stat", "fileutil.Preallocate", "os.File.Close",
		"bbolt.Tx.Commit", "bbolt.DB.Close", "bbolt.Tx.Rollback":
		return CallInfo{Event: n, Primitive: true}
	}
	return CallInfo{}
}

// ---------------------------------------------------------------- ORD-05

// atomicFlagOfFile finds the field of fs.File accessed through sync/atomic in its methods.
func atomicFlagOfFile(p *Prog) *types.Var {
	ft := p.NamedType("fs", "File")
	if ft == nil {
		return nil
	}
	st, _ := ft.Underlying().(*types.Struct)
	found := map[*types.Var]bool{}
	for _, fn := range p.Funcs {
		for _, b := range fn.Blocks {
			for _, ins := range b.Instrs {
				ci, ok := ins.(ssa.CallInstruction)
				if !ok || !strings.HasPrefix(eventName(ci), "atomic.") || len(ci.Common().Args) == 0 {
					continue
				}
				fv := fieldOfAddr(ci.Common().Args[0])
				for i := 0; st != nil && i < st.NumFields(); i++ {
					if st.Field(i) == fv {
						found[fv] = true
					}
				}
			}
		}
	}
	if len(found) != 1 {
		return nil
	}
	for v := range found {
		return v
	}
	return nil
}

// creationValue returns the constant fs.FS.Create stores into the flag of the file it returns (0 if none).
func creationValue(p *Prog, flag *types.Var) (int64, bool) {
	cr := p.methodImpl("fs", "FS", "Create")
	if cr == nil {
		return 0, false
	}
	val := int64(0)
	for fn := range p.reachableFuncs(cr) {
		for _, b := range fn.Blocks {
			for _, ins := range b.Instrs {
				if st, ok := ins.(*ssa.Store); ok && fieldOfAddr(st.Addr) == flag {
					c, ok := st.Val.(*ssa.Const)
					if !ok {
						return 0, false
					}
					val = c.Int64()
				}
			}
		}
	}
	return val, true
}

var atomicReadFuncs = map[string]bool{"atomic.LoadUint32": true, "atomic.SwapUint32": true, "atomic.LoadUint64": true, "atomic.SwapUint64": true,
	"atomic.LoadInt32": true, "atomic.SwapInt32": true, "atomic.AddInt32": true, "atomic.AddUint32": true}

func runORD05(p *Prog, r *RuleRun) {
	root := p.methodImpl("fs", "File", "Sync")
	flag := atomicFlagOfFile(p)
	if root == nil {
		r.Unknown("anchor", "?", "(*fs.File).Sync not found")
		return
	}
	newVal, okv := int64(0), true
	if flag != nil {
		newVal, okv = creationValue(p, flag)
	}
	if !okv {
		r.Unknown("anchor:creation-value", "?", "fs.FS.Create stores a non-constant into the new-file flag")
		return
	}
	// flagObs: on a branch edge, was the flag observed to (not) have its creation value?
	flagRead := func(v ssa.Value) bool {
		c, ok := v.(*ssa.Call)
		return ok && flag != nil && atomicReadFuncs[eventName(c)] && len(c.Call.Args) > 0 && fieldOfAddr(c.Call.Args[0]) == flag
	}
	spec := &OrdSpec{Name: "fs.File.Sync", Call: func(cx *Ctx, ci ssa.CallInstruction) CallInfo {
		n := eventName(ci)
		if flag != nil && strings.HasPrefix(n, "atomic.") && len(ci.Common().Args) > 0 && fieldOfAddr(ci.Common().Args[0]) == flag {
			return CallInfo{Event: "FLAG:" + n, Primitive: true}
		}
		return fsCall(cx, ci)
	},
		OnBranch: func(cx *Ctx, ifi *ssa.If, truth bool, f *Fact) {
			bo, ok := ifi.Cond.(*ssa.BinOp)
			if !ok || (bo.Op != token.EQL && bo.Op != token.NEQ) {
				return
			}
			var c *ssa.Const
			switch {
			case flagRead(bo.X):
				c, _ = bo.Y.(*ssa.Const)
			case flagRead(bo.Y):
				c, _ = bo.X.(*ssa.Const)
			}
			if c == nil {
				return
			}
			eq := (bo.Op == token.EQL) == truth
			if c.Int64() == newVal {
				if eq {
					f.TS["flag"] = "new"
				} else {
					f.TS["flag"] = "old"
				}
			} else if eq {
				f.TS["flag"] = "old"
			}
		},
		OnEvent: func(cx *Ctx, ev, phase string, ins ssa.Instruction, f *Fact) {
			if !strings.HasPrefix(ev, "FLAG:") || phase != "call" {
				return
			}
			ci := ins.(ssa.CallInstruction)
			n := strings.TrimPrefix(ev, "FLAG:")
			if !atomicWriteFuncs[n] {
				return
			}
			// which value is written?
			args := ci.Common().Args
			wv := args[len(args)-1]
			if c, ok := wv.(*ssa.Const); ok && c.Int64() == newVal {
				return // re-arming the flag is always safe
			}
			key := cx.Key(ins, "clear(new-flag)")
			if f.Must["DirSync:ok"] {
				r.OK(key, posOf(p, ins), "the new-file flag leaves its creation value only after the directory fsync succeeded")
			} else {
				r.Fail(key, posOf(p, ins), "the new-file flag is cleared before (or without) a successful directory fsync: if that one attempt fails, every later Sync skips the directory and acknowledges data whose directory entry was never made durable; path: "+strings.Join(f.Trace, " > "))
			}
		},
		OnReturn: func(cx *Ctx, ret *ssa.Return, class RetClass, f *Fact) {
			if class != RetSuccess && class != RetEither {
				return
			}
			key := cx.Key(ret, "return")
			pos := posOf(p, ret)
			switch {
			case !f.Must["FileSync:ok"]:
				r.Fail(key, pos, "(*fs.File).Sync returns nil without a successful fsync of the file on this path: "+strings.Join(f.Trace, " > "))
			case f.TS["flag"] == "old" || f.Must["DirSync:ok"]:
				r.OK(key, pos, fmt.Sprintf("success with FileSync:ok and (flag observed cleared=%v | DirSync:ok=%v)", f.TS["flag"] == "old", f.Must["DirSync:ok"]))
			default:
				r.Fail(key, pos, "(*fs.File).Sync returns nil for a file that may still be new without a successful directory fsync; path: "+strings.Join(f.Trace, " > "))
			}
		}}
	eng := newOrdEngine(p, spec)
	if len(eng.RunRoot(root, nil)) == 0 {
		r.Unknown("root", p.Position(root.Pos()), "no exit reached")
	}
	if eng.Aborted != "" {
		r.Unknown("engine", "?", eng.Aborted)
	}
	r.Stats["engine_steps"] = eng.Steps
}

// ---------------------------------------------------------------- ORD-06 / ORD-07

func runORD06(p *Prog, r *RuleRun) {
	root := p.methodImpl("fs", "FS", "Delete")
	if root == nil {
		r.Unknown("anchor", "?", "(*fs.FS).Delete not found")
		return
	}
	spec := &OrdSpec{Name: "fs.FS.Delete", Call: fsCall,
		OnEvent: func(cx *Ctx, ev, phase string, ins ssa.Instruction, f *Fact) {
			if ev == "DirSync" && phase == "call" {
				if f.Must["os.Remove:ok"] {
					f.TS["dirsync"] = "after-remove"
				} else {
					f.TS["dirsync"] = "early"
				}
			}
		},
		OnReturn: func(cx *Ctx, ret *ssa.Return, class RetClass, f *Fact) {
			if class != RetSuccess && class != RetEither {
				return
			}
			key := cx.Key(ret, "return")
			ok := f.Must["os.Remove:ok"] && f.Must["DirSync:ok"] && f.TS["dirsync"] == "after-remove"
			r.Check(ok, key, posOf(p, ret), "success only after os.Remove:ok then directory fsync ok",
				fmt.Sprintf("(*fs.FS).Delete reports success without unlink then directory fsync (Remove:ok=%v DirSync:ok=%v order=%q); path: %s",
					f.Must["os.Remove:ok"], f.Must["DirSync:ok"], f.TS["dirsync"], strings.Join(f.Trace, " > ")))
		}}
	eng := newOrdEngine(p, spec)
	if len(eng.RunRoot(root, nil)) == 0 {
		r.Unknown("root", p.Position(root.Pos()), "no exit reached")
	}
}

func runORD07(p *Prog, r *RuleRun) {
	// a directory-sync routine: a function in fs/metadb that itself contains a DirSync call
	n := 0
	for _, fn := range p.Funcs {
		has := false
		for _, b := range fn.Blocks {
			for _, ins := range b.Instrs {
				if ci, ok := ins.(ssa.CallInstruction); ok && syncKind(ci) == "DirSync" {
					has = true
				}
			}
		}
		if !has {
			continue
		}
		n++
		spec := &OrdSpec{Name: "dirsync", Call: fsCall,
			OnReturn: func(cx *Ctx, ret *ssa.Return, class RetClass, f *Fact) {
				if class != RetSuccess && class != RetEither {
					return
				}
				ok := f.Must["os.Open:ok"] && f.Must["DirSync:ok"]
				r.Check(ok, cx.Key(ret, "return"), posOf(p, ret), "success only with os.Open(dir):ok and fsync ok",
					fmt.Sprintf("%s reports success although the directory fsync may have failed or been skipped (Open:ok=%v DirSync:ok=%v); path: %s",
						funcDisplay(cx.Fr.Fn), f.Must["os.Open:ok"], f.Must["DirSync:ok"], strings.Join(f.Trace, " > ")))
			}}
		eng := newOrdEngine(p, spec)
		eng.RunRoot(fn, nil)
	}
	r.Stats["dirsync_routines"] = n
}

// ---------------------------------------------------------------- ORD-08

func runORD08(p *Prog, r *RuleRun) {
	root := p.methodImpl("fs", "FS", "Create")
	fileT := p.NamedType("fs", "File")
	if root == nil || fileT == nil {
		r.Unknown("anchor", "?", "(*fs.FS).Create or fs.File not found")
		return
	}
	// the wrapper type is the one whose Sync is the ORD-05 routine
	params := make([]AV, len(root.Params))
	nStr := 0
	for i, prm := range root.Params {
		if b, ok := prm.Type().Underlying().(*types.Basic); ok && b.Kind() == types.Uint64 {
			params[i] = AV{Tag: "~size"}
		}
		if b, ok := prm.Type().Underlying().(*types.Basic); ok && b.Kind() == types.String {
			params[i] = AV{Tag: []string{"~dir", "~name"}[nStr%2]}
			nStr++
		}
	}
	nOpen := 0
	spec := &OrdSpec{Name: "fs.FS.Create", Call: fsCall,
		Value: func(cx *Ctx, v ssa.Value, f *Fact) (AV, bool) {
			// filepath.Join(dir, name) of Create's own parameters is the segment's final path
			c, ok := v.(*ssa.Call)
			if !ok || eventName(c) != "filepath.Join" || len(c.Call.Args) != 1 {
				return AV{}, false
			}
			var tags []string
			if sl, ok := c.Call.Args[0].(*ssa.Slice); ok {
				if al, ok := sl.X.(*ssa.Alloc); ok {
					n := 0
					if at, ok := al.Type().(*types.Pointer).Elem().Underlying().(*types.Array); ok {
						n = int(at.Len())
					}
					for i := 0; i < n; i++ {
						a, _ := cx.E.loadCell(cellKey{al, fmt.Sprintf("[%d]", i)}, f)
						tags = append(tags, a.Tag)
					}
				}
			}
			if len(tags) == 2 && tags[0] == "~dir" && tags[1] == "~name" {
				return AV{Tag: "~path:final"}, true
			}
			return AV{Tag: "~path:other"}, true
		},
		OnBranch: func(cx *Ctx, ifi *ssa.If, truth bool, f *Fact) {
			bo, ok := ifi.Cond.(*ssa.BinOp)
			if !ok {
				return
			}
			c, isC := bo.Y.(*ssa.Const)
			if cx.Eval(bo.X, f).Tag == "~size" && isC && c.Value != nil && c.Uint64() >= 1<<31-1 && c.Uint64() <= 1<<32-1 {
				// the upper limit: file offsets are 32 bit in the index frame and in the writer
				within := (bo.Op == token.GTR || bo.Op == token.GEQ) != truth
				if bo.Op == token.LSS || bo.Op == token.LEQ {
					within = truth
				}
				if within {
					f.TS["cap"] = "ok"
				}
				return
			}
			if cx.Eval(bo.X, f).Tag != "~size" || !isC || c.Int64() != 0 {
				return
			}
			pos := (bo.Op == token.GTR || bo.Op == token.NEQ) == truth
			if bo.Op != token.GTR && bo.Op != token.NEQ && bo.Op != token.EQL && bo.Op != token.LEQ {
				return
			}
			if bo.Op == token.EQL || bo.Op == token.LEQ {
				pos = !truth
			}
			if pos {
				f.TS["size"] = "pos"
			} else {
				f.TS["size"] = "zero"
			}
		},
		OnEvent: func(cx *Ctx, ev, phase string, ins ssa.Instruction, f *Fact) {
			ci, _ := ins.(ssa.CallInstruction)
			if phase != "call" || ci == nil {
				return
			}
			switch ev {
			case "os.OpenFile":
				nOpen++
				key := cx.Key(ins, "os.OpenFile")
				var flags int64
				ok := false
				if fl, isC := ci.Common().Args[1].(*ssa.Const); isC {
					flags, ok = fl.Int64(), true
				} else if a := cx.Eval(ci.Common().Args[1], f); a.K == avInt {
					flags, ok = a.N, true // a constant handed down through a helper's parameter
				}
				oCreate, ok1 := depConstInt(p, "os", "O_CREATE")
				oExcl, ok2 := depConstInt(p, "os", "O_EXCL")
				if !ok1 || !ok2 {
					r.Unknown(key, posOf(p, ins), "os.O_CREATE / os.O_EXCL not found for the target platform")
				} else if !ok {
					r.Unknown(key, posOf(p, ins), "open flags are not a compile-time constant")
				} else if v := flags; v&oCreate != 0 && v&oExcl != 0 {
					if pt := cx.Eval(ci.Common().Args[0], f).Tag; pt != "~path:final" {
						r.Fail(key, posOf(p, ins), "the exclusive create is not performed on the segment's own path filepath.Join(dir, name) ("+pt+"): exclusivity of a temporary or decorated name says nothing about a file that already has the segment's name")
						return
					}
					r.OK(key, posOf(p, ins), fmt.Sprintf("flags %#x contain O_CREATE|O_EXCL (%#x|%#x on this platform), on filepath.Join(dir, name)", v, oCreate, oExcl))
				} else {
					r.Fail(key, posOf(p, ins), fmt.Sprintf("new segment files must be created exclusively: flags %#x lack O_CREATE|O_EXCL, an existing file would be silently reused", flags))
				}
			case "os.Rename":
				r.Fail(cx.Key(ins, "os.Rename"), posOf(p, ins), "Create renames a file onto a name: rename(2) silently replaces an existing destination, so a segment file that already exists (possibly holding committed, fsynced entries) is swapped for an empty one instead of Create failing with EEXIST")
			case "fileutil.Preallocate":
				key := cx.Key(ins, "Preallocate")
				ext, ok := ci.Common().Args[2].(*ssa.Const)
				if ok && ext.Value != nil && constant.BoolVal(ext.Value) {
					r.OK(key, posOf(p, ins), "Preallocate(f, size, extendFile=true)")
				} else {
					r.Fail(key, posOf(p, ins), "Preallocate is not asked to extend the file (extendFile must be the constant true): the file is not sized/zero-filled to the requested size")
				}
			}
		},
		OnReturn: func(cx *Ctx, ret *ssa.Return, class RetClass, f *Fact) {
			if class != RetSuccess && class != RetEither {
				return
			}
			key := cx.Key(ret, "return")
			pos := posOf(p, ret)
			if !f.Must["os.OpenFile:ok"] {
				r.Fail(key, pos, "Create succeeds without os.OpenFile:ok")
				return
			}
			if f.TS["size"] != "zero" && f.TS["cap"] != "ok" {
				r.Fail(key, pos, "Create succeeds for a non-zero size that was never checked against the 32-bit limit: frame offsets are stored as uint32 (index frame, write offset), so a segment larger than 4 GiB silently wraps them; path: "+strings.Join(f.Trace, " > "))
				return
			}
			if f.TS["size"] != "zero" && !f.Must["fileutil.Preallocate:ok"] {
				r.Fail(key, pos, fmt.Sprintf("Create succeeds for a non-zero size without a successful preallocation (size test seen: %q); path: %s", f.TS["size"], strings.Join(f.Trace, " > ")))
				return
			}
			// the returned value must be the dir-syncing wrapper
			mi, ok := ret.Results[0].(*ssa.MakeInterface)
			if !ok {
				r.Fail(key, pos, "Create's success result is not a freshly wrapped file")
				return
			}
			pt, _ := mi.X.Type().(*types.Pointer)
			if pt == nil || !types.Identical(pt.Elem(), fileT) {
				r.Fail(key, pos, fmt.Sprintf("Create returns %s instead of *fs.File: the first Sync will not fsync the parent directory", mi.X.Type()))
				return
			}
			r.OK(key, pos, "success: OpenFile:ok, preallocated when size>0, returns the dir-syncing *fs.File wrapper")
		}}
	eng := newOrdEngine(p, spec)
	if len(eng.RunRootWith(root, params, nil, nil)) == 0 {
		r.Unknown("root", p.Position(root.Pos()), "no exit reached")
	}
	if nOpen == 0 {
		r.Unknown("anchor:OpenFile", p.Position(root.Pos()), "Create does not call os.OpenFile")
	}
}

// ---------------------------------------------------------------- ORD-09

func runORD09(p *Prog, r *RuleRun) {
	root := p.Func("metadb", "BoltMetaDB.ensureOpen")
	if root == nil {
		// fall back: Load is the interface entry point
		root = p.methodImpl("metadb", "BoltMetaDB", "Load")
	}
	fileName, okc := "", false
	if c, ok := p.Pkg["metadb"].Types.Scope().Lookup("FileName").(*types.Const); ok {
		fileName, okc = constant.StringVal(c.Val()), true
	}
	if root == nil || !okc {
		r.Unknown("anchor", "?", "metadb.(*BoltMetaDB).ensureOpen / metadb.FileName not found")
		return
	}
	pathTag := func(cx *Ctx, v ssa.Value, f *Fact) string { return cx.Eval(v, f).Tag }
	seenRename, seenFinalOpen := 0, 0
	spec := &OrdSpec{Name: "metadb.init",
		Call: func(cx *Ctx, ci ssa.CallInstruction) CallInfo {
			n := eventName(ci)
			switch n {
			case "bbolt.Open", "bbolt.DB.Begin", "bbolt.Tx.CreateBucket":
				return CallInfo{Event: n, Primitive: true}
			}
			return fsCall(cx, ci)
		},
		Value: func(cx *Ctx, v ssa.Value, f *Fact) (AV, bool) {
			if isJoin, last, ok := joinLast(v); isJoin && ok {
				return AV{Tag: "path:" + last}, true
			}
			// <final path> + ".tmp": a sibling of the named file
			if bo, ok := v.(*ssa.BinOp); ok && bo.Op == token.ADD {
				if ax := cx.Eval(bo.X, f); strings.HasPrefix(ax.Tag, "path:") {
					if s, ok := strArg(cx, bo.Y, f); ok {
						return AV{Tag: ax.Tag + s}, true
					}
				}
			}
			return AV{}, false
		},
		OnEvent: func(cx *Ctx, ev, phase string, ins ssa.Instruction, f *Fact) {
			ci, _ := ins.(ssa.CallInstruction)
			if ci == nil {
				return
			}
			args := ci.Common().Args
			switch ev {
			case "bbolt.Open":
				tag := pathTag(cx, args[0], f)
				if phase == "call" && f.TS["open"] == "" {
					f.TS["open"] = "called" // typestate: survives the merge with the "already open" path
				}
				if phase == "ok" {
					f.Add("bbolt.Open(" + tag + "):ok")
					if tag == "path:"+fileName {
						f.TS["open"] = "final-ok"
					}
				}
				if phase == "call" && tag == "path:"+fileName {
					seenFinalOpen++
					key := cx.Key(ins, "bbolt.Open(final)")
					ok := f.Must["os.Stat:ok"] || (f.Must["os.Rename:ok"] && f.Must["DirSync:ok"])
					r.Check(ok, key, posOf(p, ins), "the final name is opened only when it already exists (Stat:ok) or after rename + directory fsync",
						"the meta DB is opened under its final name although it neither existed nor was moved into place with rename + directory fsync: bbolt would initialise it in place, which is not crash-safe; path: "+strings.Join(f.Trace, " > "))
				}
				if phase == "call" && tag == "" {
					r.Unknown(cx.Key(ins, "bbolt.Open(?)"), posOf(p, ins), "bbolt.Open with a path the analysis cannot name")
				}
				if phase == "call" && tag != "" && tag != "path:"+fileName {
					// the temporary DB is built from scratch: whatever an earlier, interrupted attempt left under
					// that name is removed first (bbolt.Open would otherwise adopt - or choke on - its content)
					r.Check(f.Must["Remove("+tag+"):ok"], cx.Key(ins, "tmp-fresh"), posOf(p, ins), "leftovers of an interrupted initialisation are removed before the temporary DB is opened",
						"the temporary meta DB is opened without first removing a file of that name left behind by an interrupted initialisation: bbolt opens the stale file (a torn one makes every later Open fail; a complete one without buckets is renamed into place); path: "+strings.Join(f.Trace, " > "))
				}
			case "bbolt.Tx.CreateBucket":
				if phase == "ok" {
					if s, ok := strArg(cx, args[1], f); ok {
						f.Add("CreateBucket(" + s + "):ok")
					}
				}
			case "bbolt.DB.Begin":
				if phase == "ok" {
					if w, known := boolArg(cx, args[1], f); known && w {
						f.Add("Begin(rw):ok")
					}
				}
			case "os.Remove", "os.RemoveAll":
				if phase == "ok" {
					if tag := pathTag(cx, args[0], f); tag != "" {
						f.Add("Remove(" + tag + "):ok")
					}
				}
			case "os.Rename":
				if phase != "call" {
					return
				}
				seenRename++
				key := cx.Key(ins, "os.Rename")
				src, dst := pathTag(cx, args[0], f), pathTag(cx, args[1], f)
				need := []string{"bbolt.Open(" + src + "):ok", "Begin(rw):ok", "CreateBucket(wal-meta):ok", "CreateBucket(stable):ok", "bbolt.Tx.Commit:ok", "bbolt.DB.Close:ok"}
				var miss []string
				for _, t := range need {
					if !f.Must[t] {
						miss = append(miss, t)
					}
				}
				switch {
				case dst != "path:"+fileName:
					r.Fail(key, posOf(p, ins), fmt.Sprintf("rename destination is %q, want the final DB name %q", dst, fileName))
				case src == "" || src == dst:
					r.Fail(key, posOf(p, ins), fmt.Sprintf("rename source %q is not the temporary DB that was just built", src))
				case len(miss) > 0:
					r.Fail(key, posOf(p, ins), "the temporary meta DB is renamed into place before it is complete; missing before rename: "+strings.Join(miss, ", ")+"; path: "+strings.Join(f.Trace, " > "))
				default:
					r.OK(key, posOf(p, ins), "rename only after tmp open, both buckets, commit and close succeeded; "+src+" -> "+dst)
				}
			case "DirSync":
				if phase == "call" {
					key := cx.Key(ins, "DirSync")
					r.Check(f.Must["os.Rename:ok"], key, posOf(p, ins), "directory fsync follows the successful rename",
						"directory fsync is not ordered after a successful rename; path: "+strings.Join(f.Trace, " > "))
				}
			}
		},
		OnReturn: func(cx *Ctx, ret *ssa.Return, class RetClass, f *Fact) {
			if class != RetSuccess && class != RetEither {
				return
			}
			key := cx.Key(ret, "return")
			ok := f.Must["bbolt.Open(path:"+fileName+"):ok"] || !f.May["bbolt.Open"] || f.TS["open"] == "final-ok" || f.TS["open"] == ""
			r.Check(ok, key, posOf(p, ret), "success with the final DB open (or already open)", "ensureOpen succeeds without the final DB open; path: "+strings.Join(f.Trace, " > "))
		}}
	eng := newOrdEngine(p, spec)
	if len(eng.RunRoot(root, nil)) == 0 {
		r.Unknown("root", p.Position(root.Pos()), "no exit reached")
	}
	if seenRename == 0 {
		r.Fail("no-rename", p.Position(root.Pos()), "the meta DB initialisation never renames a temporary file into place")
	}
	if seenFinalOpen == 0 {
		r.Unknown("anchor:final-open", p.Position(root.Pos()), "no bbolt.Open of the final name found")
	}
	r.Stats["engine_steps"] = eng.Steps
}

// ---------------------------------------------------------------- ORD-10

func runORD10(p *Prog, r *RuleRun) {
	type rootSpec struct {
		method, bucketConst string
	}
	consts := map[string]string{}
	for _, n := range []string{"MetaBucket", "StableBucket", "MetaKey"} {
		if c, ok := p.Pkg["metadb"].Types.Scope().Lookup(n).(*types.Const); ok {
			consts[n] = constant.StringVal(c.Val())
		} else {
			r.Unknown("anchor:"+n, "?", "metadb."+n+" not found")
			return
		}
	}
	for _, rs := range []rootSpec{{"SetStable", "StableBucket"}, {"CommitState", "MetaBucket"}, {"GetStable", "StableBucket"}, {"Load", "MetaBucket"}} {
		root := p.methodImpl("metadb", "BoltMetaDB", rs.method)
		if root == nil {
			r.Unknown("anchor:"+rs.method, "?", "(*metadb.BoltMetaDB)."+rs.method+" not found")
			continue
		}
		want := consts[rs.bucketConst]
		writer := rs.method == "SetStable" || rs.method == "CommitState"
		spec := &OrdSpec{Name: "metadb." + rs.method,
			Call: func(cx *Ctx, ci ssa.CallInstruction) CallInfo {
				n := eventName(ci)
				switch n {
				case "bbolt.DB.Begin", "bbolt.Tx.Commit", "bbolt.Bucket.Put", "bbolt.Bucket.Delete", "bbolt.Tx.Bucket", "bbolt.Bucket.Get", "bbolt.Tx.Rollback":
					return CallInfo{Event: n, Primitive: true}
				}
				if cx.Fr.Parent == nil && strings.HasSuffix(n, ".ensureOpen") {
					return CallInfo{Primitive: true} // ORD-09's subject
				}
				return CallInfo{}
			},
			Value: func(cx *Ctx, v ssa.Value, f *Fact) (AV, bool) {
				if c, ok := v.(*ssa.Call); ok && eventName(c) == "bbolt.Tx.Bucket" {
					if s, ok := strArg(cx, c.Call.Args[1], f); ok {
						return AV{Tag: "bucket:" + s}, true
					}
					return AV{Tag: "bucket:?"}, true
				}
				return AV{}, false
			},
			OnEvent: func(cx *Ctx, ev, phase string, ins ssa.Instruction, f *Fact) {
				ci, _ := ins.(ssa.CallInstruction)
				if ci == nil {
					return
				}
				args := ci.Common().Args
				switch ev {
				case "bbolt.DB.Begin":
					if phase == "ok" {
						if w, known := boolArg(cx, args[1], f); known && w {
							f.Add("Begin(rw):ok")
						} else {
							f.Add("Begin(ro):ok")
						}
					}
				case "bbolt.Bucket.Put", "bbolt.Bucket.Delete", "bbolt.Bucket.Get":
					if phase == "call" {
						tag := cx.Eval(args[0], f).Tag
						key := cx.Key(ins, strings.TrimPrefix(ev, "bbolt.")+":bucket")
						r.Check(tag == "bucket:"+want, key, posOf(p, ins), rs.method+" operates on bucket "+want,
							fmt.Sprintf("%s must use only bucket %q but this %s is on %q: stable store and log metadata are no longer isolated", rs.method, want, ev, tag))
						if rs.method == "CommitState" && ev == "bbolt.Bucket.Put" {
							k, ok := strArg(cx, args[1], f)
							r.Check(ok && k == consts["MetaKey"], cx.Key(ins, "Put:key"), posOf(p, ins), "state stored under MetaKey",
								fmt.Sprintf("CommitState stores the state under key %q, want MetaKey %q", k, consts["MetaKey"]))
						}
					}
					if phase == "ok" && ev != "bbolt.Bucket.Get" {
						switch f.TS["writes"] {
						case "":
							f.TS["writes"] = "1"
						default:
							f.TS["writes"] = "many"
						}
					}
				case "bbolt.Tx.Commit":
					if phase == "call" && writer {
						key := cx.Key(ins, "Tx.Commit")
						ok := f.Must["Begin(rw):ok"] && f.TS["writes"] == "1"
						r.Check(ok, key, posOf(p, ins), "commit of a read-write transaction holding exactly one Put/Delete",
							fmt.Sprintf("commit is not of a read-write transaction with exactly one successful Put/Delete (Begin(rw):ok=%v writes=%q); path: %s", f.Must["Begin(rw):ok"], f.TS["writes"], strings.Join(f.Trace, " > ")))
					}
				}
			},
			OnReturn: func(cx *Ctx, ret *ssa.Return, class RetClass, f *Fact) {
				if !writer || (class != RetSuccess && class != RetEither) {
					return
				}
				key := cx.Key(ret, "return")
				ok := f.Must["bbolt.Tx.Commit:ok"] && f.TS["writes"] == "1"
				r.Check(ok, key, posOf(p, ret), rs.method+" returns nil only after Tx.Commit:ok",
					fmt.Sprintf("%s returns nil without a successfully committed write (Commit:ok=%v writes=%q): the value is acknowledged but not durable; path: %s", rs.method, f.Must["bbolt.Tx.Commit:ok"], f.TS["writes"], strings.Join(f.Trace, " > ")))
			}}
		eng := newOrdEngine(p, spec)
		if len(eng.RunRoot(root, nil)) == 0 {
			r.Unknown("root:"+rs.method, p.Position(root.Pos()), "no exit reached")
		}
	}
}
