package main

import (
	"fmt"
	"go/token"
	"go/types"
	"sort"
	"strings"

	"golang.org/x/tools/go/ssa"
)

func init() {
	register(&Rule{ID: "ORD-26", Title: "migration plumbing: progress always closed, cancellation checked per iteration, no batch dropped or sent twice, one fresh raft.Log per entry",
		Props: []string{"C19"}, Floor: 6, Run: runORD26})
	register(&Rule{ID: "ORD-27", Title: "segment headers are validated against metadata on Open and on tail recovery (unless re-written)",
		Props: []string{"C02", "C11"}, Floor: 2, Run: runORD27})
	register(&Rule{ID: "VF-03", Title: "decoded slices and stable values are fresh copies, never sub-slices of the input / of bolt's memory",
		Props: []string{"C12", "C08"}, Floor: 3, Run: runVF03})
	register(&Rule{ID: "VF-07", Title: "segment IDs come from the persisted counter, which is always incremented and part of the persisted state",
		Props: []string{"C13", "C02", "C04"}, Floor: 4, Run: runVF07})
	register(&Rule{ID: "VF-14", Title: "the orphan sweep deletes List() minus the segments metadata names",
		Props: []string{"C01", "C13", "C03", "C05"}, Floor: 3, Run: runVF14})
	register(&Rule{ID: "VF-15", Title: "whatever a truncation removes from the segment list is handed to the finalizer for close + delete",
		Props: []string{"C04", "C13"}, Floor: 3, Run: runVF15})
	register(&Rule{ID: "VF-16", Title: "no storage error is dropped",
		Props: []string{"C01", "C07", "C10"}, Floor: 40, Run: runVF16})
}

// ---------------------------------------------------------------- ORD-26

func runORD26(p *Prog, r *RuleRun) {
	for _, name := range []string{"CopyLogs", "CopyStable"} {
		fn := p.Func("migrate", name)
		if fn == nil {
			r.Unknown("anchor:"+name, "?", "migrate."+name+" not found")
			continue
		}
		var progress *ssa.Parameter
		for _, prm := range fn.Params {
			if ch, ok := prm.Type().Underlying().(*types.Chan); ok && ch.Dir() == types.SendOnly {
				progress = prm
			}
		}
		// (a) a deferred closure that closes progress (guarded only by != nil) is registered in the entry block
		okDefer := false
		entry := fn.Blocks[0]
		for _, ins := range entry.Instrs {
			d, ok := ins.(*ssa.Defer)
			if !ok {
				continue
			}
			cl := d.Call.StaticCallee()
			if cl == nil {
				continue
			}
			closes, guardedOnlyByNil := false, true
			for _, b := range cl.Blocks {
				for _, i2 := range b.Instrs {
					if c, ok := i2.(ssa.CallInstruction); ok && isBuiltinCall(c, "close") {
						closes = true
					}
					if ifi, ok := i2.(*ssa.If); ok {
						bo, ok := ifi.Cond.(*ssa.BinOp)
						if !ok {
							guardedOnlyByNil = false
							continue
						}
						if c, ok := bo.Y.(*ssa.Const); !ok || !c.IsNil() {
							guardedOnlyByNil = false
						}
					}
				}
			}
			if closes && guardedOnlyByNil {
				okDefer = true
			}
		}
		r.Check(okDefer && progress != nil, funcDisplay(fn)+":progress-closed", p.Position(fn.Pos()), "a deferred close(progress) (guarded only by progress != nil) is registered before anything can return",
			"the progress channel is not closed by a defer registered at entry: some return path leaves the caller's range-over-progress blocked forever")
		// (b) every loop that calls dst.* tests ctx.Err() first and returns it
		live := liveBlocks(fn)
		nLoops := 0
		for _, b := range fn.Blocks {
			if !live[b] {
				continue
			}
			isHeader := false
			for _, pr := range b.Preds {
				if b.Dominates(pr) {
					isHeader = true
				}
			}
			if !isHeader {
				continue
			}
			// loop body blocks: dominated by header and able to reach it
			callsStore := false
			var firstStoreCall ssa.Instruction
			for _, lb := range fn.Blocks {
				if !b.Dominates(lb) || !reachesBlock(lb, b) {
					continue
				}
				for _, ins := range lb.Instrs {
					if c, ok := ins.(ssa.CallInstruction); ok && c.Common().IsInvoke() {
						n := eventName(c)
						if strings.HasPrefix(n, "raft.LogStore.") || strings.HasPrefix(n, "raft.StableStore.") {
							callsStore = true
							if firstStoreCall == nil {
								firstStoreCall = ins
							}
						}
					}
				}
			}
			if !callsStore {
				continue
			}
			nLoops++
			key := fmt.Sprintf("%s:ctx-check#%d", funcDisplay(fn), nLoops)
			ok := false
			for _, lb := range fn.Blocks {
				if !b.Dominates(lb) {
					continue
				}
				ifi, isIf := lb.Instrs[len(lb.Instrs)-1].(*ssa.If)
				if !isIf {
					continue
				}
				bo, isBo := ifi.Cond.(*ssa.BinOp)
				if !isBo || bo.Op != token.NEQ {
					continue
				}
				c, isCall := bo.X.(*ssa.Call)
				if !isCall || eventName(c) != "context.Context.Err" {
					continue
				}
				// the true edge returns ctx.Err(); the false edge dominates every store call of the loop
				returns := false
				for _, i2 := range lb.Succs[0].Instrs {
					if st, isSt := i2.(*ssa.Store); isSt {
						if c2, isC := st.Val.(*ssa.Call); isC && eventName(c2) == "context.Context.Err" {
							returns = true
						}
					}
					if ret, isRet := i2.(*ssa.Return); isRet {
						if c2, isC := ret.Results[len(ret.Results)-1].(*ssa.Call); isC && eventName(c2) == "context.Context.Err" {
							returns = true
						}
					}
				}
				if returns && firstStoreCall != nil && lb.Succs[1].Dominates(firstStoreCall.Block()) {
					ok = true
				}
			}
			r.Check(ok, key, posOf(p, b.Instrs[0]), "each iteration tests ctx.Err() before touching the stores and returns it",
				"a copy loop does not test ctx.Err() (and return it) before the per-iteration store calls: cancellation is ignored or reported with the wrong error")
		}
		if nLoops == 0 {
			r.Fail(funcDisplay(fn)+":ctx-check", p.Position(fn.Pos()), "no copy loop found in "+name)
		}
	}
	// (c) batch typestate in CopyLogs
	cl := p.Func("migrate", "CopyLogs")
	if cl == nil {
		return
	}
	isLogSlice := func(t types.Type) bool {
		return strings.HasSuffix(t.String(), "[]*github.com/hashicorp/raft.Log")
	}
	spec := &OrdSpec{Name: "copy-batch",
		Call: func(cx *Ctx, ci ssa.CallInstruction) CallInfo {
			n := eventName(ci)
			switch n {
			case "raft.LogStore.StoreLogs", "raft.LogStore.GetLog":
				return CallInfo{Event: n, Primitive: true}
			case "context.Context.Err":
				return CallInfo{Event: "CTXERR", Primitive: true}
			}
			if isBuiltinCall(ci, "append") && isLogSlice(ci.Common().Args[0].Type()) {
				return CallInfo{Event: "APPEND"}
			}
			if cx.Fr.Parent == nil && ci.Common().StaticCallee() == nil && !ci.Common().IsInvoke() {
				if _, isB := ci.Common().Value.(*ssa.Builtin); !isB {
					return CallInfo{Skip: true} // the progress reporter
				}
			}
			return CallInfo{}
		},
		Instr: func(cx *Ctx, ins ssa.Instruction, f *Fact) {
			if sl, ok := ins.(*ssa.Slice); ok && isLogSlice(sl.Type()) && sl.High != nil {
				if c, ok := sl.High.(*ssa.Const); ok && c.Int64() == 0 {
					if _, fromArray := sl.X.Type().Underlying().(*types.Pointer); !fromArray {
						cx.E.emit(cx, "RESET", "", ins, f)
					}
				}
			}
		},
		OnBranch: func(cx *Ctx, ifi *ssa.If, truth bool, f *Fact) {
			bo, ok := ifi.Cond.(*ssa.BinOp)
			if !ok || bo.Op != token.GTR {
				return
			}
			if c, ok := bo.X.(*ssa.Call); ok && isBuiltinCall(c, "len") && isLogSlice(c.Call.Args[0].Type()) {
				if z, ok := bo.Y.(*ssa.Const); ok && z.Int64() == 0 && !truth && f.TS["batch"] != "SENT" {
					f.TS["batch"] = ""
				}
			}
		},
		OnEvent: func(cx *Ctx, ev, phase string, ins ssa.Instruction, f *Fact) {
			switch {
			case ev == "CTXERR" && phase == "ok" && f.Must["CTXERR:fail"]:
				f.TS["infeasible"] = "ctx.Err() non-nil then nil"
			case ev == "CTXERR" && phase == "call":
				f.Kill("CTXERR:ok")
			case ev == "APPEND":
				if f.TS["batch"] == "SENT" {
					r.Fail(cx.Key(ins, "append-after-send"), posOf(p, ins), "an entry is appended to a batch that was already stored and not reset: the next flush stores the earlier entries a second time (duplicates / non-monotonic append in the destination)")
				}
				f.TS["batch"] = "PENDING"
			case ev == "raft.LogStore.StoreLogs" && phase == "ok":
				f.TS["batch"] = "SENT"
			case ev == "RESET":
				if f.TS["batch"] == "PENDING" {
					r.Fail(cx.Key(ins, "reset-while-pending"), posOf(p, ins), "the batch is emptied while it still holds entries that were never passed to StoreLogs: those entries are missing in the destination; path: "+trace(f))
				}
				f.TS["batch"] = ""
			}
		},
		OnReturn: func(cx *Ctx, ret *ssa.Return, class RetClass, f *Fact) {
			if (class != RetSuccess && class != RetEither) || f.TS["infeasible"] != "" {
				return
			}
			r.Check(f.TS["batch"] != "PENDING", cx.Key(ret, "return"), posOf(p, ret), "CopyLogs returns nil with no appended entry left unflushed",
				"CopyLogs returns nil while entries appended to the batch were never stored (the final partial batch is dropped): the destination misses the tail of the log; path: "+trace(f))
		}}
	eng := newOrdEngine(p, spec)
	eng.RunRoot(cl, nil)
	finishEngine(r, eng)
	// (d) the raft.Log whose address is appended is allocated inside the loop body
	okFresh, found := true, false
	for _, b := range cl.Blocks {
		for _, ins := range b.Instrs {
			c, ok := ins.(*ssa.Call)
			if !ok || !isBuiltinCall(c, "append") || !isLogSlice(c.Call.Args[0].Type()) {
				continue
			}
			// appended elements: stores into the varargs array
			if sl, ok := c.Call.Args[1].(*ssa.Slice); ok {
				if arr, ok := sl.X.(*ssa.Alloc); ok {
					for _, ref := range *arr.Referrers() {
						if ia, ok := ref.(*ssa.IndexAddr); ok {
							for _, r2 := range *ia.Referrers() {
								if st, ok := r2.(*ssa.Store); ok {
									found = true
									al, isAlloc := st.Val.(*ssa.Alloc)
									inLoop := false
									if isAlloc {
										for _, h := range cl.Blocks {
											for _, pr := range h.Preds {
												if h.Dominates(pr) && h.Dominates(al.Block()) && h != cl.Blocks[0] && reachesBlock(al.Block(), h) {
													inLoop = true
												}
											}
										}
									}
									if !isAlloc || !inLoop {
										okFresh = false
									}
								}
							}
						}
					}
				}
			}
		}
	}
	r.Check(found && okFresh, funcDisplay(cl)+":fresh-log-per-entry", p.Position(cl.Pos()), "the *raft.Log appended to the batch is allocated anew in every iteration",
		"the raft.Log whose address is appended to the batch is not allocated per iteration: every element of a batch aliases the same Log and the destination receives N copies of the last entry")
}

// reachesBlock: can control flow from a reach b?
func reachesBlock(a, b *ssa.BasicBlock) bool {
	seen := map[*ssa.BasicBlock]bool{}
	var walk func(x *ssa.BasicBlock) bool
	walk = func(x *ssa.BasicBlock) bool {
		if x == b {
			return true
		}
		if seen[x] {
			return false
		}
		seen[x] = true
		for _, s := range x.Succs {
			if walk(s) {
				return true
			}
		}
		return false
	}
	for _, s := range a.Succs {
		if walk(s) {
			return true
		}
	}
	return false
}

// ---------------------------------------------------------------- ORD-27

func runORD27(p *Prog, r *RuleRun) {
	pk := p.Pkg["segment"]
	validators := funcsBySig(p, pk, func(sig *types.Signature) bool {
		return sig.Recv() == nil && sig.Params().Len() == 2 && isNamed(sig.Params().At(0).Type(), ModPath+"/types", "SegmentInfo") &&
			isNamed(sig.Params().At(1).Type(), ModPath+"/types", "SegmentInfo") && sig.Results().Len() == 1
	})
	writers := funcsBySig(p, pk, func(sig *types.Signature) bool {
		return sig.Recv() == nil && sig.Params().Len() == 2 && isNamed(sig.Params().At(1).Type(), ModPath+"/types", "SegmentInfo") &&
			sig.Params().At(0).Type().String() == "[]byte" && sig.Results().Len() == 1
	})
	openFn, rtFn := p.methodImpl("segment", "Filer", "Open"), p.methodImpl("segment", "Filer", "RecoverTail")
	if len(validators) != 1 || len(writers) != 1 || openFn == nil || rtFn == nil {
		r.Unknown("anchor", "?", "header validator/writer (by signature) or Filer.Open/RecoverTail not found")
		return
	}
	vfn, wfn := p.Func("segment", validators[0].Name.Name), p.Func("segment", writers[0].Name.Name)
	spec := &OrdSpec{Name: "header-validation",
		Call: func(cx *Ctx, ci ssa.CallInstruction) CallInfo {
			switch ci.Common().StaticCallee() {
			case vfn:
				return CallInfo{Event: "VALIDATE", Primitive: true}
			case wfn:
				return CallInfo{Event: "WRITEHDR", Primitive: true}
			}
			if n := eventName(ci); strings.HasSuffix(n, ".ReadAt") {
				return CallInfo{Event: "ReadAt", Primitive: true}
			}
			return CallInfo{}
		},
		OnEvent: func(cx *Ctx, ev, phase string, ins ssa.Instruction, f *Fact) {
			if ev == "VALIDATE" && phase == "ok" {
				f.TS["hdr"] = "validated"
			}
			if ev == "WRITEHDR" && phase == "ok" {
				f.TS["hdr"] = "rewritten"
			}
		},
		OnReturn: func(cx *Ctx, ret *ssa.Return, class RetClass, f *Fact) {
			if class != RetSuccess && class != RetEither {
				return
			}
			key := cx.Key(ret, "return") + ":" + orDefault(f.TS["hdr"], "unchecked")
			if cx.Fr.Fn == openFn {
				r.Check(f.TS["hdr"] == "validated", key, posOf(p, ret), "a sealed segment is opened only after its header was read and matched against metadata",
					"Filer.Open returns a reader without validating the file header against the expected SegmentInfo: a missing, truncated or foreign file is presented as the segment and its entries are silently wrong or missing; path: "+trace(f))
			} else {
				r.Check(f.TS["hdr"] != "", key, posOf(p, ret), "tail recovery either validates the header ("+f.TS["hdr"]+") or re-initialises the file",
					"RecoverTail accepts a tail with committed data without validating its header against metadata; path: "+trace(f))
			}
		}}
	eng := newOrdEngine(p, spec)
	eng.RunRoot(openFn, nil)
	eng.RunRoot(rtFn, nil)
	finishEngine(r, eng)
}

// ---------------------------------------------------------------- VF-03

// freshSlice: v is nil, a make, or derived only from those (within production callees).
func freshSlice(p *Prog, v ssa.Value, seen map[ssa.Value]bool, depth int) (bool, string) {
	if v == nil || depth > 8 {
		return false, "too deep"
	}
	if seen[v] {
		return true, ""
	}
	seen[v] = true
	switch x := v.(type) {
	case *ssa.Const:
		if x.IsNil() {
			return true, ""
		}
	case *ssa.MakeSlice:
		return true, ""
	case *ssa.Slice:
		return freshSlice(p, x.X, seen, depth+1)
	case *ssa.Phi:
		for _, e := range x.Edges {
			if ok, why := freshSlice(p, e, seen, depth+1); !ok {
				return false, why
			}
		}
		return true, ""
	case *ssa.Call:
		if isBuiltinCall(x, "append") {
			return freshSlice(p, x.Call.Args[0], seen, depth+1)
		}
		if callee := x.Call.StaticCallee(); callee != nil && p.IsProdFunc(callee) && callee.Blocks != nil {
			for _, b := range callee.Blocks {
				for _, ins := range b.Instrs {
					if ret, ok := ins.(*ssa.Return); ok && len(ret.Results) > 0 {
						if ok, why := freshSlice(p, ret.Results[0], seen, depth+1); !ok {
							return false, why
						}
					}
				}
			}
			return true, ""
		}
	case *ssa.Alloc:
		return true, ""
	}
	return false, fmt.Sprintf("%s (%T)", strings.TrimSpace(v.String()), v)
}

func runVF03(p *Prog, r *RuleRun) {
	dec := p.Func("", "BinaryCodec.Decode")
	if dec == nil {
		r.Unknown("anchor:Decode", "?", "(*BinaryCodec).Decode not found")
	} else {
		n := 0
		for fn := range p.reachableFuncs(dec) {
			for _, b := range fn.Blocks {
				for _, ins := range b.Instrs {
					st, ok := ins.(*ssa.Store)
					if !ok {
						continue
					}
					fa, ok := st.Addr.(*ssa.FieldAddr)
					if !ok || !isNamed(fa.X.Type(), "github.com/hashicorp/raft", "Log") {
						continue
					}
					if _, isSlice := st.Val.Type().Underlying().(*types.Slice); !isSlice {
						continue
					}
					n++
					fname := fieldOfAddr(fa).Name()
					ok2, why := freshSlice(p, st.Val, map[ssa.Value]bool{}, 0)
					r.Check(ok2, funcDisplay(fn)+":store(raft.Log."+fname+")", posOf(p, st), "the decoded "+fname+" is nil or a freshly made copy",
						"the decoded raft.Log."+fname+" aliases the input buffer ("+why+"): GetLog returns its read buffer to the pool after decoding, so a later read overwrites the entry the caller still holds")
				}
			}
		}
		if n < 2 {
			r.Unknown(funcDisplay(dec)+":slice-stores", p.Position(dec.Pos()), fmt.Sprintf("only %d slice-typed stores into raft.Log found in Decode", n))
		}
	}
	gs := p.methodImpl("metadb", "BoltMetaDB", "GetStable")
	if gs == nil {
		r.Unknown("anchor:GetStable", "?", "(*BoltMetaDB).GetStable not found")
		return
	}
	for _, b := range gs.Blocks {
		for _, ins := range b.Instrs {
			if ret, ok := ins.(*ssa.Return); ok {
				v := ret.Results[0]
				if u, ok := v.(*ssa.UnOp); ok && u.Op == token.MUL {
					continue // result cell: judged through its stores below
				}
				ok2, why := freshSlice(p, v, map[ssa.Value]bool{}, 0)
				r.Check(ok2, gs.Name()+":"+describeIns(ret)+":value", posOf(p, ret), "the stable value returned is nil or a copy made inside the transaction",
					"GetStable returns bolt's own memory ("+why+"), which is only valid until the transaction ends: the caller reads freed/remapped pages")
			}
			if st, ok := ins.(*ssa.Store); ok {
				if al, ok := st.Addr.(*ssa.Alloc); ok && al.Comment == "" {
					if _, isSlice := st.Val.Type().Underlying().(*types.Slice); isSlice {
						ok2, why := freshSlice(p, st.Val, map[ssa.Value]bool{}, 0)
						r.Check(ok2, funcDisplay(gs)+":result-store@"+fmt.Sprint(b.Index), posOf(p, st), "the stable value returned is nil or a copy made inside the transaction",
							"GetStable returns bolt's own memory ("+why+"), which is only valid until the transaction ends: the caller reads freed/remapped pages")
					}
				}
			}
		}
	}
}

// ---------------------------------------------------------------- VF-07

func runVF07(p *Prog, r *RuleRun) {
	v := newWalVocab(p)
	if !checkWalAnchors(r, v, nil) {
		return
	}
	idF := p.Field("types", "SegmentInfo", "ID")
	nextPersist := p.Field("types", "PersistentState", "NextSegmentID")
	if idF == nil || nextPersist == nil {
		r.Unknown("anchor", "?", "types.SegmentInfo.ID / PersistentState.NextSegmentID not found")
		return
	}
	isCounterLoad := func(val ssa.Value) bool { return loadedField(val) == v.nextSegmentID }
	ord := ordinal{}
	// (a) every SegmentInfo.ID written in package wal is the counter's current value
	for _, fn := range p.Funcs {
		if pkgRelOf(p, fn) != "" {
			continue
		}
		for _, b := range fn.Blocks {
			for _, ins := range b.Instrs {
				st, ok := ins.(*ssa.Store)
				if !ok || fieldOfAddr(st.Addr) != idF {
					continue
				}
				key := ord.next(funcDisplay(fn) + ":store(SegmentInfo.ID)")
				if isCounterLoad(st.Val) {
					r.OK(key, posOf(p, st), "ID is the counter's current value")
					continue
				}
				prm, isParam := st.Val.(*ssa.Parameter)
				if !isParam {
					r.Fail(key, posOf(p, st), "a segment ID is assigned from "+strings.TrimSpace(st.Val.String())+" instead of the persisted next-ID counter: IDs (and file names) can repeat across the directory's lifetime")
					continue
				}
				idx := -1
				for i, q := range fn.Params {
					if q == prm {
						idx = i
					}
				}
				all, n := true, 0
				if node := p.CG.Nodes[fn]; node != nil {
					for _, e := range node.In {
						if !p.IsProdFunc(e.Caller.Func) {
							continue
						}
						n++
						args := e.Site.Common().Args
						if idx >= len(args) || !isCounterLoad(args[idx]) {
							all = false
						}
					}
				}
				r.Check(all && n > 0, key, posOf(p, st), fmt.Sprintf("all %d callers pass the counter's current value as the ID", n),
					"a caller passes something other than the state's next-ID counter as the new segment's ID")
			}
		}
	}
	// (b) counter stores: copy, persisted value, or +1
	for _, fn := range p.Funcs {
		if pkgRelOf(p, fn) != "" {
			continue
		}
		for _, b := range fn.Blocks {
			for _, ins := range b.Instrs {
				st, ok := ins.(*ssa.Store)
				if !ok || fieldOfAddr(st.Addr) != v.nextSegmentID {
					continue
				}
				key := ord.next(funcDisplay(fn) + ":store(nextSegmentID)")
				good := isCounterLoad(st.Val) || fieldLoadName(st.Val) == "NextSegmentID"
				if bo, ok := st.Val.(*ssa.BinOp); ok && bo.Op == token.ADD && isCounterLoad(bo.X) {
					if c, ok := bo.Y.(*ssa.Const); ok && c.Int64() >= 1 {
						good = true
					}
				}
				r.Check(good, key, posOf(p, st), "the counter is only copied, loaded from persisted state, or incremented",
					"the next-ID counter is assigned "+strings.TrimSpace(st.Val.String())+": it must only be copied, restored from the persisted state or incremented, otherwise IDs are reused")
			}
		}
	}
	// (c) every function that draws an ID increments the counter on every path to its exits
	_, sl, dr, _, rot := walRoots(p, v)
	open := p.Func("", "Open")
	spec := v.baseSpec("id-allocation")
	base := v.instr
	spec.Instr = func(cx *Ctx, ins ssa.Instruction, f *Fact) {
		base(cx, ins, f)
		// drawing an ID: a call passing the counter's value, or a direct store of it into SegmentInfo.ID
		if c, ok := ins.(*ssa.Call); ok {
			_ = c
		}
	}
	spec.OnEvent = func(cx *Ctx, ev, phase string, ins ssa.Instruction, f *Fact) {
		if ev == "ALLOC-ID" {
			delete(f.TS, "draw")
		}
	}
	origCall := spec.Call
	spec.Call = func(cx *Ctx, ci ssa.CallInstruction) CallInfo {
		for _, a := range ci.Common().Args {
			if isCounterLoad(a) {
				if callee := ci.Common().StaticCallee(); callee != nil && p.IsProdFunc(callee) {
					return CallInfo{Event: "DRAW-ID"}
				}
			}
		}
		return origCall(cx, ci)
	}
	prevOnEvent := spec.OnEvent
	spec.OnEvent = func(cx *Ctx, ev, phase string, ins ssa.Instruction, f *Fact) {
		if ev == "DRAW-ID" && phase == "call" {
			f.TS["draw"] = funcDisplay(cx.Fr.Fn)
		}
		prevOnEvent(cx, ev, phase, ins, f)
	}
	spec.OnAnyReturn = func(cx *Ctx, ret *ssa.Return, class RetClass, f *Fact) {
		if f.TS["draw"] == funcDisplay(cx.Fr.Fn) {
			r.Fail(cx.Key(ret, "return:id-not-consumed"), posOf(p, ret), funcDisplay(cx.Fr.Fn)+" uses the next-ID counter for a new segment and can return without incrementing it: the next segment created gets the same ID (and, with the same base index, the same file name)")
		}
	}
	nDraw := 0
	spec2 := *spec
	spec2.OnEvent = func(cx *Ctx, ev, phase string, ins ssa.Instruction, f *Fact) {
		if ev == "DRAW-ID" && phase == "call" {
			nDraw++
		}
		spec.OnEvent(cx, ev, phase, ins, f)
	}
	eng := newOrdEngine(p, &spec2)
	for _, root := range []*ssa.Function{open, sl, dr, rot} {
		if root != nil {
			eng.RunRoot(root, nil)
		}
	}
	finishEngine(r, eng)
	r.Check(nDraw >= 2, "id-draw-sites", "?", fmt.Sprintf("%d ID draws analysed; each is followed by the increment before its function returns", nDraw), "no site drawing a segment ID from the counter was found")
	// (d) the counter is part of the persisted state
	pers := p.Func("", "state.Persistent")
	okP := false
	if pers != nil {
		for _, b := range pers.Blocks {
			for _, ins := range b.Instrs {
				if st, ok := ins.(*ssa.Store); ok && fieldOfAddr(st.Addr) == nextPersist && isCounterLoad(st.Val) {
					okP = true
				}
			}
		}
	}
	r.Check(okP, "(*wal.state).Persistent:NextSegmentID", "?", "the counter is written into PersistentState.NextSegmentID", "the next-ID counter is not part of the persisted state: after a restart IDs start over and collide with existing files")
}

// ---------------------------------------------------------------- VF-14

func runVF14(p *Prog, r *RuleRun) {
	v := newWalVocab(p)
	open := p.Func("", "Open")
	if open == nil || !checkWalAnchors(r, v, nil) {
		r.Unknown("anchor", "?", "wal.Open not found")
		return
	}
	isList := func(c *ssa.Call) bool { return eventName(c) == "types.SegmentFiler.List" }
	pos := p.Position(open.Pos())
	// (a)+(c) by event order on every path of Open: the directory is listed before any file is deleted, and
	// before this Open creates any file (a file created after the listing can never be a sweep candidate;
	// one created before it would be listed without being known to the persisted metadata)
	spec := v.baseSpec("sweep-order")
	baseValue := spec.Value
	spec.Value = func(cx *Ctx, val ssa.Value, f *Fact) (AV, bool) {
		// the directory listing keeps its identity wherever it is passed (a helper that loads the segments)
		if c, ok := val.(*ssa.Call); ok && isList(c) {
			a := cx.Eval(val, f)
			t := AV{K: avTuple, Tup: make([]AV, 2)}
			if a.K == avTuple {
				copy(t.Tup, a.Tup)
			}
			t.Tup[0].Tag = "~listing"
			return t, true
		}
		return baseValue(cx, val, f)
	}
	baseCall := spec.Call
	nUnlist := 0
	spec.Call = func(cx *Ctx, ci ssa.CallInstruction) CallInfo {
		if isBuiltinCall(ci, "delete") && cx.F != nil && len(ci.Common().Args) == 2 &&
			cx.Eval(ci.Common().Args[0], cx.F).Tag == "~listing" && fieldLoadName(ci.Common().Args[1]) == "ID" {
			nUnlist++
			cx.F.TS["unl"] = "1" // this segment is taken off the list of sweep candidates
			return CallInfo{}
		}
		return baseCall(cx, ci)
	}
	engineKeep := 0
	spec.OnEvent = func(cx *Ctx, ev, phase string, ins ssa.Instruction, f *Fact) {
		if phase != "call" {
			return
		}
		switch ev {
		case "SegmentFiler.Open", "SegmentFiler.RecoverTail":
			engineKeep++
			if f.TS["unl"] == "1" {
				r.OK(cx.Key(ins, "unlist-before-keep"), posOf(p, ins), "the segment is taken off the sweep candidates before it is opened/recovered")
			} else if nUnlist > 0 {
				r.Fail(cx.Key(ins, "unlist-before-keep"), posOf(p, ins), "a persisted segment is opened/recovered on a path that did not take it off the list of sweep candidates first: Open would then delete a live segment file; path: "+trace(f))
			}
			delete(f.TS, "unl")
		}
		switch ev {
		case "SegmentFiler.Delete":
			r.Check(f.Must["SegmentFiler.List:ok"], cx.Key(ins, "sweep-after-list"), posOf(p, ins), "files are deleted by Open only after a successful List()",
				"Open deletes segment files on a path without a successful directory listing")
		case "SegmentFiler.Create":
			r.Check(f.Must["SegmentFiler.List:ok"], cx.Key(ins, "create-after-list"), posOf(p, ins), "every file this Open creates is created after the directory was listed, so it cannot be a sweep candidate",
				"Open creates a segment file (new tail / completed rotation) before it lists the directory for the orphan sweep: the freshly created live file is in the listing but not among the persisted segments the sweep spares, so Open deletes it; via "+cx.Fr.Stack())
		}
	}
	eng := newOrdEngine(p, spec)
	eng.RunRoot(open, nil)
	finishEngine(r, eng)
	// (b) every persisted segment that is kept is excluded from the candidates before it is opened/recovered:
	//     form A: delete(listing, seg.ID); form B: live[seg.ID] = ... with the listing filtered against `live` later
	var excl []ssa.Instruction
	var keep []ssa.Instruction
	for _, b := range open.Blocks {
		for _, ins := range b.Instrs {
			switch x := ins.(type) {
			case *ssa.Call:
				switch {
				case isBuiltinCall(x, "delete") && derivesFromCall(x.Call.Args[0], isList) && fieldLoadName(x.Call.Args[1]) == "ID":
					excl = append(excl, x)
				case eventName(x) == "types.SegmentFiler.Open" || eventName(x) == "types.SegmentFiler.RecoverTail":
					keep = append(keep, x)
				case x.Call.StaticCallee() != nil && pkgRelOf(p, x.Call.StaticCallee()) == "" && x.Call.StaticCallee().Blocks != nil &&
					p.reaches(x.Call.StaticCallee(), func(ci ssa.CallInstruction) bool {
						n := eventName(ci)
						return n == "types.SegmentFiler.Open" || n == "types.SegmentFiler.RecoverTail"
					}):
					keep = append(keep, x) // a helper of Open that opens / recovers the segment
				}
			case *ssa.MapUpdate:
				if fieldLoadName(x.Key) == "ID" {
					// form B needs the filter: some function reachable from Open deletes from a List()-derived map under a lookup
					filtered := false
					for fn := range p.reachableFuncs(open) {
						hasDel, hasLookup := false, false
						for _, b2 := range fn.Blocks {
							for _, i2 := range b2.Instrs {
								if c, ok := i2.(*ssa.Call); ok && isBuiltinCall(c, "delete") && derivesFromCall(c.Call.Args[0], isList) {
									hasDel = true
								}
								if _, ok := i2.(*ssa.Lookup); ok {
									hasLookup = true
								}
							}
						}
						if hasDel && hasLookup {
							filtered = true
						}
					}
					if filtered {
						excl = append(excl, x)
					}
				}
			}
		}
	}
	if nUnlist > 0 && engineKeep >= 2 {
		// form A was followed path-sensitively by the engine above (also through helpers of Open)
		return
	}
	if len(excl) == 0 {
		r.Fail("wal.Open:unlist", pos, "Open never excludes the segments metadata names from the set of files it sweeps: the sweep would delete live segment files")
	}
	for i, k := range keep {
		ok := false
		for _, e := range excl {
			if e.Block().Dominates(k.Block()) {
				ok = true
			}
		}
		r.Check(ok, fmt.Sprintf("wal.Open:unlist-dominates#%d", i+1), posOf(p, k),
			"the segment is excluded from the sweep candidates before it is opened/recovered (on every path that keeps it)",
			"a persisted segment can be opened/recovered on a path that did not exclude it from the sweep candidates: Open would then delete a live segment file")
	}
	if len(keep) < 2 {
		r.Unknown("wal.Open:keep-sites", pos, "SegmentFiler.Open / RecoverTail calls not found in Open")
	}
}

// ---------------------------------------------------------------- VF-15

func runVF15(p *Prog, r *RuleRun) {
	v := newWalVocab(p)
	if !checkWalAnchors(r, v, nil) {
		return
	}
	n := 0
	var fns []*ssa.Function
	for _, fn := range p.Funcs {
		if pkgRelOf(p, fn) == "" && v.isTxnSig(fn.Signature) {
			fns = append(fns, fn)
		}
	}
	sort.Slice(fns, func(i, j int) bool { return fns[i].String() < fns[j].String() })
	for _, fn := range fns {
		ord := ordinal{}
		for _, b := range fn.Blocks {
			for _, ins := range b.Instrs {
				c, ok := ins.(*ssa.Call)
				if !ok || !strings.HasSuffix(eventName(c), "SortedMap.Delete") && !strings.Contains(eventName(c), "SortedMap[") {
					continue
				}
				if callee := c.Call.StaticCallee(); callee == nil || !strings.HasPrefix(callee.Name(), "Delete") {
					continue
				}
				n++
				key := ord.next(funcDisplay(fn) + ":segments.Delete")
				// (a) same block records ID -> BaseIndex in a map and the reader in a slice
				mapUpd, appended := false, false
				for _, i2 := range b.Instrs {
					if mu, ok := i2.(*ssa.MapUpdate); ok && fieldLoadName(mu.Key) == "ID" && fieldLoadName(mu.Value) == "BaseIndex" {
						mapUpd = true
					}
					if c2, ok := i2.(*ssa.Call); ok && isBuiltinCall(c2, "append") {
						appended = true
					}
				}
				// (b) or a closure created in this block captures the removed segment and deletes/closes it
				closureOK := false
				closesAndDeletes := func(cf *ssa.Function) bool {
					return p.reaches(cf, func(ci ssa.CallInstruction) bool { return eventName(ci) == "types.SegmentFiler.Delete" }) &&
						p.reaches(cf, func(ci ssa.CallInstruction) bool { return eventName(ci) == "io.Closer.Close" })
				}
				for _, i2 := range b.Instrs {
					switch x := i2.(type) {
					case *ssa.MakeClosure:
						if closesAndDeletes(x.Fn.(*ssa.Function)) {
							closureOK = true
						}
					case *ssa.Call:
						// a helper that builds the finalizer from the reader(s) and file(s) handed to it
						callee := x.Call.StaticCallee()
						if callee == nil || pkgRelOf(p, callee) != "" || callee.Signature.Results().Len() != 1 || callee.Signature.Results().At(0).Type().String() != "func()" {
							continue
						}
						for _, af := range callee.AnonFuncs {
							if closesAndDeletes(af) {
								closureOK = true
							}
						}
					}
				}
				// (c) or a collector helper called in this block does the recording (ID -> BaseIndex into a map, the
				// reader appended to a slice) on the segment handed to it
				if !(mapUpd && appended) {
					for _, i2 := range b.Instrs {
						c2, ok := i2.(*ssa.Call)
						if !ok {
							continue
						}
						g := c2.Call.StaticCallee()
						if g == nil || pkgRelOf(p, g) != "" || g.Blocks == nil {
							continue
						}
						gMap, gApp := false, false
						for _, gb := range g.Blocks {
							for _, gi := range gb.Instrs {
								if mu, ok := gi.(*ssa.MapUpdate); ok && fieldLoadName(mu.Key) == "ID" && fieldLoadName(mu.Value) == "BaseIndex" {
									gMap = true
								}
								if c3, ok := gi.(*ssa.Call); ok && isBuiltinCall(c3, "append") {
									gApp = true
								}
							}
						}
						if gMap && gApp {
							mapUpd, appended = true, true
						}
					}
				}
				r.Check(mapUpd && appended || closureOK, key, posOf(p, c), "the removed segment's file (ID -> BaseIndex) and reader are recorded for the finalizer in the same step",
					"a segment is removed from the working segment list without recording its ID/BaseIndex for deletion and its reader for closing: its file stays on disk (until the next Open) and its handle leaks")
			}
		}
	}
	if n < 3 {
		r.Unknown("delete-sites", "?", fmt.Sprintf("only %d removals from the segment list found in transaction bodies", n))
	}
}

// ---------------------------------------------------------------- VF-16

// vf16Release: may the unused error of this release-type call (Close / Rollback) be dropped?
// Three shapes are accepted, each with its reason; everything else is a dropped storage error.
func vf16Release(p *Prog, fn *ssa.Function, ci ssa.CallInstruction, n string) (string, bool) {
	if !strings.HasSuffix(n, ".Close") && !strings.HasSuffix(n, ".Rollback") {
		return "", false
	}
	// (1) every implementation that can be called here always returns a nil error
	if p.CG != nil {
		if node := p.CG.Nodes[fn]; node != nil {
			all, any := true, false
			for _, ed := range node.Out {
				if ed.Site == ci {
					any = true
					if !infallible(ed.Callee.Func) {
						all = false
					}
				}
			}
			if any && all {
				return "every callee of this call always returns a nil error", true
			}
		}
	}
	// (2) a deferred Rollback: a no-op once the transaction was committed, best effort otherwise
	if _, isDefer := ci.(*ssa.Defer); isDefer && strings.HasSuffix(n, ".Rollback") {
		return "deferred Rollback: a no-op after Commit, best effort on the failure paths", true
	}
	// (3) cleanup on a path that can only return a failure
	if failureOnlyFrom(fn, ci.Block()) {
		return "cleanup on a path whose every return already reports an error", true
	}
	// (3b) cleanup inside a deferred closure that runs only when the enclosing function's success flag is unset:
	// the enclosing function returns its own error on those paths
	if fn.Signature.Results().Len() == 0 && (fn.Parent() != nil && isDeferredClosure(fn) || fn.Parent() == nil && onlyDeferred(p, fn)) {
		return "cleanup inside a deferred closure (no error can be returned from there); the enclosing function reports its own error", true
	}
	return "", false
}

// onlyDeferred: every call of the named function fn in production code is a defer statement.
func onlyDeferred(p *Prog, fn *ssa.Function) bool {
	n := 0
	for _, caller := range p.Funcs {
		for _, b := range caller.Blocks {
			for _, ins := range b.Instrs {
				ci, ok := ins.(ssa.CallInstruction)
				if !ok || ci.Common().StaticCallee() != fn {
					continue
				}
				if _, isDefer := ci.(*ssa.Defer); !isDefer {
					// or a plain call from inside a deferred closure / another only-deferred function
					if !(caller.Parent() != nil && isDeferredClosure(caller)) {
						return false
					}
				}
				n++
			}
		}
	}
	return n > 0
}

func isDeferredClosure(fn *ssa.Function) bool {
	par := fn.Parent()
	for _, b := range par.Blocks {
		for _, ins := range b.Instrs {
			if d, ok := ins.(*ssa.Defer); ok {
				if mc, ok := d.Call.Value.(*ssa.MakeClosure); ok && mc.Fn == fn {
					return true
				}
				if d.Call.Value == ssa.Value(fn) {
					return true
				}
			}
		}
	}
	return false
}

// failureOnlyFrom: every Return reachable from block from returns an error that is non-nil there.
func failureOnlyFrom(fn *ssa.Function, from *ssa.BasicBlock) bool {
	ei := resultErrIndex(fn.Signature)
	if ei < 0 {
		return false
	}
	nonNilAt := func(v ssa.Value, at *ssa.BasicBlock) bool {
		if c, ok := v.(*ssa.Call); ok && knownNonNilResult(calleeOf(c)) {
			return true
		}
		if mi, ok := v.(*ssa.MakeInterface); ok {
			_ = mi
			return true
		}
		// dominated by the non-nil edge of a test of v
		for _, b := range fn.Blocks {
			ifi, ok := b.Instrs[len(b.Instrs)-1].(*ssa.If)
			if !ok {
				continue
			}
			bo, ok := ifi.Cond.(*ssa.BinOp)
			if !ok || bo.X != v {
				continue
			}
			if c, ok := bo.Y.(*ssa.Const); !ok || !c.IsNil() {
				continue
			}
			var edge *ssa.BasicBlock
			switch bo.Op {
			case token.NEQ:
				edge = b.Succs[0]
			case token.EQL:
				edge = b.Succs[1]
			}
			if edge != nil && len(edge.Preds) == 1 && (edge.Dominates(at) || edge.Dominates(from)) {
				return true
			}
		}
		return false
	}
	seen := map[*ssa.BasicBlock]bool{}
	ok, any := true, false
	var walk func(b *ssa.BasicBlock)
	walk = func(b *ssa.BasicBlock) {
		if seen[b] {
			return
		}
		seen[b] = true
		if ret, isRet := b.Instrs[len(b.Instrs)-1].(*ssa.Return); isRet {
			any = true
			if !nonNilAt(ret.Results[ei], b) {
				ok = false
			}
		}
		for _, s := range b.Succs {
			walk(s)
		}
	}
	walk(from)
	return ok && any
}

func runVF16(p *Prog, r *RuleRun) {
	storage := func(n string) bool {
		return strings.HasPrefix(n, "types.") || strings.HasPrefix(n, "os.") || strings.HasPrefix(n, "bbolt.") || strings.HasPrefix(n, "fileutil.") ||
			n == "json.Marshal" || n == "json.Unmarshal" || strings.HasPrefix(n, "ioutil.") || n == "io.Closer.Close" || strings.HasPrefix(n, "raft.LogStore.") || strings.HasPrefix(n, "raft.StableStore.")
	}
	ord := ordinal{}
	for _, fn := range p.Funcs {
		if pkgRelOf(p, fn) == "cmd/waldump" {
			continue
		}
		for _, b := range fn.Blocks {
			for _, ins := range b.Instrs {
				ci, ok := ins.(ssa.CallInstruction)
				if !ok {
					continue
				}
				n := eventName(ci)
				ei := resultErrIndex(ci.Common().Signature())
				if ei < 0 || !storage(n) {
					continue
				}
				key := ord.next(funcDisplay(fn) + ":" + n)
				used := false
				if c, isCall := ins.(*ssa.Call); isCall {
					if ci.Common().Signature().Results().Len() == 1 {
						used = len(*c.Referrers()) > 0
					} else {
						for _, ref := range *c.Referrers() {
							if ex, ok := ref.(*ssa.Extract); ok && ex.Index == ei && len(*ex.Referrers()) > 0 {
								used = true
							}
						}
					}
				}
				if used {
					r.OK(key, posOf(p, ins), "error result is consumed (tested, returned, wrapped or logged)")
					continue
				}
				if why, ok := vf16Release(p, fn, ci, n); ok {
					r.OK(key, posOf(p, ins), "release call whose error may be unused: "+why)
					continue
				}
				r.Fail(key, posOf(p, ins), fmt.Sprintf("the error returned by %s in %s is dropped: a failed storage operation is treated as success", n, funcDisplay(fn)))
			}
		}
	}
}
