package main

import (
	"golang.org/x/tools/go/ssa"
)

func init() {
	register(&Rule{ID: "ORD-28", Title: "tail index hand-over: the writer stores the offsets before it publishes the commit index, a reader loads the commit index before the offsets",
		Props: []string{"C06", "C10"}, Floor: 2, Run: runORD28})
}

// The in-memory index of the tail is handed from the writer to concurrent readers through two atomics:
// the offsets slice (atomic.Value) and commitIdx.  The writer stores offsets first and commitIdx last, so a
// reader that observes commitIdx = n and *then* loads offsets is guaranteed a slice covering n.  A reader
// that loads offsets first can pair an old (shorter) slice with a newer commitIdx: the bound check passes and
// the index expression is out of range (panic) or addresses a frame the reader must not see yet.
func runORD28(p *Prog, r *RuleRun) {
	a := resolveWriterAnchors(p)
	rd := p.methodImpl("segment", "Writer", "OffsetForFrame")
	if len(a.missing) > 0 || rd == nil {
		r.Unknown("anchor", "?", "segment.Writer anchors / OffsetForFrame not found")
		return
	}
	call := func(cx *Ctx, ci ssa.CallInstruction) CallInfo {
		args := ci.Common().Args
		if len(args) == 0 {
			return CallInfo{}
		}
		n := eventName(ci)
		switch fieldOfAddr(args[0]) {
		case a.offsets:
			switch n {
			case "atomic.Value.Load":
				return CallInfo{Event: "OFFSETS.Load", Primitive: true}
			case "atomic.Value.Store":
				return CallInfo{Event: "OFFSETS.Store", Primitive: true}
			}
		case a.commitIdx:
			switch n {
			case "atomic.LoadUint64":
				return CallInfo{Event: "COMMITIDX.Load", Primitive: true}
			case "atomic.StoreUint64":
				return CallInfo{Event: "COMMITIDX.Store", Primitive: true}
			}
		}
		return CallInfo{}
	}
	// reader side
	nLoads := 0
	spec := &OrdSpec{Name: "tail-index-reader", Call: call,
		OnEvent: func(cx *Ctx, ev, phase string, ins ssa.Instruction, f *Fact) {
			if ev == "OFFSETS.Load" && phase == "call" {
				nLoads++
				r.Check(f.Must["COMMITIDX.Load"], cx.Key(ins, "offsets-after-commitIdx"), posOf(p, ins),
					"the offsets slice is loaded after the commit index that bounds the lookup",
					"OffsetForFrame loads the offsets slice before it loads the commit index it checks idx against: a concurrent append can publish a larger commitIdx in between, the bound check then passes against the newer index while the older, shorter slice is indexed (index out of range panic in a reader); via "+cx.Fr.Stack()+"; path: "+trace(f))
			}
		}}
	eng := newOrdEngine(p, spec)
	eng.RunRoot(rd, nil)
	finishEngine(r, eng)
	if nLoads == 0 {
		r.Unknown(funcDisplay(rd)+":offsets-load", p.Position(rd.Pos()), "OffsetForFrame never loads the offsets slice: cannot relate it to the commit index")
	}
	// writer side
	for _, m := range a.mutators {
		m := m
		wspec := &OrdSpec{Name: "tail-index-writer", Call: call,
			OnEvent: func(cx *Ctx, ev, phase string, ins ssa.Instruction, f *Fact) {
				if ev == "OFFSETS.Store" && phase == "call" {
					r.Check(!f.May["COMMITIDX.Store"], cx.Key(ins, "offsets-before-publish"), posOf(p, ins),
						"offsets are stored before the commit index is published",
						"a mutator stores the offsets slice after it already published the commit index in the same call: a reader can observe the new commitIdx with the old offsets; via "+cx.Fr.Stack()+"; path: "+trace(f))
				}
			}}
		e2 := newOrdEngine(p, wspec)
		e2.RunRoot(m, nil)
		finishEngine(r, e2)
	}
}
