package main

import (
	"go/token"

	"golang.org/x/tools/go/ssa"
)

func init() {
	register(&Rule{ID: "ORD-29", Title: "file offsets of buffered frames: a position in the pending buffer is combined only with the write offset that was current when the position was taken",
		Props: []string{"C15", "C05", "C09"}, Floor: 2, Run: runORD29})
}

// The file offset of anything that sits in the pending buffer is writeOffset + position-in-buffer.  A flush
// moves the write offset forward and empties the buffer, so a position taken before a flush added to the
// write offset read after it points past the frame (the entry is acknowledged but GetLog reads other bytes;
// a sealing batch persists the wrong offset in the index frame).  Typestate on every path of the mutators:
// position taken (len of the pending buffer) -> fresh; store to the write offset while fresh -> stale; the
// write offset must not be read into an addition while stale.
func runORD29(p *Prog, r *RuleRun) {
	a := resolveWriterAnchors(p)
	if len(a.missing) > 0 || len(a.mutators) == 0 {
		r.Unknown("anchor", "?", "segment.Writer anchors not resolved")
		return
	}
	feedsAdd := func(v ssa.Value) bool {
		seen := map[ssa.Value]bool{}
		var walk func(v ssa.Value, d int) bool
		walk = func(v ssa.Value, d int) bool {
			if d > 3 || seen[v] || v.Referrers() == nil {
				return false
			}
			seen[v] = true
			for _, ref := range *v.Referrers() {
				switch x := ref.(type) {
				case *ssa.BinOp:
					if x.Op == token.ADD {
						return true
					}
				case *ssa.Convert:
					if walk(x, d+1) {
						return true
					}
				}
			}
			return false
		}
		return walk(v, 0)
	}
	nSums := 0
	for _, m := range a.mutators {
		spec := &OrdSpec{Name: "buffer-position",
			Call: func(cx *Ctx, ci ssa.CallInstruction) CallInfo {
				if isBuiltinCall(ci, "len") && len(ci.Common().Args) == 1 && loadedField(ci.Common().Args[0]) == a.commitBuf {
					return CallInfo{Event: "BUFPOS", Primitive: true, Infallible: true}
				}
				switch eventName(ci) {
				case "types.WritableFile.WriteAt", "types.WritableFile.Sync":
					return CallInfo{Primitive: true}
				}
				return CallInfo{}
			},
			OnEvent: func(cx *Ctx, ev, phase string, ins ssa.Instruction, f *Fact) {
				if ev == "BUFPOS" {
					f.TS["pos"] = "fresh"
				}
			},
			Instr: func(cx *Ctx, ins ssa.Instruction, f *Fact) {
				switch x := ins.(type) {
				case *ssa.Store:
					if fieldOfAddr(x.Addr) == a.writeOffset && f.TS["pos"] == "fresh" {
						f.TS["pos"] = "stale@" + posOf(p, x)
					}
				case *ssa.UnOp:
					if x.Op != token.MUL || fieldOfAddr(x.X) != a.writeOffset || !feedsAdd(x) {
						return
					}
					nSums++
					if readTogether(x, a) {
						r.OK(cx.Key(ins, "offset-sum"), posOf(p, ins), "write offset and buffer position are read together in one expression")
						return
					}
					st := f.TS["pos"]
					r.Check(st == "" || st == "fresh", cx.Key(ins, "offset-sum"), posOf(p, ins),
						"the write offset read here is the one that was current when the buffer position it is added to was taken",
						"a file offset is computed from the write offset read *after* a flush moved it ("+st+") and a buffer position taken *before* that flush: the recorded offset is too large by the flushed bytes (acknowledged entry unreadable; a sealing batch persists the wrong index entry); via "+cx.Fr.Stack()+"; path: "+trace(f))
				}
			}}
		eng := newOrdEngine(p, spec)
		eng.RunRoot(m, nil)
		finishEngine(r, eng)
	}
	if nSums == 0 {
		r.Unknown("anchor:offset-sums", "?", "no write-offset + buffer-position sum found in the mutators")
	}
}

// readTogether: the write-offset load ld is added to a len(<pending buffer>) evaluated in the same basic block.
func readTogether(ld *ssa.UnOp, a *writerAnchors) bool {
	var hasLen func(v ssa.Value, d int) bool
	hasLen = func(v ssa.Value, d int) bool {
		if d > 4 {
			return false
		}
		switch x := v.(type) {
		case *ssa.Call:
			return isBuiltinCall(x, "len") && len(x.Call.Args) == 1 && loadedField(x.Call.Args[0]) == a.commitBuf && x.Block() == ld.Block()
		case *ssa.Convert:
			return hasLen(x.X, d+1)
		case *ssa.BinOp:
			return hasLen(x.X, d+1) || hasLen(x.Y, d+1)
		}
		return false
	}
	var sums func(v ssa.Value, d int) bool
	sums = func(v ssa.Value, d int) bool {
		if d > 3 || v.Referrers() == nil {
			return false
		}
		for _, ref := range *v.Referrers() {
			switch x := ref.(type) {
			case *ssa.Convert:
				if sums(x, d+1) {
					return true
				}
			case *ssa.BinOp:
				if x.Op != token.ADD {
					continue
				}
				other := x.Y
				if x.Y == v {
					other = x.X
				}
				if hasLen(other, 0) {
					return true
				}
			}
		}
		return false
	}
	return sums(ld, 0)
}
