package main

import (
	"go/token"
	"go/types"
	"sort"
	"strings"

	"golang.org/x/tools/go/ssa"
)

// ORD-30: the durable state never runs ahead of the in-memory state unnoticed.
//
// A state transaction commits the new state to the meta store and only then
// runs its post-commit step (creating the next segment's file) and publishes
// the new state in memory (ORD-12).  If anything fails between the commit and
// the publication the writer is left on the OLD in-memory state while the NEW
// one is what a reopen will see.  Carrying on from there loses acknowledged
// data: after a head truncation that removed every segment the old tail is
// still writable in memory, its file is no longer named by the metadata, and
// the next Open sweeps it (finding F16).
//
// (a) diverged: on every path of StoreLogs / DeleteRange / the rotation
//
//	goroutine on which MetaStore.CommitState succeeded, the write lock is not
//	released before either the state cell is stored (memory caught up) or a
//	sticky failure mark was stored into a field of the WAL with the lock held.
//
// (b) gate: every field used as such a mark is tested, with the lock held and
//
//	not released since, on every path that reaches SegmentWriter.Append or a
//	transaction body in those roots; only the "not marked" edge may reach them.
func init() {
	register(&Rule{ID: "ORD-30", Title: "a committed state change that cannot be completed in memory stops the writer (durable and in-memory state never diverge silently)",
		Props: []string{"C10", "C04", "C01", "C13"}, Floor: 3, Run: runORD30})
}

func runORD30(p *Prog, r *RuleRun) {
	v := newWalVocab(p)
	_, sl, dr, _, rot := walRoots(p, v)
	if !checkWalAnchors(r, v, map[string]*ssa.Function{"StoreLogs": sl, "DeleteRange": dr, "rotation goroutine": rot}) {
		return
	}
	walStruct, _ := v.walT.Underlying().(*types.Struct)
	isWalField := func(f *types.Var) bool {
		if f == nil || walStruct == nil {
			return false
		}
		switch f {
		case v.closed, v.stateCell, v.writeMu, v.trigger, v.await, v.metaDB, v.sf:
			return false
		}
		for i := 0; i < walStruct.NumFields(); i++ {
			if walStruct.Field(i) == f {
				return true
			}
		}
		return false
	}
	marks := map[*types.Var]bool{}

	// ---- (a)
	spec := v.baseSpec("durable-ahead")
	baseInstr := spec.Instr
	mark := func(cx *Ctx, fld *types.Var, val ssa.Value, f *Fact) {
		if !isWalField(fld) || f.TS["dur"] != "ahead" || !f.Must["HELD"] {
			return
		}
		nonzero := false
		if c, ok := val.(*ssa.Const); ok {
			nonzero = !c.IsNil() && c.Value != nil && c.Value.String() != "0" && c.Value.String() != "false"
		} else if cx.Eval(val, f).K == avNonNil {
			nonzero = true
		}
		if nonzero {
			f.TS["dur"] = "marked:" + fld.Name()
			marks[fld] = true
		}
	}
	spec.Instr = func(cx *Ctx, ins ssa.Instruction, f *Fact) {
		baseInstr(cx, ins, f)
		if st, ok := ins.(*ssa.Store); ok {
			mark(cx, fieldOfAddr(st.Addr), st.Val, f)
		}
	}
	nCommit := 0
	spec.OnEvent = func(cx *Ctx, ev, phase string, ins ssa.Instruction, f *Fact) {
		switch {
		case ev == "LOCK":
			f.Add("HELD")
		case ev == "MetaStore.CommitState" && phase == "ok":
			nCommit++
			f.TS["dur"] = "ahead"
			f.TS["durAt"] = cx.Fr.Stack()
		case ev == "STATE.Store" && phase == "call":
			delete(f.TS, "dur")
			delete(f.TS, "durAt")
		case strings.HasPrefix(ev, "atomic.Store") && phase == "call":
			if ci, ok := ins.(ssa.CallInstruction); ok && len(ci.Common().Args) == 2 {
				mark(cx, fieldOfAddr(ci.Common().Args[0]), ci.Common().Args[1], f)
			}
		case ev == "UNLOCK":
			root := funcDisplay(cx.Fr.Root().Fn)
			key := root + ":diverged"
			pos := posOf(p, ins)
			switch {
			case f.TS["dur"] == "ahead":
				r.Fail(key, pos, "the write lock is released on a path where MetaStore.CommitState succeeded ("+f.TS["durAt"]+") but the new state was never published in memory and nothing marks the WAL as failed: the writer carries on from the old in-memory state while a reopen sees the new one (e.g. a delete-everything truncation whose new tail file cannot be created leaves the old tail writable; entries acknowledged into it are swept by the next Open); path: "+trace(f))
			case strings.HasPrefix(f.TS["dur"], "marked:"):
				r.OK(key, pos, "a commit that could not be completed in memory stores the failure mark WAL."+strings.TrimPrefix(f.TS["dur"], "marked:")+" before the lock is released")
			case f.May["MetaStore.CommitState:ok"]:
				r.OK(key, pos, "the committed state is published in memory before the lock is released")
			}
			f.Drop("HELD")
			delete(f.TS, "dur")
			delete(f.TS, "durAt")
		}
	}
	base := spec.Call
	spec.Call = func(cx *Ctx, ci ssa.CallInstruction) CallInfo {
		info := base(cx, ci)
		if info.Event == "" && !ci.Common().IsInvoke() {
			if n := eventName(ci); strings.HasPrefix(n, "atomic.Store") {
				return CallInfo{Event: n, Primitive: true}
			}
		}
		return info
	}
	eng := newOrdEngine(p, spec)
	for _, root := range []*ssa.Function{sl, dr, rot} {
		eng.RunRoot(root, nil)
	}
	finishEngine(r, eng)
	if nCommit == 0 {
		r.Unknown("commit-sites", "?", "no MetaStore.CommitState call is reachable from StoreLogs / DeleteRange / the rotation goroutine")
		return
	}

	// ---- (b)
	var names []string
	for m := range marks {
		names = append(names, m.Name())
	}
	sort.Strings(names)
	if len(marks) == 0 {
		return
	}
	r.Note("failure marks: WAL.%s", strings.Join(names, ", WAL."))
	isMarkRead := func(val ssa.Value) *types.Var {
		if fld := loadedField(val); marks[fld] {
			return fld
		}
		if c, ok := val.(*ssa.Call); ok && len(c.Call.Args) > 0 && strings.HasPrefix(eventName(c), "atomic.Load") {
			if fld := fieldOfAddr(c.Call.Args[0]); marks[fld] {
				return fld
			}
		}
		return nil
	}
	gspec := v.baseSpec("failure-gate")
	gspec.OnBranch = func(cx *Ctx, ifi *ssa.If, truth bool, f *Fact) {
		bo, ok := ifi.Cond.(*ssa.BinOp)
		if !ok || (bo.Op != token.EQL && bo.Op != token.NEQ) {
			return
		}
		var fld *types.Var
		var c *ssa.Const
		if fld = isMarkRead(bo.X); fld != nil {
			c, _ = bo.Y.(*ssa.Const)
		} else if fld = isMarkRead(bo.Y); fld != nil {
			c, _ = bo.X.(*ssa.Const)
		}
		if fld == nil || c == nil {
			return
		}
		zero := c.IsNil() || (c.Value != nil && (c.Value.String() == "0" || c.Value.String() == "false"))
		if !zero {
			return
		}
		if (bo.Op == token.EQL) == truth && f.Must["HELD"] {
			f.TS["gate:"+fld.Name()] = "clear"
		}
	}
	gspec.OnEvent = func(cx *Ctx, ev, phase string, ins ssa.Instruction, f *Fact) {
		switch {
		case ev == "LOCK":
			f.Add("HELD")
		case ev == "UNLOCK":
			f.Drop("HELD")
			for k := range f.TS {
				if strings.HasPrefix(k, "gate:") {
					delete(f.TS, k)
				}
			}
		case (ev == "SegmentWriter.Append" || ev == "TXN") && phase == "call":
			key := cx.Key(ins, ev) + ":gate"
			var missing []string
			for _, n := range names {
				if f.TS["gate:"+n] != "clear" {
					missing = append(missing, "WAL."+n)
				}
			}
			r.Check(len(missing) == 0, key, posOf(p, ins), ev+" is reached only with the failure mark tested clear under the lock ("+cx.Fr.Stack()+")",
				ev+" can be reached without the failure mark "+strings.Join(missing, ", ")+" having been tested clear under the current hold of the write lock: after a commit that could not be completed in memory the writer would carry on from the stale state; via "+cx.Fr.Stack()+"; path: "+trace(f))
		}
	}
	geng := newOrdEngine(p, gspec)
	for _, root := range []*ssa.Function{sl, dr, rot} {
		geng.RunRoot(root, nil)
	}
	finishEngine(r, geng)
}
