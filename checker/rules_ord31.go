package main

import (
	"sort"
	"strings"

	"golang.org/x/tools/go/ssa"
)

// ORD-31: the per-call counters really are per call.
//
// MetricDefinitions describes stable_sets as "how many calls to StableStore.Set or
// SetUint64", stable_gets likewise for Get / GetUint64, log_entries_read as the
// number of GetLog calls, log_appends / log_entries_written /
// log_entry_bytes_written as per StoreLog(s) call.  For "the counters equal the
// true totals" each successful call must pass through exactly one increment of
// each of its counters, whatever route it takes through the method (a fast path
// that returns before the shared code that counts makes the total drift).
func init() {
	register(&Rule{ID: "ORD-31", Title: "every successful LogStore / StableStore call increments each of its per-call counters exactly once",
		Props: []string{"C20"}, Floor: 8, Run: runORD31})
}

// apiCounters: method -> counters every successful call must increment once (from the Desc texts of MetricDefinitions).
var apiCounters = map[string][]string{
	"Set":       {"stable_sets"},
	"SetUint64": {"stable_sets"},
	"Get":       {"stable_gets"},
	"GetUint64": {"stable_gets"},
	"GetLog":    {"log_entries_read", "log_entry_bytes_read"},
	"StoreLogs": {"log_appends", "log_entries_written", "log_entry_bytes_written"},
	"StoreLog":  {"log_appends", "log_entries_written", "log_entry_bytes_written"},
}

func runORD31(p *Prog, r *RuleRun) {
	v := newWalVocab(p)
	if !checkWalAnchors(r, v, nil) {
		return
	}
	tracked := map[string]bool{}
	for _, cs := range apiCounters {
		for _, c := range cs {
			tracked[c] = true
		}
	}
	base := v.call
	spec := v.baseSpec("api-counters")
	spec.Call = func(cx *Ctx, ci ssa.CallInstruction) CallInfo {
		if eventName(ci) == "metrics.Collector.IncrementCounter" && len(ci.Common().Args) > 0 {
			if name, ok := constStringOf(ci.Common().Args[0]); ok {
				return CallInfo{Event: "COUNT(" + name + ")", Primitive: true}
			}
			if cx.F != nil {
				if name, ok := strArg(cx, ci.Common().Args[0], cx.F); ok {
					return CallInfo{Event: "COUNT(" + name + ")", Primitive: true}
				}
			}
			return CallInfo{Event: "COUNT(?)", Primitive: true}
		}
		return base(cx, ci)
	}
	spec.OnEvent = func(cx *Ctx, ev, phase string, ins ssa.Instruction, f *Fact) {
		if phase != "call" || !strings.HasPrefix(ev, "COUNT(") {
			return
		}
		name := strings.TrimSuffix(strings.TrimPrefix(ev, "COUNT("), ")")
		if !tracked[name] {
			return
		}
		switch f.TS["n:"+name] {
		case "":
			f.TS["n:"+name] = "1"
		default:
			f.TS["n:"+name] = "2+"
		}
	}
	nRoots := 0
	var curWant []string
	var curName string
	spec.OnReturn = func(cx *Ctx, ret *ssa.Return, class RetClass, f *Fact) {
		if class != RetSuccess && class != RetEither {
			return
		}
		key := cx.Key(ret, "return")
		pos := posOf(p, ret)
		if curName == "StoreLogs" || curName == "StoreLog" {
			if !f.May["LOCK"] {
				r.Trivial(key+":counters", pos, "empty batch: nothing appended, nothing counted")
				return
			}
		}
		var missing, twice []string
		for _, c := range curWant {
			switch f.TS["n:"+c] {
			case "":
				missing = append(missing, c)
			case "2+":
				twice = append(twice, c)
			}
		}
		switch {
		case len(missing) > 0:
			r.Fail(key+":counters", pos, "a successful "+curName+" can return without incrementing "+strings.Join(missing, ", ")+": the counter is documented as the number of such calls and no longer equals it (a shortcut that returns before the shared code that counts); path: "+trace(f))
		case len(twice) > 0:
			r.Fail(key+":counters", pos, "a successful "+curName+" increments "+strings.Join(twice, ", ")+" more than once on this path; path: "+trace(f))
		default:
			r.OK(key+":counters", pos, curName+" returns success only after exactly one increment of "+strings.Join(curWant, ", "))
		}
	}
	eng := newOrdEngine(p, spec)
	var names []string
	for n := range apiCounters {
		names = append(names, n)
	}
	sort.Strings(names)
	for _, n := range names {
		fn := p.Func("", "WAL."+n)
		if fn == nil {
			r.Unknown("anchor:WAL."+n, "?", "method not found")
			continue
		}
		nRoots++
		curName, curWant = n, apiCounters[n]
		eng.RunRoot(fn, nil)
	}
	finishEngine(r, eng)
}
