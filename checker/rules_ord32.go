package main

import (
	"strings"

	"golang.org/x/tools/go/ssa"
)

// ORD-32: the state-change counters count committed state changes.
//
// head_truncations / tail_truncations are documented as the number of entries
// truncated, segment_rotations as the number of times the WAL moved to a new
// segment.  A truncation or rotation happens when its metadata commit succeeds;
// an increment made before that point (inside the transaction body, or before
// the transaction is run) also counts the attempts whose commit failed, and the
// counter no longer equals the number of entries actually removed (F17).  An
// increment made only after the whole transaction returned successfully misses
// the changes that were committed but whose post-commit step (creating the next
// segment file) failed: those are durable - a reopen shows the shorter log - and
// uncounted.  So the increment sits exactly at the commit point: after
// CommitState succeeded and before anything else that can fail.
func init() {
	register(&Rule{ID: "ORD-32", Title: "head_truncations, tail_truncations and segment_rotations are incremented only after the metadata commit of the change they count",
		Props: []string{"C20"}, Floor: 3, Run: runORD32})
}

func runORD32(p *Prog, r *RuleRun) {
	v := newWalVocab(p)
	open, sl, dr, _, rot := walRoots(p, v)
	if !checkWalAnchors(r, v, map[string]*ssa.Function{"Open": open, "StoreLogs": sl, "DeleteRange": dr, "rotation goroutine": rot}) {
		return
	}
	counted := map[string]bool{"head_truncations": true, "tail_truncations": true, "segment_rotations": true}
	base := v.call
	spec := v.baseSpec("state-change-counters")
	spec.Call = func(cx *Ctx, ci ssa.CallInstruction) CallInfo {
		if eventName(ci) == "metrics.Collector.IncrementCounter" && len(ci.Common().Args) > 0 {
			name, ok := constStringOf(ci.Common().Args[0])
			if !ok && cx.F != nil {
				name, ok = strArg(cx, ci.Common().Args[0], cx.F)
			}
			if ok {
				return CallInfo{Event: "COUNT(" + name + ")", Primitive: true}
			}
		}
		return base(cx, ci)
	}
	seen := map[string]bool{}
	spec.OnEvent = func(cx *Ctx, ev, phase string, ins ssa.Instruction, f *Fact) {
		switch {
		case ev == "TXN" && phase == "call":
			f.Kill("MetaStore.CommitState:ok")
		case ev == "MetaStore.CommitState" && phase == "call":
			f.Kill("MetaStore.CommitState:ok")
			delete(f.TS, "after-commit")
		case ev == "MetaStore.CommitState" && phase == "ok":
			f.TS["after-commit"] = "clean"
		case phase == "fail" && f.TS["after-commit"] == "clean":
			// something fallible ran (and failed on this path) between the commit and here
			f.TS["after-commit"] = "failed:" + ev
		case strings.HasPrefix(ev, "SegmentFiler.") && phase == "call" && f.TS["after-commit"] == "clean":
			f.TS["after-commit"] = "fallible:" + ev
		case strings.HasPrefix(ev, "COUNT(") && phase == "call":
			name := strings.TrimSuffix(strings.TrimPrefix(ev, "COUNT("), ")")
			if !counted[name] {
				return
			}
			seen[name] = true
			key := cx.Key(ins, ev)
			switch {
			case !f.Must["MetaStore.CommitState:ok"]:
				r.Fail(key, posOf(p, ins), name+" is incremented before the metadata commit of the truncation / rotation it counts (via "+cx.Fr.Stack()+"): when that commit fails the operation returns an error and nothing was removed or rotated, but the counter has moved; path: "+trace(f))
			case f.TS["after-commit"] != "clean":
				r.Fail(key, posOf(p, ins), name+" is incremented only after a fallible step that follows the metadata commit ("+f.TS["after-commit"]+"; via "+cx.Fr.Stack()+"): a change that was committed but whose post-commit step failed is durable (a reopen shows it) and never counted; path: "+trace(f))
			default:
				r.OK(key, posOf(p, ins), name+" is incremented at the commit point: after CommitState succeeded, before anything else that can fail ("+cx.Fr.Stack()+")")
			}
		}
	}
	eng := newOrdEngine(p, spec)
	for _, root := range []*ssa.Function{open, sl, dr, rot} {
		eng.RunRoot(root, nil)
	}
	finishEngine(r, eng)
	for name := range counted {
		if !seen[name] {
			r.Unknown("counter:"+name, "?", "no increment of "+name+" found on the writer paths")
		}
	}
}
