package main

import (
	"go/token"
	"strings"

	"golang.org/x/tools/go/ssa"
)

// ORD-33: the rollback snapshot of the pending buffer stays intact.
//
// Append and ForceSeal save the pending buffer's slice header before they start
// (beforeBuf := commitBuf) and put it back when the commit fails.  That only
// restores the *bytes* if the backing array still holds them: on a fresh segment
// the saved slice is the 32-byte file header that waits for the first commit.
// The buffer may therefore be emptied only at the very end of a mutator (after
// the single write-out that precedes the fsync); once it was emptied nothing may
// be appended to it again on the same path, and its array must not be handed to
// a pool.  A mid-batch flush that re-uses the buffer from position 0, or a
// buffer returned to the read pool after the write, lets later bytes overwrite
// the saved header; a failed first batch then rolls back to garbage, and the
// retried, acknowledged batch is written behind a garbage file header.
func init() {
	register(&Rule{ID: "ORD-33", Title: "segment writer: once the pending buffer was emptied inside a mutator nothing is appended to it again and its array is not given away (the rollback snapshot aliases it)",
		Props: []string{"C02", "C09", "C12", "C10", "C01"}, Floor: 2, Run: runORD33})
}

func runORD33(p *Prog, r *RuleRun) {
	a := resolveWriterAnchors(p)
	if len(a.missing) > 0 || len(a.mutators) == 0 {
		r.Unknown("anchor", "?", "segment.Writer anchors not resolved")
		return
	}
	derivesFromBuf := func(v ssa.Value) bool {
		seen := map[ssa.Value]bool{}
		var walk func(v ssa.Value, d int) bool
		walk = func(v ssa.Value, d int) bool {
			if d > 6 || v == nil || seen[v] {
				return false
			}
			seen[v] = true
			if loadedField(v) == a.commitBuf {
				return true
			}
			switch x := v.(type) {
			case *ssa.Slice:
				return walk(x.X, d+1)
			case *ssa.Phi:
				for _, e := range x.Edges {
					if walk(e, d+1) {
						return true
					}
				}
			case *ssa.UnOp:
				if x.Op == token.MUL {
					if al, ok := x.X.(*ssa.Alloc); ok {
						for _, ref := range *al.Referrers() {
							if st, ok := ref.(*ssa.Store); ok && st.Addr == ssa.Value(al) && walk(st.Val, d+1) {
								return true
							}
						}
					}
				}
			case *ssa.MakeInterface:
				return walk(x.X, d+1)
			case *ssa.ChangeType:
				return walk(x.X, d+1)
			}
			return false
		}
		return walk(v, 0)
	}
	for _, m := range a.mutators {
		// does this mutator restore the buffer from a snapshot in a deferred closure?
		// (a deferred closure, or a deferred call of a rollback method / helper)
		restores := false
		rollbackFns := map[*ssa.Function]bool{}
		for _, b := range m.Blocks {
			for _, ins := range b.Instrs {
				d, ok := ins.(*ssa.Defer)
				if !ok {
					continue
				}
				var dfn *ssa.Function
				if mc, ok := d.Call.Value.(*ssa.MakeClosure); ok {
					dfn = mc.Fn.(*ssa.Function)
				} else if sc := d.Call.StaticCallee(); sc != nil {
					dfn = sc
				}
				if dfn == nil || pkgRelOf(p, dfn) != "segment" {
					continue
				}
				for fn := range p.reachableFuncs(dfn) {
					if pkgRelOf(p, fn) != "segment" {
						continue
					}
					for _, fb := range fn.Blocks {
						for _, fi := range fb.Instrs {
							if st, ok := fi.(*ssa.Store); ok && fieldOfAddr(st.Addr) == a.commitBuf {
								restores = true
								rollbackFns[fn] = true
								rollbackFns[dfn] = true
							}
						}
					}
				}
			}
		}
		key := funcDisplay(m) + ":snapshot"
		if !restores {
			// no aliasing snapshot: VF-13 decides whether the rollback is complete; nothing to protect here
			r.Trivial(key, p.Position(m.Pos()), "this mutator does not restore the pending buffer from a saved slice header")
			continue
		}
		bad := 0
		spec := &OrdSpec{Name: "pending-buffer-reuse",
			Call: func(cx *Ctx, ci ssa.CallInstruction) CallInfo {
				n := eventName(ci)
				switch {
				case n == "sync.Pool.Put":
					return CallInfo{Event: "POOL.Put", Primitive: true, Infallible: true}
				case strings.HasPrefix(n, "types.WritableFile."):
					return CallInfo{Primitive: true}
				}
				return CallInfo{}
			},
			OnEvent: func(cx *Ctx, ev, phase string, ins ssa.Instruction, f *Fact) {
				if ev == "POOL.Put" && phase == "call" {
					ci := ins.(ssa.CallInstruction)
					args := ci.Common().Args
					if len(args) > 0 && (derivesFromBuf(args[len(args)-1]) || f.TS["buf"] == "reset") {
						bad++
						r.Fail(cx.Key(ins, "pool-put"), posOf(p, ins), "the pending buffer's array is handed to a sync.Pool inside "+funcDisplay(m)+" (via "+cx.Fr.Stack()+"): the rollback snapshot still points at it, so after a failed commit the restored 'pending bytes' (the file header of a fresh segment) are whatever the next user of the pool wrote there")
					}
				}
			},
			Instr: func(cx *Ctx, ins ssa.Instruction, f *Fact) {
				st, ok := ins.(*ssa.Store)
				if !ok || fieldOfAddr(st.Addr) != a.commitBuf {
					return
				}
				// inside the deferred rollback itself: the restore
				for fr := cx.Fr; fr != nil; fr = fr.Parent {
					if rollbackFns[fr.Fn] {
						return
					}
				}
				empties := false
				switch v := st.Val.(type) {
				case *ssa.Const:
					empties = v.IsNil()
				case *ssa.Slice:
					if c, ok := v.High.(*ssa.Const); ok && v.High != nil && c.Int64() == 0 {
						empties = true
					}
				case *ssa.MakeSlice:
					if c, ok := v.Len.(*ssa.Const); ok && c.Int64() == 0 {
						empties = true
					}
				}
				switch {
				case empties:
					f.TS["buf"] = "reset"
					f.TS["resetAt"] = posOf(p, st)
				case f.TS["buf"] == "reset":
					bad++
					r.Fail(cx.Key(ins, "append-after-reset"), posOf(p, st), "the pending buffer is extended again after it was emptied at "+f.TS["resetAt"]+" on the same path of "+funcDisplay(m)+" (via "+cx.Fr.Stack()+"): the new bytes overwrite what the rollback snapshot saved (the pending file header of a fresh segment), so a failed first batch rolls back to garbage and the retried batch is acknowledged behind a garbage header; path: "+trace(f))
				}
			}}
		eng := newOrdEngine(p, spec)
		eng.RunRoot(m, nil)
		finishEngine(r, eng)
		if bad == 0 {
			r.OK(key, p.Position(m.Pos()), "the pending buffer is emptied only at the end of the mutator; nothing is appended to it afterwards and its array stays with the writer")
		}
	}
}
