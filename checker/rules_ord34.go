package main

import (
	"strings"

	"golang.org/x/tools/go/ssa"
)

// ORD-34: the bolt handle is never closed from under one of its own transactions.
//
// bbolt's DB.Close takes the mmap lock exclusively; every open transaction holds
// it shared until Commit or Rollback.  Closing the DB in a function that still
// has a transaction open (its Rollback is deferred and has not run yet) waits
// for that transaction forever: the call never returns, the file lock is never
// released, and every later Open of the directory blocks too ("never hangs", "a
// failed Open leaves nothing locked").
func init() {
	register(&Rule{ID: "ORD-34", Title: "metadb: bbolt's DB.Close is never called while a transaction begun on this path is still open (a deferred Rollback has not run yet)",
		Props: []string{"C11", "C14"}, Floor: 3, Run: runORD34})
}

func runORD34(p *Prog, r *RuleRun) {
	nRoots, nBegin := 0, 0
	for _, m := range []string{"Load", "CommitState", "GetStable", "SetStable", "Close"} {
		root := p.methodImpl("metadb", "BoltMetaDB", m)
		if root == nil {
			r.Unknown("anchor:"+m, "?", "(*metadb.BoltMetaDB)."+m+" not found")
			continue
		}
		nRoots++
		spec := &OrdSpec{Name: "metadb.close-vs-tx",
			Call: func(cx *Ctx, ci ssa.CallInstruction) CallInfo {
				n := eventName(ci)
				switch n {
				case "bbolt.DB.Begin", "bbolt.Tx.Commit", "bbolt.Tx.Rollback", "bbolt.DB.Close":
					return CallInfo{Event: n, Primitive: true}
				}
				if strings.HasPrefix(n, "bbolt.") || strings.HasPrefix(n, "os.") {
					return CallInfo{Primitive: true}
				}
				return CallInfo{}
			},
			OnEvent: func(cx *Ctx, ev, phase string, ins ssa.Instruction, f *Fact) {
				switch {
				case ev == "bbolt.DB.Begin" && phase == "ok":
					nBegin++
					f.TS["tx"] = "open"
				case (ev == "bbolt.Tx.Commit" || ev == "bbolt.Tx.Rollback") && phase == "call":
					delete(f.TS, "tx")
				case ev == "bbolt.DB.Close" && phase == "call":
					key := cx.Key(ins, "bbolt.DB.Close")
					r.Check(f.TS["tx"] != "open", key, posOf(p, ins), "the bolt handle is closed with no transaction of this path open ("+cx.Fr.Stack()+")",
						"bbolt's DB.Close is called while a transaction begun on this path is still open (its Rollback is deferred and has not run): Close waits for the transaction, the transaction waits for the function to return - the call hangs holding the file lock; via "+cx.Fr.Stack()+"; path: "+trace(f))
				}
			}}
		eng := newOrdEngine(p, spec)
		eng.RunRoot(root, nil)
		finishEngine(r, eng)
	}
	if nBegin == 0 {
		r.Unknown("transactions", "?", "no bbolt transaction found in the MetaStore methods")
	}
	// the instances: every MetaStore method analysed counts, whether or not it closes anything
	for i := 0; i < nRoots; i++ {
		r.Trivial("root#"+string(rune('1'+i)), "?", "MetaStore method analysed")
	}
}
