package main

import (
	"fmt"
	"go/token"
	"go/types"
	"sort"
	"strings"

	"golang.org/x/tools/go/ssa"
)

func init() {
	register(&Rule{ID: "VF-11", Title: "tail recovery: the final batch's CRC decides; a mismatch rewinds or re-initialises",
		Props: []string{"C01", "C02", "C04"}, Floor: 2, Run: runVF11})
	register(&Rule{ID: "VF-12", Title: "tail recovery re-establishes every writer field the frame scan set speculatively",
		Props: []string{"C01", "C02", "C03", "C04", "C09"}, Floor: 1, Run: runVF12})
	register(&Rule{ID: "VF-13", Title: "a failed segment-writer mutator restores every field it touched (incl. the rolling CRC, so the next commit frame covers exactly the bytes since the previous commit)",
		Props: []string{"C10", "C09", "C02", "C06", "C01"}, Floor: 3, Run: runVF13})
}

// writerFieldName names a field of segment.Writer (or its nested writer struct) addressed by addr.
func writerFieldName(a *writerAnchors, addr ssa.Value) string {
	fv := fieldOfAddr(addr)
	switch fv {
	case nil:
		return ""
	case a.commitBuf:
		return "commitBuf"
	case a.crc:
		return "crc"
	case a.writeOffset:
		return "writeOffset"
	case a.indexStart:
		return "indexStart"
	case a.commitIdx:
		return "commitIdx"
	}
	return ""
}

// isCallbackFrame: an anonymous function invoked from a function other than the one that created it.
func isCallbackFrame(fr *Frame) bool {
	for x := fr; x != nil; x = x.Parent {
		if x.Fn.Parent() != nil && x.Parent != nil && x.Parent.Fn != x.Fn.Parent() {
			return true
		}
	}
	return false
}

// readsField: cond (transitively, through arithmetic/conversion) reads field named n of the Writer.
func readsWriterField(a *writerAnchors, v ssa.Value, name string, depth int) bool {
	if depth > 6 || v == nil {
		return false
	}
	switch x := v.(type) {
	case *ssa.UnOp:
		if x.Op == token.MUL && writerFieldName(a, x.X) == name {
			return true
		}
		return readsWriterField(a, x.X, name, depth+1)
	case *ssa.BinOp:
		return readsWriterField(a, x.X, name, depth+1) || readsWriterField(a, x.Y, name, depth+1)
	case *ssa.Convert:
		return readsWriterField(a, x.X, name, depth+1)
	}
	return false
}

// ---------------------------------------------------------------- VF-12

func runVF12(p *Prog, r *RuleRun) {
	a := resolveWriterAnchors(p)
	root := p.methodImpl("segment", "Filer", "RecoverTail")
	if len(a.missing) > 0 || root == nil {
		r.Unknown("anchor", "?", "unresolved anchors: "+strings.Join(a.missing, ", ")+" / (*segment.Filer).RecoverTail")
		return
	}
	spec := &OrdSpec{Name: "recovery-rollback",
		Instr: func(cx *Ctx, ins ssa.Instruction, f *Fact) {
			st, ok := ins.(*ssa.Store)
			if !ok {
				return
			}
			n := writerFieldName(a, st.Addr)
			if n == "" || n == "commitIdx" {
				return
			}
			if isCallbackFrame(cx.Fr) {
				f.TS["scan:"+n] = "speculative"
				f.note("scan sets " + n + "@" + p.Position(st.Pos()))
			} else if f.TS["scan:"+n] != "" {
				f.TS["scan:"+n] = "re-established"
			}
			// a validation that compared the scan-set field with this field is void once this field changes again
			// (e.g. the seal marker was checked against a provisional write offset that is rewound afterwards)
			if !isCallbackFrame(cx.Fr) {
				for k, v := range f.TS {
					if strings.HasPrefix(k, "scandep:") && strings.Contains(","+v+",", ","+n+",") {
						fld := strings.TrimPrefix(k, "scandep:")
						if f.TS["scan:"+fld] == "validated" {
							f.TS["scan:"+fld] = "speculative"
							f.note("validation of " + fld + " voided by later store to " + n + "@" + p.Position(st.Pos()))
						}
					}
				}
			}
		},
		OnBranch: func(cx *Ctx, ifi *ssa.If, truth bool, f *Fact) {
			if isCallbackFrame(cx.Fr) {
				return
			}
			for k, st := range f.TS {
				if strings.HasPrefix(k, "scan:") && st == "speculative" && readsWriterField(a, ifi.Cond, strings.TrimPrefix(k, "scan:"), 0) {
					f.TS[k] = "validated"
					var deps []string
					for _, other := range []string{"commitBuf", "crc", "writeOffset", "indexStart"} {
						if other != strings.TrimPrefix(k, "scan:") && readsWriterField(a, ifi.Cond, other, 0) {
							deps = append(deps, other)
						}
					}
					f.TS["scandep:"+strings.TrimPrefix(k, "scan:")] = strings.Join(deps, ",")
				}
			}
		},
		OnReturn: func(cx *Ctx, ret *ssa.Return, class RetClass, f *Fact) {
			if class != RetSuccess && class != RetEither {
				return
			}
			var ks []string
			for k := range f.TS {
				if strings.HasPrefix(k, "scan:") && !strings.HasPrefix(k, "scandep:") {
					ks = append(ks, k)
				}
			}
			sort.Strings(ks)
			for _, k := range ks {
				n := strings.TrimPrefix(k, "scan:")
				key := funcDisplay(root) + ":scan-set(" + n + ")"
				r.Check(f.TS[k] != "speculative", key, posOf(p, ret), "writer field "+n+" set during the frame scan is re-established or validated after the scan on every recovery path",
					"recovery returns a writer whose field "+n+" was set while scanning frames that may belong to a torn, discarded batch and is never re-established or validated afterwards: the recovered tail believes in a frame that recovery itself rolled back (e.g. a seal marker for an index frame that was discarded: appends are refused and a later truncation persists an IndexStart addressing uncommitted bytes); path: "+trace(f))
			}
			if len(ks) == 0 {
				r.Trivial(cx.Key(ret, "return")+":no-scan-state", posOf(p, ret), "no writer field is set by the scan on this path")
			}
		}}
	eng := newOrdEngine(p, spec)
	eng.RunRoot(root, nil)
	finishEngine(r, eng)
}

// ---------------------------------------------------------------- VF-11

func runVF11(p *Prog, r *RuleRun) {
	a := resolveWriterAnchors(p)
	root := p.methodImpl("segment", "Filer", "RecoverTail")
	if len(a.missing) > 0 || root == nil {
		r.Unknown("anchor", "?", "unresolved anchors")
		return
	}
	var isCRC func(v ssa.Value) bool
	isCRC = func(v ssa.Value) bool {
		return derivesFromCallDeep(p, v, func(c *ssa.Call) bool {
			n := eventName(c)
			return n == "crc32.Checksum" || n == "crc32.Update"
		}, 0)
	}
	// FC: the commit record whose stored CRC is compared, found from the comparison itself: a pointer to a record
	// (loaded from a local variable shared with the scan callback, or a plain value taken from the scan's result)
	recordOf := func(v ssa.Value) ssa.Value {
		// walk from `rec.fh.crc` (loads of field addresses, field extractions) down to the record pointer
		for i := 0; i < 6; i++ {
			switch x := v.(type) {
			case *ssa.UnOp:
				if x.Op != token.MUL {
					return nil
				}
				if _, ok := x.X.(*ssa.FieldAddr); ok {
					v = x.X
					continue
				}
				return x // a load of a variable holding the pointer
			case *ssa.FieldAddr:
				if pt, ok := x.X.Type().Underlying().(*types.Pointer); ok {
					if _, isStruct := pt.Elem().Underlying().(*types.Struct); isStruct {
						if _, inner := x.X.(*ssa.FieldAddr); !inner {
							return x.X // the pointer the outermost field address is taken from
						}
					}
				}
				v = x.X
			case *ssa.Field:
				v = x.X
			default:
				return nil
			}
		}
		return nil
	}
	sameRec := func(a, b ssa.Value) bool {
		if a == nil || b == nil {
			return false
		}
		if a == b {
			return true
		}
		ua, ok1 := a.(*ssa.UnOp)
		ub, ok2 := b.(*ssa.UnOp)
		if ok1 && ok2 && ua.Op == token.MUL && ub.Op == token.MUL {
			if ua.X == ub.X {
				return true
			}
			fa, ok3 := ua.X.(*ssa.FieldAddr)
			fb, ok4 := ub.X.(*ssa.FieldAddr)
			return ok3 && ok4 && fa.Field == fb.Field && (fa.X == fb.X || sameLoad(fa.X, fb.X))
		}
		return false
	}
	var fcRec ssa.Value
	for fn := range p.reachableFuncs(root) {
		for _, b := range fn.Blocks {
			for _, ins := range b.Instrs {
				bo, ok := ins.(*ssa.BinOp)
				if !ok || (bo.Op != token.EQL && bo.Op != token.NEQ) {
					continue
				}
				for _, pair := range [][2]ssa.Value{{bo.X, bo.Y}, {bo.Y, bo.X}} {
					if isCRC(pair[0]) && !isCRC(pair[1]) {
						if rec := recordOf(pair[1]); rec != nil {
							if pt, ok := rec.Type().Underlying().(*types.Pointer); ok {
								if _, isStruct := pt.Elem().Underlying().(*types.Struct); isStruct {
									fcRec = rec
								}
							}
						}
					}
				}
			}
		}
	}
	isEntryList := func(v ssa.Value) bool {
		// len(<slice of file offsets>)
		c, ok := v.(*ssa.Call)
		if !ok || !isBuiltinCall(c, "len") {
			return false
		}
		sl, ok := c.Call.Args[0].Type().Underlying().(*types.Slice)
		if !ok {
			return false
		}
		bt, ok := sl.Elem().Underlying().(*types.Basic)
		return ok && bt.Kind() == types.Uint32
	}
	nCmp := 0
	spec := &OrdSpec{Name: "recovery-crc",
		Call: func(cx *Ctx, ci ssa.CallInstruction) CallInfo {
			if n := eventName(ci); n == "types.WritableFile.ReadAt" || n == "types.ReadableFile.ReadAt" {
				return CallInfo{Event: "ReadAt", Primitive: true}
			}
			return CallInfo{}
		},
		OnBranch: func(cx *Ctx, ifi *ssa.If, truth bool, f *Fact) {
			bo, ok := ifi.Cond.(*ssa.BinOp)
			if !ok {
				return
			}
			if fcRec != nil {
				// "no commit frame at all": the commit record is nil
				if c, isC := bo.Y.(*ssa.Const); isC && c.IsNil() && (bo.Op == token.EQL || bo.Op == token.NEQ) {
					if sameRec(bo.X, fcRec) && (bo.Op == token.EQL) == truth {
						f.TS["fc"] = "nil"
					}
				}
				// "entries follow the last commit": <count recorded in the commit record> < len(<entries seen>)
				x, y, op := bo.X, bo.Y, bo.Op
				if isEntryList(x) {
					x, y = y, x
					op = map[token.Token]token.Token{token.LSS: token.GTR, token.GTR: token.LSS, token.LEQ: token.GEQ, token.GEQ: token.LEQ, token.EQL: token.EQL, token.NEQ: token.NEQ}[op]
				}
				if isEntryList(y) && fieldLoadName(x) != "" && sameRec(recordOf(x), fcRec) {
					var less bool
					known := true
					switch op {
					case token.LSS, token.NEQ:
						less = truth
					case token.GEQ, token.EQL:
						less = !truth
					default:
						known = false
					}
					if known && less {
						f.TS["trailing"] = "yes"
					}
				}
			}
			if bo.Op != token.EQL && bo.Op != token.NEQ {
				return
			}
			var other ssa.Value
			switch {
			case isCRC(bo.X):
				other = bo.Y
			case isCRC(bo.Y):
				other = bo.X
			default:
				return
			}
			if _, isConst := other.(*ssa.Const); isConst || isCRC(other) {
				return // not a comparison of the computed CRC with a stored one
			}
			nCmp++
			if (bo.Op == token.EQL) == truth {
				f.TS["crc"] = "match"
			} else {
				f.TS["crc"] = "mismatch"
				delete(f.TS, "rewound")
			}
			crcSide := bo.X
			if other == bo.X {
				crcSide = bo.Y
			}
			if !f.Must["ReadAt:ok"] && !crcOverReadBack(p, crcSide) {
				f.TS["crc-src"] = "not-read-back"
			}
		},
		Instr: func(cx *Ctx, ins ssa.Instruction, f *Fact) {
			if st, ok := ins.(*ssa.Store); ok && writerFieldName(a, st.Addr) == "writeOffset" && f.TS["crc"] == "mismatch" {
				f.TS["rewound"] = "yes"
			}
		},
		OnReturn: func(cx *Ctx, ret *ssa.Return, class RetClass, f *Fact) {
			if class != RetSuccess && class != RetEither {
				return
			}
			key := cx.Key(ret, "return") + ":crc-" + orDefault(f.TS["crc"], "undecided")
			switch f.TS["crc"] {
			case "mismatch":
				r.Check(f.TS["rewound"] == "yes", key, posOf(p, ret), "CRC mismatch leads to a rewind of the write offset / re-initialisation before success",
					"recovery returns success after the final batch's CRC did NOT match without moving the write offset back: a torn batch is accepted as committed; path: "+trace(f))
			case "match":
				r.Check(f.TS["crc-src"] == "", key, posOf(p, ret), "final batch accepted on a CRC match computed over bytes read back from the file",
					"the CRC that accepts the final batch is not computed over bytes read back from the file")
			default:
				switch {
				case f.TS["fc"] == "nil":
					r.Trivial(key+":no-commit", posOf(p, ret), "path without a CRC decision: no commit frame was found (the segment is re-initialised)")
				case f.TS["trailing"] == "yes":
					r.Trivial(key+":trailing", posOf(p, ret), "path without a CRC decision: entry frames follow the last commit frame, so that commit was completed and acknowledged before them")
				default:
					r.Fail(key, posOf(p, ret), "recovery accepts the final commit frame without comparing its CRC on a path where neither `no commit frame was found` nor `entries follow the last commit` was established: a torn final batch (commit frame on disk, part of its data not) is treated as committed; path: "+trace(f))
				}
			}
		}}
	eng := newOrdEngine(p, spec)
	eng.RunRoot(root, nil)
	finishEngine(r, eng)
	if fcRec == nil {
		r.Unknown(funcDisplay(root)+":commit-record", p.Position(root.Pos()), "cannot identify the variable holding the final commit record from the CRC comparison")
	}
	if nCmp == 0 {
		r.Fail(funcDisplay(root)+":crc-comparison", p.Position(root.Pos()), "tail recovery never compares a computed CRC32 with the commit frame's stored CRC: torn final batches are accepted")
	} else {
		r.OK(funcDisplay(root)+":crc-comparison", p.Position(root.Pos()), "recovery compares crc32 over read-back bytes with a stored value")
	}
}

// crcOverReadBack: every crc32 call the value derives from hashes a buffer that a ReadAt in the same function
// filled (one read of the whole range, or a chunked loop: the data argument and the ReadAt buffer are the same
// slice or slices of one base).
func crcOverReadBack(p *Prog, v ssa.Value) bool {
	var calls []*ssa.Call
	derivesFromCallDeep(p, v, func(c *ssa.Call) bool {
		if n := eventName(c); n == "crc32.Checksum" || n == "crc32.Update" {
			calls = append(calls, c)
		}
		return false // keep walking: collect all of them
	}, 0)
	if len(calls) == 0 {
		return false
	}
	base := func(v ssa.Value) ssa.Value {
		for i := 0; i < 6; i++ {
			switch x := v.(type) {
			case *ssa.Slice:
				v = x.X
				continue
			case *ssa.Phi:
				if len(x.Edges) > 0 {
					v = x.Edges[0]
					continue
				}
			}
			break
		}
		return v
	}
	for _, c := range calls {
		data := c.Call.Args[0]
		if eventName(c) == "crc32.Update" {
			data = c.Call.Args[2]
		}
		ok := false
		for _, b := range c.Parent().Blocks {
			for _, ins := range b.Instrs {
				rc, isCall := ins.(*ssa.Call)
				if !isCall || !strings.HasSuffix(eventName(rc), ".ReadAt") || len(rc.Call.Args) < 1 {
					continue
				}
				if base(rc.Call.Args[0]) == base(data) {
					ok = true
				}
			}
		}
		if !ok {
			return false
		}
	}
	return true
}

// derivesFromCallDeep is derivesFromCall that also looks through the results of production helper functions.
func derivesFromCallDeep(p *Prog, v ssa.Value, pred func(c *ssa.Call) bool, depth int) bool {
	if depth > 3 {
		return false
	}
	return derivesFromCall(v, func(c *ssa.Call) bool {
		if pred(c) {
			return true
		}
		callee := c.Call.StaticCallee()
		if callee == nil || !p.IsProdFunc(callee) || callee.Blocks == nil {
			return false
		}
		for _, b := range callee.Blocks {
			for _, ins := range b.Instrs {
				if ret, ok := ins.(*ssa.Return); ok {
					for _, res := range ret.Results {
						if derivesFromCallDeep(p, res, pred, depth+1) {
							return true
						}
					}
				}
			}
		}
		return false
	})
}

// ---------------------------------------------------------------- VF-13

func runVF13(p *Prog, r *RuleRun) {
	a := resolveWriterAnchors(p)
	if len(a.missing) > 0 || len(a.mutators) == 0 {
		r.Unknown("anchor", "?", "unresolved anchors: "+strings.Join(a.missing, ", "))
		return
	}
	fields := []string{"commitBuf", "crc", "writeOffset", "indexStart", "offsets"}
	inner := writerInner(p)
	innerName := map[*types.Var]string{a.commitBuf: "commitBuf", a.crc: "crc", a.writeOffset: "writeOffset", a.indexStart: "indexStart"}
	isOffsets := func(ci ssa.CallInstruction) bool {
		return len(ci.Common().Args) > 0 && fieldOfAddr(ci.Common().Args[0]) == a.offsets
	}
	spec := &OrdSpec{Name: "mutator-rollback",
		Call: func(cx *Ctx, ci ssa.CallInstruction) CallInfo {
			switch n := eventName(ci); {
			case n == "types.WritableFile.WriteAt":
				return CallInfo{Event: "WriteAt", Primitive: true}
			case n == "types.WritableFile.Sync":
				return CallInfo{Event: "Sync", Primitive: true}
			case n == "atomic.Value.Store" && isOffsets(ci):
				return CallInfo{Event: "OFFSETS.Store", Primitive: true}
			case n == "atomic.Value.Load" && isOffsets(ci):
				return CallInfo{Event: "OFFSETS.Load", Primitive: true}
			}
			return CallInfo{}
		},
		Value: func(cx *Ctx, v ssa.Value, f *Fact) (AV, bool) {
			switch x := v.(type) {
			case *ssa.UnOp:
				if x.Op == token.MUL {
					if n := writerFieldName(a, x.X); n != "" && f.TS["f:"+n] == "" {
						return AV{Tag: "orig:" + n}, true
					}
					// a copy of the whole write-state struct (a checkpoint): each member carries its origin
					if inner != nil && fieldOfAddr(x.X) == inner {
						st := AV{K: avStruct, Flds: map[int]AV{}}
						for i, fv := range structFields(inner.Type()) {
							if n := innerName[fv]; n != "" && f.TS["f:"+n] == "" {
								st.Flds[i] = AV{Tag: "orig:" + n}
							}
						}
						return st, true
					}
				}
			case *ssa.Call:
				if eventName(x) == "atomic.Value.Load" && isOffsets(x) && f.TS["f:offsets"] == "" {
					return AV{Tag: "orig:offsets"}, true
				}
			}
			return AV{}, false
		},
		OnEvent: func(cx *Ctx, ev, phase string, ins ssa.Instruction, f *Fact) {
			if ev == "OFFSETS.Store" && phase == "call" {
				ci := ins.(ssa.CallInstruction)
				if cx.Eval(ci.Common().Args[1], f).Tag == "orig:offsets" {
					f.TS["f:offsets"] = "restored"
				} else {
					f.TS["f:offsets"] = "dirty"
				}
			}
		},
		Instr: func(cx *Ctx, ins ssa.Instruction, f *Fact) {
			st, ok := ins.(*ssa.Store)
			if !ok {
				return
			}
			// the whole write-state struct put back from a checkpoint
			if inner != nil && fieldOfAddr(st.Addr) == inner {
				val := cx.Eval(st.Val, f)
				for i, fv := range structFields(inner.Type()) {
					n := innerName[fv]
					if n == "" {
						continue
					}
					if val.K == avStruct && val.Flds[i].Tag == "orig:"+n {
						f.TS["f:"+n] = "restored"
					} else {
						f.TS["f:"+n] = "dirty"
					}
				}
				return
			}
			n := writerFieldName(a, st.Addr)
			if n == "" || n == "commitIdx" {
				return
			}
			if cx.Eval(st.Val, f).Tag == "orig:"+n {
				f.TS["f:"+n] = "restored"
			} else {
				f.TS["f:"+n] = "dirty"
			}
		},
		OnReturn: func(cx *Ctx, ret *ssa.Return, class RetClass, f *Fact) {
			if class != RetFailure && class != RetEither {
				return
			}
			key := cx.Key(ret, "return")
			var dirty []string
			for _, n := range fields {
				if f.TS["f:"+n] == "dirty" {
					dirty = append(dirty, n)
				}
			}
			r.Check(len(dirty) == 0, key, posOf(p, ret), "failure return leaves every write-side field untouched or restored to its entry value",
				fmt.Sprintf("%s returns an error but leaves %s modified: the writer keeps buffered frames / offsets / a seal marker for bytes that never became durable, and the next call builds on them (e.g. a retried truncation commits an IndexStart for an index frame that is not on disk); path: %s",
					funcDisplay(cx.Fr.Fn), strings.Join(dirty, ", "), trace(f)))
		}}
	eng := newOrdEngine(p, spec)
	for _, m := range a.mutators {
		eng.RunRoot(m, nil)
	}
	finishEngine(r, eng)
}

var _ = types.Typ
