package main

import (
	"fmt"
	"go/ast"
	"go/constant"
	"go/parser"
	"go/token"
	"go/types"
	"os"
	"os/exec"
	"path/filepath"
	"reflect"
	"sort"
	"strings"

	"golang.org/x/tools/go/ssa"
)

func init() {
	register(&Rule{ID: "TAB-01", Title: "file header: writer byte map = README spec; reader extractions and constant tests agree with the writer; validation compares ID, BaseIndex, Codec",
		Props: []string{"C09"}, Floor: 8, Run: runTAB01})
	register(&Rule{ID: "TAB-02", Title: "frame header: type byte, zero reserved bytes, LE32 length/CRC by type; type values; zero header = stop",
		Props: []string{"C09", "C02", "C11"}, Floor: 8, Run: runTAB02})
	register(&Rule{ID: "TAB-03", Title: "index frame: LE32 entries with stride 4 from the frame payload start; IndexStart producers add the frame header length",
		Props: []string{"C09", "C02"}, Floor: 5, Run: runTAB03})
	register(&Rule{ID: "TAB-04", Title: "format constants equal the documented values (lengths, limits, names, JSON fields, CRC polynomial, codec ids)",
		Props: []string{"C09", "C12"}, Floor: 12, Run: runTAB04})
	register(&Rule{ID: "TAB-05", Title: "codec: Encode and Decode handle the same raft.Log fields in the same order with paired primitives",
		Props: []string{"C12"}, Floor: 8, Run: runTAB05})
	register(&Rule{ID: "TAB-06", Title: "verifier checkpoint metadata: encode and decode byte maps agree",
		Props: []string{"C17"}, Floor: 4, Run: runTAB06})
	register(&Rule{ID: "TAB-08", Title: "SetUint64/GetUint64 agree on an 8-byte little-endian encoding; empty => 0, other lengths => error",
		Props: []string{"C08"}, Floor: 4, Run: runTAB08})
	register(&Rule{ID: "TAB-09", Title: "CopyStable's built-in key lists cover the keys hashicorp/raft writes, under the accessor kind raft uses",
		Props: []string{"C19"}, Floor: 3, Run: runTAB09})
}

func constValue(p *Prog, rel, name string) (constant.Value, bool) {
	pk := p.Pkg[rel]
	if pk == nil {
		return nil, false
	}
	c, ok := pk.Types.Scope().Lookup(name).(*types.Const)
	if !ok {
		return nil, false
	}
	return c.Val(), true
}

func constU64(p *Prog, rel, name string) (uint64, bool) {
	v, ok := constValue(p, rel, name)
	if !ok {
		return 0, false
	}
	u, ok := constant.Uint64Val(constant.ToInt(v))
	return u, ok
}

func isNamed(t types.Type, path, name string) bool {
	if pt, ok := t.(*types.Pointer); ok {
		t = pt.Elem()
	}
	n, ok := t.(*types.Named)
	return ok && n.Obj().Name() == name && n.Obj().Pkg() != nil && n.Obj().Pkg().Path() == path
}

// ---------------------------------------------------------------- TAB-01

func runTAB01(p *Prog, r *RuleRun) {
	pk := p.Pkg["segment"]
	info := pk.TypesInfo
	// writer: func(buf []byte, info types.SegmentInfo) error ; reader: func([]byte) (*types.SegmentInfo, error)
	writers := funcsBySig(p, pk, func(sig *types.Signature) bool {
		return sig.Recv() == nil && sig.Params().Len() == 2 && isNamed(sig.Params().At(1).Type(), ModPath+"/types", "SegmentInfo") &&
			sig.Params().At(0).Type().String() == "[]byte" && sig.Results().Len() == 1
	})
	readers := funcsBySig(p, pk, func(sig *types.Signature) bool {
		return sig.Recv() == nil && sig.Params().Len() == 1 && sig.Params().At(0).Type().String() == "[]byte" && sig.Results().Len() == 2 &&
			isNamed(sig.Results().At(0).Type(), ModPath+"/types", "SegmentInfo")
	})
	validators := funcsBySig(p, pk, func(sig *types.Signature) bool {
		return sig.Recv() == nil && sig.Params().Len() == 2 && isNamed(sig.Params().At(0).Type(), ModPath+"/types", "SegmentInfo") &&
			isNamed(sig.Params().At(1).Type(), ModPath+"/types", "SegmentInfo") && sig.Results().Len() == 1
	})
	if len(writers) != 1 || len(readers) != 1 || len(validators) != 1 {
		r.Unknown("anchor", "?", fmt.Sprintf("expected exactly one header writer/reader/validator by signature, found %d/%d/%d", len(writers), len(readers), len(validators)))
		return
	}
	w, rd, va := writers[0], readers[0], validators[0]
	wops := extractLayout(info, w.Body)
	rops := extractLayout(info, rd.Body)
	wbuf := w.Type.Params.List[0].Names[0].Name
	wm, err := byteMap(wops, wbuf)
	wpos := p.Position(w.Pos())
	if err != nil {
		r.Unknown("writer-map", wpos, err.Error())
		return
	}
	// spec (README "Segment Files"): magic LE32 at 0, reserved 0 at 4..6, version 0 at 7, BaseIndex/ID/Codec LE64 at 8/16/24
	spec := map[int]string{}
	magic := uint32(0x58eb6b0d)
	for i := 0; i < 4; i++ {
		spec[i] = fmt.Sprintf("0x%02x", byte(magic>>(8*uint(i))))
	}
	for i := 4; i < 8; i++ {
		spec[i] = "0x00"
	}
	for fi, name := range []string{"BaseIndex", "ID", "Codec"} {
		for i := 0; i < 8; i++ {
			spec[8+8*fi+i] = fmt.Sprintf("field:%s.byte%d", name, i)
		}
	}
	var diffs []string
	for pos := 0; pos < 32; pos++ {
		if wm[pos] != spec[pos] {
			diffs = append(diffs, fmt.Sprintf("byte %d: writer %q, README %q", pos, wm[pos], spec[pos]))
		}
	}
	for pos := range wm {
		if pos >= 32 {
			diffs = append(diffs, fmt.Sprintf("writer touches byte %d beyond the 32-byte header", pos))
		}
	}
	sort.Strings(diffs)
	r.Check(len(diffs) == 0, "writer-vs-spec", wpos, "the header writer's byte map equals the README layout: "+fmtByteMap(wm),
		"the file header written differs from the documented layout (every existing directory and external tool breaks): "+strings.Join(diffs, "; "))
	// reader against writer
	for _, o := range rops {
		key := "reader:" + o.String()
		pos := p.Position(o.Pos)
		switch o.Kind {
		case "get":
			if !strings.HasPrefix(o.Value, "field:") {
				continue // temporaries are judged through their tests below
			}
			ok := o.Lo >= 0 && o.Hi-o.Lo == o.Width/8
			for i := 0; ok && i < o.Width/8; i++ {
				bp := o.Lo + i
				if o.Order == "BigEndian" {
					bp = o.Hi - 1 - i
				}
				if wm[bp] != fmt.Sprintf("%s.byte%d", o.Value, i) {
					ok = false
				}
			}
			r.Check(ok, key, pos, "reader extracts "+o.Value+" from the bytes the writer puts it in", "reader extraction "+o.String()+" does not match the writer's byte map "+fmtByteMap(wm))
		case "identtest", "bytetest":
			var v uint64
			fmt.Sscanf(strings.TrimPrefix(o.Value, "const:"), "%d", &v)
			n := 1
			if o.Kind == "identtest" {
				n = o.Width / 8
			}
			ok := true
			for i := 0; i < n; i++ {
				bp := o.Lo + i
				if o.Kind == "identtest" && o.Order == "BigEndian" {
					bp = o.Hi - 1 - i
				}
				if wm[bp] != fmt.Sprintf("0x%02x", byte(v>>(8*uint(i)))) {
					ok = false
				}
			}
			// a != test rejects what differs from the constant: the writer's bytes must equal it
			r.Check(ok && o.Op == token.NEQ, key, pos, "reader's constant test is satisfied by what the writer writes", "reader test "+o.String()+" is not satisfied by the writer's bytes "+fmtByteMap(wm)+" (files written by this version would be rejected, or foreign files accepted)")
		}
	}
	// the reader must extract all three fields
	for _, f := range []string{"BaseIndex", "ID", "Codec"} {
		found := false
		for _, o := range rops {
			if o.Kind == "get" && o.Value == "field:"+f {
				found = true
			}
		}
		r.Check(found, "reader-extracts:"+f, p.Position(rd.Pos()), "header field "+f+" is read back", "the header reader never extracts "+f+": validation against metadata cannot notice a foreign segment")
	}
	// validation compares all three: on every path of the validator that ends in success, header field F was
	// compared with the expected F and found equal (walked with the engine, so a table-driven loop over
	// {got, expect} pairs is followed like three ifs)
	vfn := p.Func("segment", va.Name.Name)
	if vfn == nil || len(vfn.Params) != 2 {
		r.Unknown("validate:anchor", p.Position(va.Pos()), "SSA function of the header validator not found")
		return
	}
	cmp := map[string]bool{"BaseIndex": true, "ID": true, "Codec": true}
	nSuccess := 0
	vspec := &OrdSpec{Name: "header-validate",
		Call: func(cx *Ctx, ci ssa.CallInstruction) CallInfo { return CallInfo{Primitive: true, Infallible: false} },
		Value: func(cx *Ctx, v ssa.Value, f *Fact) (AV, bool) {
			var base ssa.Value
			var fv *types.Var
			switch x := v.(type) {
			case *ssa.Field:
				base, fv = x.X, fieldOfAddr(x)
			case *ssa.UnOp:
				if fa, ok := x.X.(*ssa.FieldAddr); ok && x.Op == token.MUL {
					base, fv = fa.X, fieldOfAddr(fa)
				}
			}
			if base == nil || fv == nil {
				return AV{}, false
			}
			if i := paramIndexOf(vfn, base); i >= 0 {
				return AV{Tag: fmt.Sprintf("~p%d:%s", i, fv.Name())}, true
			}
			return AV{}, false
		},
		OnBranch: func(cx *Ctx, ifi *ssa.If, truth bool, f *Fact) {
			bo, ok := ifi.Cond.(*ssa.BinOp)
			if !ok || (bo.Op != token.EQL && bo.Op != token.NEQ) {
				return
			}
			tx, ty := cx.Eval(bo.X, f).Tag, cx.Eval(bo.Y, f).Tag
			if !strings.HasPrefix(tx, "~p") || !strings.HasPrefix(ty, "~p") || tx[:3] == ty[:3] {
				return
			}
			fx, fy := tx[strings.Index(tx, ":")+1:], ty[strings.Index(ty, ":")+1:]
			if fx != fy {
				return
			}
			if (bo.Op == token.EQL) == truth {
				f.TS["eq:"+fx] = "1"
			}
		},
		OnReturn: func(cx *Ctx, ret *ssa.Return, class RetClass, f *Fact) {
			if class != RetSuccess {
				return
			}
			nSuccess++
			for fld := range cmp {
				if f.TS["eq:"+fld] != "1" {
					cmp[fld] = false
				}
			}
		}}
	veng := newOrdEngine(p, vspec)
	veng.RunRoot(vfn, nil)
	finishEngine(r, veng)
	for _, f := range []string{"BaseIndex", "ID", "Codec"} {
		r.Check(cmp[f] && nSuccess > 0, "validate:"+f, p.Position(va.Pos()), "header validation compares "+f+" with metadata (on every path that accepts the header)", "header validation accepts a header on a path that did not find "+f+" equal to the metadata's: a file belonging to another segment/codec would be accepted")
	}
}

// ---------------------------------------------------------------- TAB-02

func runTAB02(p *Prog, r *RuleRun) {
	pk := p.Pkg["segment"]
	info := pk.TypesInfo
	fhT := pk.Types.Scope().Lookup("frameHeader")
	if fhT == nil {
		r.Unknown("anchor", "?", "segment.frameHeader not found")
		return
	}
	isFH := func(t types.Type) bool { return types.Identical(t, fhT.Type()) }
	writers := funcsBySig(p, pk, func(sig *types.Signature) bool {
		return sig.Recv() == nil && sig.Params().Len() == 2 && sig.Params().At(0).Type().String() == "[]byte" && isFH(sig.Params().At(1).Type())
	})
	readers := funcsBySig(p, pk, func(sig *types.Signature) bool {
		return sig.Recv() == nil && sig.Params().Len() == 1 && sig.Params().At(0).Type().String() == "[]byte" && sig.Results().Len() == 2 && isFH(sig.Results().At(0).Type())
	})
	if len(writers) != 1 || len(readers) != 1 {
		r.Unknown("anchor", "?", fmt.Sprintf("expected one frame header writer/reader by signature, found %d/%d", len(writers), len(readers)))
		return
	}
	w, rd := writers[0], readers[0]
	// type constants
	want := map[string]uint64{"FrameInvalid": 0, "FrameEntry": 1, "FrameIndex": 2, "FrameCommit": 3}
	for _, n := range sortedKeys(want) {
		v, ok := constU64(p, "segment", n)
		r.Check(ok && v == want[n], "const:"+n, "?", fmt.Sprintf("%s = %d as documented", n, want[n]), fmt.Sprintf("frame type constant %s is %d (found=%v), README says %d: old files decode as the wrong frame kinds", n, v, ok, want[n]))
	}
	fhTyp, fhLen, fhCRC := frameHeaderFields(p)
	if fhTyp == nil || fhLen == nil || fhCRC == nil {
		r.Unknown("anchor:frame-header-fields", "?", "cannot resolve the type/length/CRC fields of the in-memory frame header")
		return
	}
	wops := extractLayout(info, w.Body)
	wbuf := w.Type.Params.List[0].Names[0].Name
	wpos := p.Position(w.Pos())
	// writer: byte 0 <- field typ; 1..3 <- 0; [4:8] LE32 <- ident assigned from .len, and from .crc under typ == FrameCommit
	got := map[int]string{}
	var put *layoutOp
	for i, o := range wops {
		if o.Buf != wbuf {
			continue
		}
		if o.Kind == "bytestore" {
			got[o.Lo] = o.Value
		}
		if o.Kind == "put" {
			put = &wops[i]
		}
	}
	ok := strings.HasPrefix(got[0], "field:") && got[1] == "const:0" && got[2] == "const:0" && got[3] == "const:0"
	r.Check(ok, "writer:type+reserved", wpos, "byte 0 = frame type, bytes 1..3 = 0", fmt.Sprintf("frame header bytes 0..3 are %v, want type then three zero bytes (a non-zero reserved byte makes an all-zero check and future flags ambiguous)", got))
	r.Check(put != nil && put.Lo == 4 && put.Hi == 8 && put.Width == 32 && put.Order == "LittleEndian", "writer:len/crc", wpos, "bytes 4..7 = little-endian uint32 length/CRC",
		fmt.Sprintf("the length/CRC word is not written as LittleEndian.PutUint32(buf[4:8], ...): %v", put))
	// which value goes into the word
	if put != nil && strings.HasPrefix(put.Value, "ident:") {
		id := strings.TrimPrefix(put.Value, "ident:")
		var dflt, commit string
		ast.Inspect(w.Body, func(n ast.Node) bool {
			switch x := n.(type) {
			case *ast.AssignStmt:
				if l, ok := x.Lhs[0].(*ast.Ident); ok && l.Name == id && len(x.Rhs) == 1 {
					if x.Tok == token.DEFINE {
						dflt = valueDesc(info, x.Rhs[0])
					}
				}
			case *ast.IfStmt:
				be, ok := x.Cond.(*ast.BinaryExpr)
				if !ok || be.Op != token.EQL {
					return true
				}
				if c, ok := constInt(info, be.Y); ok && c == 3 {
					for _, st := range x.Body.List {
						if as, ok := st.(*ast.AssignStmt); ok {
							if l, ok := as.Lhs[0].(*ast.Ident); ok && l.Name == id {
								commit = valueDesc(info, as.Rhs[0])
							}
						}
					}
				}
			}
			return true
		})
		r.Check(fhLen != nil && fhCRC != nil && dflt == "field:"+fhLen.Name() && commit == "field:"+fhCRC.Name(), "writer:word-by-type", wpos, "the word holds the CRC for commit frames and the length otherwise",
			fmt.Sprintf("the length/CRC word holds %q by default and %q for FrameCommit; README: length, and CRC for commit frames", dflt, commit))
	} else {
		r.Unknown("writer:word-by-type", wpos, "cannot tell which value is written into the length/CRC word")
	}
	// reader: evaluated, not pattern-matched: the reader's CFG is walked for each frame type value (and a short
	// buffer); what is returned on each path is compared with the documented layout
	rpos := p.Position(rd.Pos())
	rfn := p.Func("segment", rd.Name.Name)
	if rfn == nil || len(rfn.Params) != 1 {
		r.Unknown("reader:anchor", rpos, "SSA function of the frame header reader not found")
		return
	}
	buf := rfn.Params[0]
	isBufSlice := func(v ssa.Value, lo, hi int64) bool {
		sl, ok := v.(*ssa.Slice)
		if !ok || sl.X != ssa.Value(buf) {
			return false
		}
		l, h := int64(0), int64(-1)
		if sl.Low != nil {
			c, ok := sl.Low.(*ssa.Const)
			if !ok {
				return false
			}
			l = c.Int64()
		}
		if sl.High != nil {
			c, ok := sl.High.(*ssa.Const)
			if !ok {
				return false
			}
			h = c.Int64()
		}
		return l == lo && h == hi
	}
	hdrLen, _ := constU64(p, "segment", "frameHeaderLen")
	// zeroCmp: bytes.Equal(buf[:frameHeaderLen], <all-zero package array>[:]), directly or in a helper given buf
	var zeroCmp func(c *ssa.Call, depth int) bool
	zeroCmp = func(c *ssa.Call, depth int) bool {
		if eventName(c) == "bytes.Equal" && len(c.Call.Args) == 2 {
			zero, data := false, false
			for _, a := range c.Call.Args {
				if sl, ok := a.(*ssa.Slice); ok {
					if g, ok := sl.X.(*ssa.Global); ok {
						if at, ok := g.Type().(*types.Pointer).Elem().Underlying().(*types.Array); ok && uint64(at.Len()) == hdrLen && !globalWritten(p, g) {
							zero = true
						}
					} else if _, isParam := sl.X.(*ssa.Parameter); isParam {
						if h, ok := sl.High.(*ssa.Const); ok && uint64(h.Int64()) == hdrLen && sl.Low == nil {
							data = true
						}
					}
				}
			}
			return zero && data
		}
		callee := c.Call.StaticCallee()
		if depth > 2 || callee == nil || pkgRelOf(p, callee) != "segment" || len(c.Call.Args) != 1 || c.Call.Args[0] != ssa.Value(buf) && depth == 0 {
			return false
		}
		for _, b := range callee.Blocks {
			for _, ins := range b.Instrs {
				if c2, ok := ins.(*ssa.Call); ok && zeroCmp(c2, depth+1) {
					return true
				}
			}
		}
		return false
	}
	rspec := &fdSpec{
		Symbol: func(v ssa.Value) string {
			switch x := v.(type) {
			case *ssa.UnOp:
				if ia, ok := x.X.(*ssa.IndexAddr); ok && x.Op == token.MUL && ia.X == ssa.Value(buf) {
					if c, ok := ia.Index.(*ssa.Const); ok && c.Int64() == 0 {
						return "T"
					}
				}
			case *ssa.Call:
				if isBuiltinCall(x, "len") && x.Call.Args[0] == ssa.Value(buf) {
					return "L"
				}
			}
			return ""
		},
		Effect: func(ins ssa.Instruction, eval func(ssa.Value) fdVal) (string, bool) {
			switch x := ins.(type) {
			case *ssa.Store:
				fa, ok := x.Addr.(*ssa.FieldAddr)
				if !ok {
					return "", false
				}
				fv := fieldOfAddr(fa)
				if fv == nil || !strings.HasSuffix(fa.X.Type().String(), "segment.frameHeader") {
					return "", false
				}
				desc := "other"
				switch val := x.Val.(type) {
				case *ssa.UnOp:
					if ia, ok := val.X.(*ssa.IndexAddr); ok && ia.X == ssa.Value(buf) {
						if c, ok := ia.Index.(*ssa.Const); ok {
							desc = fmt.Sprintf("buf[%d]", c.Int64())
						}
					}
				case *ssa.Call:
					if eventName(val) == "binary.littleEndian.Uint32" && isBufSlice(val.Call.Args[len(val.Call.Args)-1], 4, 8) {
						desc = "LE32[4:8]"
					}
				case *ssa.Const:
					desc = "const"
				}
				return fmt.Sprintf("%s.%s=%s", fa.X.Name(), fv.Name(), desc), false
			case *ssa.Call:
				if zeroCmp(x, 0) {
					return "ZEROCHECK", false
				}
			}
			return "", false
		},
		Return: func(ret *ssa.Return, res []ssa.Value, eval func(ssa.Value) fdVal) string {
			who := "?"
			switch x := ret.Results[0].(type) {
			case *ssa.UnOp:
				who = x.X.Name()
			case *ssa.Const:
				who = "zero"
			}
			e := "err"
			if c, ok := ret.Results[1].(*ssa.Const); ok && c.IsNil() {
				e = "nil"
			}
			return "ret(" + who + "," + e + ")"
		}}
	// outcome of one trace: error?, fields of the returned header, zero check seen
	type outcome struct {
		err, zc bool
		flds    map[string]string
	}
	parse := func(t string) outcome {
		parts := strings.Split(t, " > ")
		last := parts[len(parts)-1]
		o := outcome{flds: map[string]string{}}
		who := strings.TrimSuffix(strings.TrimPrefix(last, "ret("), ")")
		o.err = strings.HasSuffix(who, ",err")
		who = who[:strings.LastIndex(who, ",")]
		for _, l := range parts[:len(parts)-1] {
			if l == "ZEROCHECK" {
				o.zc = true
				continue
			}
			if strings.HasPrefix(l, who+".") {
				kv := strings.SplitN(strings.TrimPrefix(l, who+"."), "=", 2)
				o.flds[kv[0]] = kv[1]
			}
		}
		return o
	}
	run := func(T, L int64) []outcome {
		var out []outcome
		for _, t := range fdRun(rfn, rspec, map[string]int64{"T": T, "L": L}) {
			out = append(out, parse(t))
		}
		return out
	}
	// short buffer
	shortOK := true
	for _, o := range run(1, int64(hdrLen)-1) {
		if !o.err {
			shortOK = false
		}
	}
	r.Check(shortOK && hdrLen == 8, "reader:short-buffer", rpos, "a buffer shorter than the 8-byte header is an error", "the frame header reader accepts a buffer shorter than the header")
	// unknown types
	defaultErr := true
	for _, T := range []int64{4, 5, 127, 255} {
		outs := run(T, int64(hdrLen))
		if len(outs) == 0 {
			defaultErr = false
		}
		for _, o := range outs {
			if !o.err {
				defaultErr = false
			}
		}
	}
	r.Check(defaultErr, "reader:unknown-type", rpos, "unknown frame types are an error", "the frame header reader does not reject unknown frame types")
	// type 0: accepted (as an empty header) exactly when the whole header is zero
	accept, reject, stray := false, false, false
	for _, o := range run(0, int64(hdrLen)) {
		switch {
		case !o.zc:
			stray = true // an outcome for type 0 that never looked at the other bytes
		case o.err:
			reject = true
		default:
			accept = true
			for _, v := range o.flds {
				if v != "const" {
					stray = true
				}
			}
		}
	}
	r.Check(accept && reject && !stray, "reader:zero-header", rpos, "type 0 is accepted only when the whole header is zero (end of written data)", "the reader does not distinguish an all-zero header (stop) from a zero type with other bytes set (corrupt)")
	for _, tv := range []int64{1, 2, 3} {
		word, other := fhLen.Name(), fhCRC.Name()
		what := "entry/index frames: bytes 4..7 are the length"
		if tv == 3 {
			word, other = fhCRC.Name(), fhLen.Name()
			what = "commit frames: bytes 4..7 are the CRC"
		}
		outs := run(tv, int64(hdrLen))
		ok := len(outs) > 0
		var got []string
		for _, o := range outs {
			if o.err || o.flds[fhTyp.Name()] != "buf[0]" || o.flds[word] != "LE32[4:8]" || (o.flds[other] != "" && o.flds[other] != "const") {
				ok = false
			}
			got = append(got, fmt.Sprintf("err=%v %v", o.err, o.flds))
		}
		r.Check(ok, fmt.Sprintf("reader:type%d", tv), rpos, what, fmt.Sprintf("frame type %d: want typ=buf[0], %s=LE32 of bytes 4..7 and no error; the reader yields %v", tv, word, got))
	}
}

// globalWritten: is any element of / the whole package-level variable g stored to by production code?
func globalWritten(p *Prog, g *ssa.Global) bool {
	for _, fn := range p.Funcs {
		for _, b := range fn.Blocks {
			for _, ins := range b.Instrs {
				st, ok := ins.(*ssa.Store)
				if !ok {
					continue
				}
				addr := st.Addr
				for {
					switch x := addr.(type) {
					case *ssa.IndexAddr:
						addr = x.X
						continue
					case *ssa.FieldAddr:
						addr = x.X
						continue
					}
					break
				}
				if addr == ssa.Value(g) {
					return true
				}
			}
		}
	}
	return false
}

// ---------------------------------------------------------------- TAB-03

func exprHasConst(v ssa.Value, want int64, depth int) bool {
	if depth > 6 || v == nil {
		return false
	}
	switch x := v.(type) {
	case *ssa.Const:
		return x.Value != nil && x.Value.Kind() == constant.Int && x.Int64() == want
	case *ssa.BinOp:
		if x.Op == token.ADD {
			return exprHasConst(x.X, want, depth+1) || exprHasConst(x.Y, want, depth+1)
		}
	case *ssa.Convert:
		return exprHasConst(x.X, want, depth+1)
	}
	return false
}

// sealOffsetOK: is v an acceptable value for the seal offset?  0, a copy of the seal offset field, an expression
// that adds the frame header length, or a value read back from a variable / struct field every store to which is
// itself acceptable (saved copies for a rollback, a per-commit record built during recovery).
func sealOffsetOK(p *Prog, a *writerAnchors, v ssa.Value, fhl int64, depth int, seen map[ssa.Value]bool) bool {
	if depth > 5 || v == nil || seen[v] {
		return depth <= 5 && seen[v]
	}
	seen[v] = true
	if c, ok := v.(*ssa.Const); ok {
		return c.Value == nil || c.Int64() == 0
	}
	if exprHasConst(v, fhl, 0) || loadedField(v) == a.indexStart {
		return true
	}
	storesTo := func(match func(addr ssa.Value) bool) (vals []ssa.Value, n int) {
		for _, fn := range p.Funcs {
			for _, b := range fn.Blocks {
				for _, ins := range b.Instrs {
					if st, ok := ins.(*ssa.Store); ok && match(st.Addr) {
						vals = append(vals, st.Val)
						n++
					}
				}
			}
		}
		return
	}
	allOK := func(vals []ssa.Value) bool {
		for _, x := range vals {
			if !sealOffsetOK(p, a, x, fhl, depth+1, seen) {
				return false
			}
		}
		return true
	}
	switch x := v.(type) {
	case *ssa.Phi:
		return allOK(x.Edges)
	case *ssa.Convert:
		return sealOffsetOK(p, a, x.X, fhl, depth+1, seen)
	case *ssa.Field:
		if f := fieldOfAddr(x); f != nil {
			vals, n := storesTo(func(addr ssa.Value) bool { return fieldOfAddr(addr) == f })
			return n > 0 && allOK(vals)
		}
	case *ssa.UnOp:
		if x.Op != token.MUL {
			return false
		}
		if f := fieldOfAddr(x.X); f != nil {
			vals, n := storesTo(func(addr ssa.Value) bool { return fieldOfAddr(addr) == f })
			return n > 0 && allOK(vals)
		}
		// a local variable, possibly shared with closures
		cell := rootCell(x.X)
		if cell == nil {
			return false
		}
		vals, n := storesTo(func(addr ssa.Value) bool { return rootCell(addr) == cell })
		return n > 0 && allOK(vals)
	}
	return false
}

// rootCell resolves a local variable's address (an Alloc, or a closure's free variable bound to one) to the Alloc.
func rootCell(addr ssa.Value) *ssa.Alloc {
	for i := 0; i < 4; i++ {
		switch x := addr.(type) {
		case *ssa.Alloc:
			return x
		case *ssa.FreeVar:
			cl := x.Parent()
			par := cl.Parent()
			if par == nil {
				return nil
			}
			idx := -1
			for j, fv := range cl.FreeVars {
				if fv == x {
					idx = j
				}
			}
			var next ssa.Value
			for _, b := range par.Blocks {
				for _, ins := range b.Instrs {
					if mc, ok := ins.(*ssa.MakeClosure); ok && mc.Fn == ssa.Value(cl) && idx >= 0 && idx < len(mc.Bindings) {
						next = mc.Bindings[idx]
					}
				}
			}
			if next == nil {
				return nil
			}
			addr = next
		default:
			return nil
		}
	}
	return nil
}

// strideOf decodes the lower bound of a destination slice inside a counted loop:
// returns (start, stride) for `buf[cursor:]` with cursor = phi(c0, cursor+k), or for `base[i*k : ...]` with base = buf[c0:...].
func strideOf(sl *ssa.Slice) (int64, int64, bool) {
	low := sl.Low
	if low == nil {
		return 0, 0, false
	}
	baseStart := int64(0)
	if inner, ok := sl.X.(*ssa.Slice); ok && inner.Low != nil {
		if c, ok := inner.Low.(*ssa.Const); ok {
			baseStart = c.Int64()
		}
	}
	switch x := low.(type) {
	case *ssa.Phi:
		var init, step int64 = -1, -1
		for _, e := range x.Edges {
			if c, ok := e.(*ssa.Const); ok {
				init = c.Int64()
			}
			if bo, ok := e.(*ssa.BinOp); ok && bo.Op == token.ADD && bo.X == x {
				if c, ok := bo.Y.(*ssa.Const); ok {
					step = c.Int64()
				}
			}
		}
		if init >= 0 && step > 0 {
			return baseStart + init, step, true
		}
	case *ssa.BinOp:
		if x.Op == token.MUL {
			if c, ok := x.Y.(*ssa.Const); ok {
				return baseStart, c.Int64(), true
			}
			if c, ok := x.X.(*ssa.Const); ok {
				return baseStart, c.Int64(), true
			}
		}
	}
	return 0, 0, false
}

func runTAB03(p *Prog, r *RuleRun) {
	pk := p.Pkg["segment"]
	info := pk.TypesInfo
	fhl, ok := constU64(p, "segment", "frameHeaderLen")
	if !ok {
		r.Unknown("anchor", "?", "segment.frameHeaderLen not found")
		return
	}
	writers := funcsBySig(p, pk, func(sig *types.Signature) bool {
		return sig.Recv() == nil && sig.Params().Len() == 2 && sig.Params().At(0).Type().String() == "[]byte" && sig.Params().At(1).Type().String() == "[]uint32"
	})
	if len(writers) != 1 {
		r.Unknown("anchor:index-writer", "?", fmt.Sprintf("expected one index frame writer func([]byte, []uint32), found %d", len(writers)))
		return
	}
	w := writers[0]
	wpos := p.Position(w.Pos())
	// SSA view: inside a loop, LittleEndian.PutUint32(dst, offsets[i]) with dst starting at start + stride*i;
	// accepted shapes: a cursor phi (init c0, += k) or an index expression i*k on a slice of buf starting at c0
	wfn := p.Func("segment", w.Name.Name)
	var start, stride int64 = -1, -1
	put32, pads := false, false
	if wfn != nil {
		for _, b := range wfn.Blocks {
			for _, ins := range b.Instrs {
				switch x := ins.(type) {
				case *ssa.Call:
					if isBuiltinCall(x, "clear") {
						pads = true
					}
					if eventName(x) != "binary.littleEndian.PutUint32" || len(x.Call.Args) < 3 {
						continue
					}
					if c, ok := x.Call.Args[2].(*ssa.Const); ok && c.Int64() == 0 {
						pads = true // explicit zero padding word
						continue
					}
					put32 = true
					if sl, ok := x.Call.Args[1].(*ssa.Slice); ok {
						if st, sd, ok := strideOf(sl); ok {
							start, stride = st, sd
						}
					}
				case *ssa.Store:
					if c, ok := x.Val.(*ssa.Const); ok && c.Value != nil && c.Int64() == 0 {
						if _, isIdx := x.Addr.(*ssa.IndexAddr); isIdx {
							pads = true
						}
					}
				}
			}
		}
	}
	r.Check(put32 && start == int64(fhl) && stride == 4, "writer:stride", wpos, "index entries are little-endian uint32, written from the payload start with stride 4",
		fmt.Sprintf("index frame writer: LE32=%v start=%d (want %d) stride=%d (want 4)", put32, start, fhl, stride))
	r.Check(pads, "writer:zero-pad", wpos, "the alignment word after an odd number of index entries is explicitly zeroed",
		"the index frame writer never zeroes the 4 alignment bytes that follow an odd number of entries: the frame is encoded into a reused buffer, so stale bytes of an earlier batch end up on disk where the format documents NULL padding")
	// reader: ReadAt(4-byte buffer, IndexStart + (idx - BaseIndex)*4) then little-endian uint32 of that buffer; matched on
	// the SSA expression (operand order, temporaries, named constants and helper functions do not matter)
	rroot := p.Func("segment", "Reader.findFrameOffset")
	if rroot == nil {
		r.Unknown("anchor:index-reader", "?", "(*segment.Reader).findFrameOffset not found")
		return
	}
	rpos := p.Position(rroot.Pos())
	strip := func(v ssa.Value) ssa.Value {
		for {
			switch x := v.(type) {
			case *ssa.Convert:
				v = x.X
				continue
			case *ssa.ChangeType:
				v = x.X
				continue
			}
			return v
		}
	}
	either := func(bo *ssa.BinOp, f func(a, b ssa.Value) bool) bool {
		return f(strip(bo.X), strip(bo.Y)) || f(strip(bo.Y), strip(bo.X))
	}
	isIdxMinusBase := func(v ssa.Value) bool {
		bo, ok := v.(*ssa.BinOp)
		if !ok || bo.Op != token.SUB {
			return false
		}
		_, isParam := strip(bo.X).(*ssa.Parameter)
		return isParam && fieldLoadName(strip(bo.Y)) == "BaseIndex"
	}
	isEntryOff := func(v ssa.Value) bool {
		bo, ok := v.(*ssa.BinOp)
		if !ok {
			return false
		}
		switch bo.Op {
		case token.MUL:
			return either(bo, func(a, b ssa.Value) bool {
				c, ok := b.(*ssa.Const)
				return ok && c.Int64() == 4 && isIdxMinusBase(a)
			})
		case token.SHL:
			c, ok := strip(bo.Y).(*ssa.Const)
			return ok && c.Int64() == 2 && isIdxMinusBase(strip(bo.X))
		}
		return false
	}
	mul4, subBase, addStart, get32 := false, false, false, false
	for fn := range p.reachableFuncs(rroot) {
		if pkgRelOf(p, fn) != "segment" {
			continue
		}
		for _, b := range fn.Blocks {
			for _, ins := range b.Instrs {
				c, ok := ins.(*ssa.Call)
				if !ok || eventName(c) != "types.ReadableFile.ReadAt" {
					continue
				}
				off, ok := strip(c.Call.Args[1]).(*ssa.BinOp)
				if !ok || off.Op != token.ADD {
					continue
				}
				if !either(off, func(a, b ssa.Value) bool { return fieldLoadName(a) == "IndexStart" && isEntryOff(b) }) {
					continue
				}
				addStart, mul4, subBase = true, true, true
				// the 4-byte buffer read is what gets decoded as LE32
				// (wherever that buffer lives: a local array, a make([]byte, 4), a scratch field - whether a shared
				// scratch is safe is ACC-09's question, not this rule's)
				bufBase := func(v ssa.Value) (ssa.Value, int64) {
					n := int64(-1)
					for i := 0; i < 4; i++ {
						sl, ok := v.(*ssa.Slice)
						if !ok {
							break
						}
						v = sl.X
					}
					t := v.Type()
					if pt, ok := t.Underlying().(*types.Pointer); ok {
						t = pt.Elem()
					}
					if at, ok := t.Underlying().(*types.Array); ok {
						n = at.Len()
					}
					if ms, ok := v.(*ssa.MakeSlice); ok {
						if cl, ok := ms.Len.(*ssa.Const); ok {
							n = cl.Int64()
						}
					}
					return v, n
				}
				rb, rn := bufBase(c.Call.Args[0])
				if rn == 4 || rn == -1 {
					for _, b2 := range fn.Blocks {
						for _, i2 := range b2.Instrs {
							if c2, ok := i2.(*ssa.Call); ok && eventName(c2) == "binary.littleEndian.Uint32" && len(c2.Call.Args) > 0 {
								if db, _ := bufBase(c2.Call.Args[len(c2.Call.Args)-1]); db == rb || sameExpr(db, rb, 0) {
									get32 = true
								}
							}
						}
					}
				}
			}
		}
	}
	r.Check(mul4 && subBase && addStart && get32, "reader:offset", rpos, "reader computes IndexStart + (idx - BaseIndex)*4 and decodes a little-endian uint32",
		fmt.Sprintf("index lookup arithmetic differs from the documented layout: stride*4=%v idx-BaseIndex=%v IndexStart+=%v LE32=%v", mul4, subBase, addStart, get32))
	// frame length = len(offsets)*4
	lenMul := false
	ast.Inspect(w.Body, func(n ast.Node) bool {
		if be, ok := n.(*ast.BinaryExpr); ok && be.Op == token.MUL {
			if c, ok := constInt(info, be.Y); ok && c == 4 {
				lenMul = true
			}
		}
		return true
	})
	r.Check(lenMul, "writer:length", wpos, "index frame length = number of entries * 4", "the index frame's length field is not entries*4")
	// IndexStart producers: every computed store to Writer.indexStart adds the frame header length
	a := resolveWriterAnchors(p)
	if len(a.missing) > 0 {
		r.Unknown("anchor:writer", "?", strings.Join(a.missing, ","))
		return
	}
	ord := ordinal{}
	for _, fn := range p.Funcs {
		for _, b := range fn.Blocks {
			for _, ins := range b.Instrs {
				st, ok := ins.(*ssa.Store)
				if !ok || fieldOfAddr(st.Addr) != a.indexStart {
					continue
				}
				if c, ok := st.Val.(*ssa.Const); ok && c.Int64() == 0 {
					continue // reset
				}
				if loadedField(st.Val) == a.indexStart {
					continue // copy of the field itself
				}
				key := ord.next(funcDisplay(fn) + ":store(indexStart)")
				r.Check(sealOffsetOK(p, a, st.Val, int64(fhl), 0, map[ssa.Value]bool{}), key, posOf(p, st), "seal offset = index frame offset + frameHeaderLen (points at the array, not the frame header)",
					"a producer of the seal offset does not add the frame header length: the persisted IndexStart would address the frame header instead of the offset array, and the two producers (seal, recovery) would disagree")
			}
		}
	}
}

// ---------------------------------------------------------------- TAB-04

func runTAB04(p *Prog, r *RuleRun) {
	type want struct {
		rel, name string
		val       any
	}
	for _, w := range []want{
		{"segment", "fileHeaderLen", uint64(32)}, {"segment", "frameHeaderLen", uint64(8)}, {"segment", "MaxEntrySize", uint64(64 * 1024 * 1024)},
		{"segment", "magic", uint64(0x58eb6b0d)}, {"segment", "version", uint64(0)},
		{"segment", "segmentFileNamePattern", "%020d-%016x.wal"}, {"segment", "segmentFileSuffix", ".wal"},
		{"metadb", "FileName", "wal-meta.db"}, {"metadb", "MetaBucket", "wal-meta"}, {"metadb", "StableBucket", "stable"}, {"metadb", "MetaKey", "m"},
		{"", "CodecBinaryV1", uint64(1)}, {"", "FirstExternalCodecID", uint64(65536)},
	} {
		v, ok := constValue(p, w.rel, w.name)
		key := "const:" + w.name
		if !ok {
			r.Unknown(key, "?", "constant "+w.name+" not found in package "+w.rel)
			continue
		}
		switch wv := w.val.(type) {
		case uint64:
			u, ok := constant.Uint64Val(constant.ToInt(v))
			r.Check(ok && u == wv, key, "?", fmt.Sprintf("%s = %d", w.name, wv), fmt.Sprintf("%s is %s, the documented/persisted value is %d: existing directories become unreadable", w.name, v, wv))
		case string:
			r.Check(v.Kind() == constant.String && constant.StringVal(v) == wv, key, "?", fmt.Sprintf("%s = %q", w.name, wv), fmt.Sprintf("%s is %s, the documented/persisted value is %q: existing directories become unreadable", w.name, v, wv))
		}
	}
	// JSON field names come from the struct types (no tags)
	for tn, fields := range map[string][]string{
		"PersistentState": {"NextSegmentID", "Segments"},
		"SegmentInfo":     {"ID", "BaseIndex", "MinIndex", "MaxIndex", "Codec", "IndexStart", "CreateTime", "SealTime", "SizeLimit"},
	} {
		n := p.NamedType("types", tn)
		if n == nil {
			r.Unknown("json:"+tn, "?", "types."+tn+" not found")
			continue
		}
		st := n.Underlying().(*types.Struct)
		var got []string
		tagged := ""
		for i := 0; i < st.NumFields(); i++ {
			got = append(got, st.Field(i).Name())
			if tag := reflect.StructTag(st.Tag(i)).Get("json"); tag != "" {
				tagged = st.Field(i).Name() + ":" + tag
			}
		}
		r.Check(reflect.DeepEqual(got, fields) && tagged == "", "json:"+tn, p.Position(n.Obj().Pos()), "persisted JSON field names of "+tn+" are "+strings.Join(fields, ","),
			fmt.Sprintf("the persisted JSON shape of %s changed: fields %v (json tag %q), metadata written by the pinned version expects %v", tn, got, tagged, fields))
	}
	// CRC polynomial: crc32.MakeTable(crc32.Castagnoli)
	found, cast := false, false
	for _, fn := range p.Funcs {
		if pkgRelOf(p, fn) != "segment" {
			continue
		}
		for _, b := range fn.Blocks {
			for _, ins := range b.Instrs {
				if c, ok := ins.(*ssa.Call); ok && eventName(c) == "crc32.MakeTable" {
					found = true
					if k, ok := c.Call.Args[0].(*ssa.Const); ok && k.Uint64() == 0x82f63b78 {
						cast = true
					}
				}
			}
		}
	}
	r.Check(found && cast, "crc:castagnoli", "?", "the CRC table is crc32.MakeTable(crc32.Castagnoli)", "the commit-frame CRC is not CRC-32C (Castagnoli): every existing commit frame fails validation")
}

// ---------------------------------------------------------------- TAB-05

func runTAB05(p *Prog, r *RuleRun) {
	pk := p.Pkg[""]
	enc, dec := findFuncDecl(pk, "BinaryCodec.Encode"), findFuncDecl(pk, "BinaryCodec.Decode")
	if enc == nil || dec == nil {
		r.Unknown("anchor", "?", "BinaryCodec.Encode/Decode not found")
		return
	}
	type step struct{ prim, field string }
	fieldOf := func(e ast.Expr) string {
		name := ""
		ast.Inspect(e, func(n ast.Node) bool {
			if se, ok := n.(*ast.SelectorExpr); ok {
				if _, ok := se.X.(*ast.Ident); ok && name == "" {
					if tv, ok := pk.TypesInfo.Types[se.X]; ok && isNamed(tv.Type, "github.com/hashicorp/raft", "Log") {
						name = se.Sel.Name
					}
				}
			}
			return true
		})
		return name
	}
	// names called by recvT.m; transitively through other methods of recvT (private helpers such as
	// encoder.write) when deep is set
	callsOf := func(recvT, m string, deep bool) map[string]bool {
		out := map[string]bool{}
		seen := map[string]bool{}
		var visit func(m string)
		visit = func(m string) {
			if seen[m] {
				return
			}
			seen[m] = true
			fd := findFuncDecl(pk, recvT+"."+m)
			if fd == nil || fd.Body == nil {
				return
			}
			ast.Inspect(fd.Body, func(n ast.Node) bool {
				if ce, ok := n.(*ast.CallExpr); ok {
					switch f := ce.Fun.(type) {
					case *ast.SelectorExpr:
						out[f.Sel.Name] = true
						if deep && findFuncDecl(pk, recvT+"."+f.Sel.Name) != nil {
							if tv, ok := pk.TypesInfo.Types[f.X]; ok && strings.HasSuffix(strings.TrimPrefix(tv.Type.String(), "*"), "."+recvT) {
								visit(f.Sel.Name)
							}
						}
					case *ast.Ident:
						out[f.Name] = true
					}
				}
				return true
			})
		}
		visit(m)
		return out
	}
	// the kind of a primitive is what it does, not what it is called: a timestamp primitive (un)marshals a
	// time.Time, a varint primitive calls (Put)Uvarint itself, everything else that moves bytes is "bytes"
	kindOf := func(recvT, m string) string {
		deep, direct := callsOf(recvT, m, true), callsOf(recvT, m, false)
		switch {
		case deep["MarshalBinary"] || deep["UnmarshalBinary"]:
			return "time"
		case direct["PutUvarint"] || direct["Uvarint"]:
			return "varint"
		case deep["Write"] || deep["copy"] || deep["append"] || deep["Clone"]:
			return "bytes"
		}
		return "?" + m
	}
	recvName := func(e ast.Expr) string {
		tv, ok := pk.TypesInfo.Types[e]
		if !ok {
			return ""
		}
		t := tv.Type
		if pt, ok := t.(*types.Pointer); ok {
			t = pt.Elem()
		}
		if n, ok := t.(*types.Named); ok {
			return n.Obj().Name()
		}
		return ""
	}
	var es, ds []step
	encT, decT := "", ""
	prims := map[string]map[string]string{"enc": {}, "dec": {}} // kind -> method name
	for _, st := range enc.Body.List {
		if xs, ok := st.(*ast.ExprStmt); ok {
			if ce, ok := xs.X.(*ast.CallExpr); ok {
				if se, ok := ce.Fun.(*ast.SelectorExpr); ok && len(ce.Args) == 1 {
					if f := fieldOf(ce.Args[0]); f != "" {
						encT = recvName(se.X)
						k := kindOf(encT, se.Sel.Name)
						prims["enc"][k] = se.Sel.Name
						es = append(es, step{k, f})
					}
				}
			}
		}
	}
	for _, st := range dec.Body.List {
		as, ok := st.(*ast.AssignStmt)
		if !ok || len(as.Lhs) != 1 || len(as.Rhs) != 1 {
			continue
		}
		f := fieldOf(as.Lhs[0])
		if f == "" {
			continue
		}
		prim := ""
		ast.Inspect(as.Rhs[0], func(n ast.Node) bool {
			if ce, ok := n.(*ast.CallExpr); ok {
				if se, ok := ce.Fun.(*ast.SelectorExpr); ok && len(ce.Args) == 0 {
					decT = recvName(se.X)
					prim = se.Sel.Name
				}
			}
			return true
		})
		k := kindOf(decT, prim)
		prims["dec"][k] = prim
		ds = append(ds, step{k, f})
	}
	epos, dpos := p.Position(enc.Pos()), p.Position(dec.Pos())
	r.Check(len(es) > 0 && reflect.DeepEqual(es, ds), "sequence", epos, fmt.Sprintf("Encode and Decode use the same (primitive, field) sequence: %v", es),
		fmt.Sprintf("Encode writes %v but Decode reads %v: the fields no longer round-trip", es, ds))
	// all fields of raft.Log covered
	var logT *types.Struct
	for _, sp := range p.SSA.AllPackages() {
		if sp.Pkg.Path() == "github.com/hashicorp/raft" {
			if o := sp.Pkg.Scope().Lookup("Log"); o != nil {
				logT, _ = o.Type().Underlying().(*types.Struct)
			}
		}
	}
	if logT == nil {
		r.Unknown("fields", "?", "raft.Log not found")
	} else {
		cov := map[string]bool{}
		for _, s := range es {
			cov[s.field] = true
		}
		for i := 0; i < logT.NumFields(); i++ {
			f := logT.Field(i).Name()
			r.Check(cov[f], "field:"+f, epos, "raft.Log."+f+" is encoded", "raft.Log."+f+" is not handled by the codec: it is silently dropped on every store/read round trip")
		}
	}
	// paired primitives
	// time.MarshalBinary is variable length (15 bytes, 16 for zone offsets with seconds) and the field is the
	// last one: the decoder must hand UnmarshalBinary everything that is left, not a fixed-length prefix
	if fd := findFuncDecl(pk, decT+"."+prims["dec"]["time"]); fd != nil {
		whole, found := false, false
		ast.Inspect(fd.Body, func(n ast.Node) bool {
			ce, ok := n.(*ast.CallExpr)
			if !ok {
				return true
			}
			se, ok := ce.Fun.(*ast.SelectorExpr)
			if !ok || se.Sel.Name != "UnmarshalBinary" || len(ce.Args) != 1 {
				return true
			}
			found = true
			switch a := ast.Unparen(ce.Args[0]).(type) {
			case *ast.SelectorExpr, *ast.Ident:
				whole = true
			case *ast.SliceExpr:
				whole = a.High == nil && a.Max == nil
			}
			return true
		})
		r.Check(found && whole, "pair:time:whole-rest", p.Position(fd.Pos()), "the timestamp decoder passes all remaining bytes to UnmarshalBinary (the encoding is 15 or 16 bytes long)",
			"the timestamp decoder hands UnmarshalBinary a fixed-length prefix: time.MarshalBinary emits 16 bytes for zone offsets that are not whole minutes, so such AppendedAt values are stored and acknowledged but can never be decoded again")
	} else {
		r.Unknown("pair:time:whole-rest", dpos, "the decoder's timestamp primitive was not found")
	}
	// what each side of a primitive must call; "@varint" = the side's own varint primitive (the length prefix)
	pairs := []struct{ kind, e, d string }{{"varint", "PutUvarint", "Uvarint"}, {"bytes", "@varint", "@varint"}, {"bytes", "Write", "copy"}, {"time", "MarshalBinary", "UnmarshalBinary"}}
	for _, pr := range pairs {
		em, dm := prims["enc"][pr.kind], prims["dec"][pr.kind]
		e, d := pr.e, pr.d
		label := pr.e
		if e == "@varint" {
			e, d, label = prims["enc"]["varint"], prims["dec"]["varint"], "varint"
		}
		dcalls := callsOf(decT, dm, true)
		if d == "copy" && (dcalls["append"] || dcalls["Clone"]) {
			// append([]byte(nil), x...) / bytes.Clone are the other spellings of "copy the bytes out"
			// (whether the result really is a fresh slice is VF-03's question, not this rule's)
			dcalls["copy"] = true
		}
		ok := em != "" && dm != "" && e != "" && d != "" && callsOf(encT, em, true)[e] && dcalls[d]
		r.Check(ok, "pair:"+pr.kind+":"+label, dpos, fmt.Sprintf("%s.%s uses %s, %s.%s uses %s", encT, em, e, decT, dm, d),
			fmt.Sprintf("primitive pairing broken for the %s primitive: the encoder side (%s.%s) must use %s and the decoder side (%s.%s) %s", pr.kind, encT, em, pr.e, decT, dm, pr.d))
	}
}

// ---------------------------------------------------------------- TAB-06

func runTAB06(p *Prog, r *RuleRun) {
	pk := p.Pkg["verifier"]
	info := pk.TypesInfo
	enc, dec := findFuncDecl(pk, "encodeCheckpointMeta"), findFuncDecl(pk, "decodeCheckpointMeta")
	if enc == nil || dec == nil {
		encs := funcsBySig(p, pk, func(s *types.Signature) bool {
			return s.Recv() == nil && s.Params().Len() == 2 && s.Results().Len() == 1 && s.Results().At(0).Type().String() == "[]byte"
		})
		decs := funcsBySig(p, pk, func(s *types.Signature) bool {
			return s.Recv() == nil && s.Params().Len() == 1 && s.Params().At(0).Type().String() == "[]byte" && s.Results().Len() == 3
		})
		if len(encs) == 1 && len(decs) == 1 {
			enc, dec = encs[0], decs[0]
		}
	}
	if enc == nil || dec == nil {
		r.Unknown("anchor", "?", "checkpoint metadata encode/decode functions not found")
		return
	}
	magic, ok := constU64(p, "verifier", "ExtensionMagicPrefix")
	r.Check(ok && magic == 0xafd1f9d60392a503, "const:ExtensionMagicPrefix", "?", "published magic prefix unchanged", fmt.Sprintf("ExtensionMagicPrefix is %#x, the published value is 0xafd1f9d60392a503: checkpoints from other versions are refused", magic))
	eops, dops := extractLayout(info, enc.Body), extractLayout(info, dec.Body)
	type slot struct{ lo, hi int }
	em := map[slot]string{}
	for _, o := range eops {
		if o.Kind == "put" && o.Order == "LittleEndian" && o.Width == 64 {
			em[slot{o.Lo, o.Hi}] = o.Value
		}
	}
	epos := p.Position(enc.Pos())
	pnames := []string{}
	for _, f := range enc.Type.Params.List {
		for _, n := range f.Names {
			pnames = append(pnames, n.Name)
		}
	}
	okLayout := len(pnames) == 2 && em[slot{0, 8}] == fmt.Sprintf("const:%d", magic) && em[slot{8, 16}] == "ident:"+pnames[0] && em[slot{16, 24}] == "ident:"+pnames[1] && len(em) == 3
	r.Check(okLayout, "encode:layout", epos, "magic at 0, start index at 8, checksum at 16 (little-endian uint64 each)", fmt.Sprintf("checkpoint metadata layout written is %v", em))
	// decode: results in order (startIdx, sum, err): gets at [8:16] and [16:24] assigned to the 1st and 2nd result; magic test on [0:8]
	var rnames []string
	if dec.Type.Results != nil {
		for _, f := range dec.Type.Results.List {
			for _, n := range f.Names {
				rnames = append(rnames, n.Name)
			}
		}
	}
	if len(rnames) < 2 {
		// unnamed results: the variables the success return hands back, in order
		ast.Inspect(dec.Body, func(n ast.Node) bool {
			rs, ok := n.(*ast.ReturnStmt)
			if !ok || len(rs.Results) < 2 {
				return true
			}
			a, okA := ast.Unparen(rs.Results[0]).(*ast.Ident)
			b, okB := ast.Unparen(rs.Results[1]).(*ast.Ident)
			if okA && okB && info.Types[rs.Results[0]].Value == nil && info.Types[rs.Results[1]].Value == nil {
				rnames = []string{a.Name, b.Name}
			}
			return true
		})
	}
	dm := map[slot]string{}
	magicTest := false
	for _, o := range dops {
		if o.Kind == "get" && o.Order == "LittleEndian" && o.Width == 64 {
			dm[slot{o.Lo, o.Hi}] = o.Value
		}
		if o.Kind == "identtest" && o.Lo == 0 && o.Hi == 8 && o.Op == token.NEQ && o.Value == fmt.Sprintf("const:%d", magic) {
			magicTest = true
		}
	}
	dpos := p.Position(dec.Pos())
	okDec := len(rnames) >= 2 && dm[slot{8, 16}] == "ident:"+rnames[0] && dm[slot{16, 24}] == "ident:"+rnames[1]
	r.Check(okDec, "decode:layout", dpos, "decode reads start index from 8 and checksum from 16", fmt.Sprintf("decode reads %v into results %v: start index and checksum are swapped or misplaced relative to encode", dm, rnames))
	r.Check(magicTest, "decode:magic", dpos, "decode rejects metadata whose first 8 bytes differ from the magic", "decode does not verify the magic prefix: foreign Extensions are taken for a checkpoint")
}

// ---------------------------------------------------------------- TAB-08

func runTAB08(p *Prog, r *RuleRun) {
	pk := p.Pkg[""]
	info := pk.TypesInfo
	set, get := findFuncDecl(pk, "WAL.SetUint64"), findFuncDecl(pk, "WAL.GetUint64")
	if set == nil || get == nil {
		r.Unknown("anchor", "?", "(*WAL).SetUint64/GetUint64 not found")
		return
	}
	var put, gt *layoutOp
	for _, o := range extractLayout(info, set.Body) {
		if o.Kind == "put" {
			o := o
			put = &o
		}
	}
	// Uint64(raw) appears in a return statement, not an assignment
	ast.Inspect(get.Body, func(n ast.Node) bool {
		if ce, ok := n.(*ast.CallExpr); ok {
			if order, m, ok := byteOrderCall(info, ce); ok && strings.HasPrefix(m, "Uint") {
				w := 64
				if m != "Uint64" {
					w = 0
				}
				gt = &layoutOp{Kind: "get", Order: order, Width: w, Pos: ce.Pos()}
			}
		}
		return true
	})
	spos, gpos := p.Position(set.Pos()), p.Position(get.Pos())
	// the encoding may live in a small helper of SetUint64: look at the SSA of what it reaches in this package
	arr8ssa := false
	if put == nil {
		if sfn := p.Func("", "WAL.SetUint64"); sfn != nil {
			for fn := range p.reachableFuncs(sfn) {
				if pkgRelOf(p, fn) != "" {
					continue
				}
				for _, b := range fn.Blocks {
					for _, ins := range b.Instrs {
						c, ok := ins.(*ssa.Call)
						if !ok {
							continue
						}
						n := eventName(c)
						if !strings.HasPrefix(n, "binary.") || !strings.Contains(n, ".PutUint") {
							continue
						}
						o := layoutOp{Kind: "put", Order: "BigEndian", Pos: c.Pos()}
						if strings.Contains(n, "littleEndian") {
							o.Order = "LittleEndian"
						}
						if strings.HasSuffix(n, "PutUint64") {
							o.Width = 64
						}
						put = &o
						if sl, ok := c.Call.Args[len(c.Call.Args)-2].(*ssa.Slice); ok {
							t := sl.X.Type()
							if pt, ok := t.Underlying().(*types.Pointer); ok {
								t = pt.Elem()
							}
							if at, ok := t.Underlying().(*types.Array); ok && at.Len() == 8 {
								arr8ssa = true
							}
						}
					}
				}
			}
		}
	}
	r.Check(put != nil && put.Width == 64 && put.Order == "LittleEndian", "set:encoding", spos, "SetUint64 stores 8 little-endian bytes", fmt.Sprintf("SetUint64 encodes with %v; values written by the pinned version are 8-byte little-endian", put))
	r.Check(gt != nil && gt.Width == 64 && gt.Order == "LittleEndian", "get:encoding", gpos, "GetUint64 decodes 8 little-endian bytes", fmt.Sprintf("GetUint64 decodes with %v: it no longer reads back what SetUint64 wrote", gt))
	// buffer is [8]byte
	arr8 := false
	ast.Inspect(set.Body, func(n ast.Node) bool {
		if vs, ok := n.(*ast.ValueSpec); ok {
			if at, ok := vs.Type.(*ast.ArrayType); ok {
				if c, ok := constInt(info, at.Len); ok && c == 8 {
					arr8 = true
				}
			}
		}
		return true
	})
	// or the value is built by one AppendUint64 onto an empty slice: exactly 8 bytes as well
	nPut := 0
	for _, o := range extractLayout(info, set.Body) {
		if o.Kind == "put" {
			nPut++
		}
	}
	append8 := put != nil && nPut == 1 && put.Lo == 0 && put.Hi == 8 && put.Width == 64 && put.Buf != "" && !arr8
	r.Check(arr8 || arr8ssa || append8, "set:width", spos, "the encoded value is exactly 8 bytes", "SetUint64's buffer is not [8]byte")
	// length checks: GetUint64's CFG is evaluated for each length of the stored value
	zero, eight := false, false
	if gfn := p.Func("", "WAL.GetUint64"); gfn != nil {
		gspec := &fdSpec{
			Symbol: func(v ssa.Value) string {
				if c, ok := v.(*ssa.Call); ok && isBuiltinCall(c, "len") && len(c.Call.Args) == 1 {
					if ex, ok := c.Call.Args[0].(*ssa.Extract); ok && ex.Index == 0 {
						return "L"
					}
				}
				return ""
			},
			Return: func(ret *ssa.Return, res []ssa.Value, eval func(ssa.Value) fdVal) string {
				if len(res) != 2 {
					return "?"
				}
				if ex, ok := res[1].(*ssa.Extract); ok && ex.Index == 1 {
					return "GETERR" // the stable store's own error, passed on
				}
				val := "other"
				switch x := res[0].(type) {
				case *ssa.Const:
					if x.Value != nil && x.Uint64() == 0 {
						val = "0"
					}
				case *ssa.Call:
					if strings.HasSuffix(eventName(x), "ittleEndian.Uint64") {
						val = "LE64"
					}
				}
				if c, ok := res[1].(*ssa.Const); ok && c.IsNil() {
					return val + ",nil"
				}
				return val + ",err"
			}}
		outcomes := func(L int64) map[string]bool {
			out := map[string]bool{}
			for _, t := range fdRun(gfn, gspec, map[string]int64{"L": L}) {
				parts := strings.Split(t, " > ")
				if last := parts[len(parts)-1]; last != "GETERR" {
					out[last] = true
				}
			}
			return out
		}
		only := func(m map[string]bool, want string) bool { return len(m) == 1 && m[want] }
		zero = only(outcomes(0), "0,nil")
		eight = only(outcomes(8), "LE64,nil")
		for _, L := range []int64{1, 4, 7, 9, 16} {
			for o := range outcomes(L) {
				if !strings.HasSuffix(o, ",err") {
					eight = false
				}
			}
			if len(outcomes(L)) == 0 {
				eight = false
			}
		}
	}
	r.Check(zero, "get:unset", gpos, "an unset key (empty value) reads as 0 with nil error", "GetUint64 does not return (0, nil) for an unset key")
	r.Check(eight, "get:length", gpos, "values of any other length than 8 are an error", "GetUint64 does not reject values whose length is not 8")
}

// ---------------------------------------------------------------- TAB-09

func moduleDir(p *Prog, mod string) (string, error) {
	cmd := exec.Command("go", "list", "-m", "-f", "{{.Dir}}", mod)
	cmd.Dir = p.RepoDir
	cmd.Env = append(os.Environ(), "GOFLAGS=-mod=mod", "GOPROXY=off", "GOSUMDB=off", "GOWORK=off", "GOTOOLCHAIN=local")
	out, err := cmd.Output()
	if err != nil {
		return "", err
	}
	return strings.TrimSpace(string(out)), nil
}

func runTAB09(p *Prog, r *RuleRun) {
	dir, err := moduleDir(p, "github.com/hashicorp/raft")
	if err != nil || dir == "" {
		r.Unknown("anchor:raft-source", "?", fmt.Sprintf("cannot locate hashicorp/raft in the module cache: %v", err))
		return
	}
	fset := token.NewFileSet()
	pkgs, err := parser.ParseDir(fset, dir, func(fi os.FileInfo) bool { return !strings.HasSuffix(fi.Name(), "_test.go") }, 0)
	if err != nil || pkgs["raft"] == nil {
		r.Unknown("anchor:raft-parse", "?", fmt.Sprintf("cannot parse %s: %v", dir, err))
		return
	}
	keyVars := map[string]string{} // var name -> key string
	for _, f := range pkgs["raft"].Files {
		for _, d := range f.Decls {
			gd, ok := d.(*ast.GenDecl)
			if !ok || gd.Tok != token.VAR {
				continue
			}
			for _, s := range gd.Specs {
				vs := s.(*ast.ValueSpec)
				for i, n := range vs.Names {
					if i >= len(vs.Values) {
						continue
					}
					if ce, ok := vs.Values[i].(*ast.CallExpr); ok && len(ce.Args) == 1 {
						if at, ok := ce.Fun.(*ast.ArrayType); ok && at.Len == nil {
							if bl, ok := ce.Args[0].(*ast.BasicLit); ok && bl.Kind == token.STRING {
								keyVars[n.Name] = strings.Trim(bl.Value, "\"")
							}
						}
					}
				}
			}
		}
	}
	raftKeys := map[string]string{} // key -> kind ("int"/"bytes")
	for _, f := range pkgs["raft"].Files {
		ast.Inspect(f, func(n ast.Node) bool {
			ce, ok := n.(*ast.CallExpr)
			if !ok || len(ce.Args) < 1 {
				return true
			}
			se, ok := ce.Fun.(*ast.SelectorExpr)
			if !ok {
				return true
			}
			inner, ok := se.X.(*ast.SelectorExpr)
			if !ok || inner.Sel.Name != "stable" {
				return true
			}
			id, ok := ce.Args[0].(*ast.Ident)
			if !ok || keyVars[id.Name] == "" {
				return true
			}
			switch se.Sel.Name {
			case "SetUint64", "GetUint64":
				raftKeys[keyVars[id.Name]] = "int"
			case "Set", "Get":
				raftKeys[keyVars[id.Name]] = "bytes"
			}
			return true
		})
	}
	if len(raftKeys) < 3 {
		r.Unknown("anchor:raft-keys", "?", fmt.Sprintf("only %d stable-store keys found in the raft source at %s", len(raftKeys), dir))
		return
	}
	// CopyStable's lists
	pk := p.Pkg["migrate"]
	cs := findFuncDecl(pk, "CopyStable")
	if cs == nil {
		r.Unknown("anchor:CopyStable", "?", "migrate.CopyStable not found")
		return
	}
	lists := map[string][]string{}
	ast.Inspect(cs.Body, func(n ast.Node) bool {
		as, ok := n.(*ast.AssignStmt)
		if !ok || len(as.Lhs) != 1 || len(as.Rhs) != 1 {
			return true
		}
		id, ok := as.Lhs[0].(*ast.Ident)
		cl, ok2 := as.Rhs[0].(*ast.CompositeLit)
		if !ok || !ok2 {
			return true
		}
		for _, el := range cl.Elts {
			if ce, ok := el.(*ast.CallExpr); ok && len(ce.Args) == 1 {
				if s, ok := constString(pk.TypesInfo, ce.Args[0]); ok {
					lists[id.Name] = append(lists[id.Name], s)
				}
			}
		}
		return true
	})
	// which list is copied with which accessor: find `for _, k := range append(<list>, ...)` loops and the accessor used inside
	kind := map[string]string{}
	ast.Inspect(cs.Body, func(n ast.Node) bool {
		rs, ok := n.(*ast.RangeStmt)
		if !ok {
			return true
		}
		listName := ""
		ast.Inspect(rs.X, func(m ast.Node) bool {
			if id, ok := m.(*ast.Ident); ok && lists[id.Name] != nil {
				listName = id.Name
			}
			return true
		})
		if listName == "" {
			return true
		}
		ast.Inspect(rs.Body, func(m ast.Node) bool {
			if ce, ok := m.(*ast.CallExpr); ok {
				if se, ok := ce.Fun.(*ast.SelectorExpr); ok {
					switch se.Sel.Name {
					case "SetUint64":
						kind[listName] = "int"
					case "Set":
						if kind[listName] == "" {
							kind[listName] = "bytes"
						}
					}
				}
			}
			return true
		})
		return true
	})
	have := map[string]string{}
	for ln, keys := range lists {
		for _, k := range keys {
			have[k] = kind[ln]
		}
	}
	pos := p.Position(cs.Pos())
	for _, k := range sortedKeys(raftKeys) {
		r.Check(have[k] == raftKeys[k], "key:"+k, pos, fmt.Sprintf("raft's stable key %q is copied with the %s accessor raft itself uses", k, raftKeys[k]),
			fmt.Sprintf("hashicorp/raft persists key %q through the %s accessors, but CopyStable copies it as %q (\"\" = not at all): the migrated node loses its term/vote", k, raftKeys[k], have[k]))
	}
	_ = filepath.Join
}
