package main

import (
	"fmt"
	"go/ast"
	"go/token"
	"go/types"
)

func init() {
	register(&Rule{ID: "TAB-07", Title: "every emitted metric name is a constant declared in the package's MetricDefinitions under the matching kind; names unique",
		Props: []string{"C20"}, Floor: 12, Run: runTAB07})
}

// metricDefs extracts {kind -> names} from `MetricDefinitions = metrics.Definitions{...}` of a package.
func metricDefs(p *Prog, rel string) (map[string][]string, token.Pos, error) {
	pk := p.Pkg[rel]
	obj := pk.Types.Scope().Lookup("MetricDefinitions")
	if obj == nil {
		return nil, token.NoPos, fmt.Errorf("package %q has no MetricDefinitions", rel)
	}
	var lit *ast.CompositeLit
	for _, f := range pk.Syntax {
		for _, d := range f.Decls {
			gd, ok := d.(*ast.GenDecl)
			if !ok {
				continue
			}
			for _, s := range gd.Specs {
				vs, ok := s.(*ast.ValueSpec)
				if !ok {
					continue
				}
				for i, n := range vs.Names {
					if pk.TypesInfo.Defs[n] == obj && i < len(vs.Values) {
						lit, _ = vs.Values[i].(*ast.CompositeLit)
					}
				}
			}
		}
	}
	if lit == nil {
		return nil, obj.Pos(), fmt.Errorf("MetricDefinitions of %q is not initialised by a composite literal", rel)
	}
	out := map[string][]string{}
	for _, el := range lit.Elts {
		kv, ok := el.(*ast.KeyValueExpr)
		if !ok {
			return nil, obj.Pos(), fmt.Errorf("unkeyed element in MetricDefinitions of %q", rel)
		}
		kind := kv.Key.(*ast.Ident).Name
		list, ok := kv.Value.(*ast.CompositeLit)
		if !ok {
			return nil, obj.Pos(), fmt.Errorf("%s of %q is not a literal list", kind, rel)
		}
		for _, d := range list.Elts {
			dl, ok := d.(*ast.CompositeLit)
			if !ok {
				return nil, obj.Pos(), fmt.Errorf("descriptor in %s of %q is not a literal", kind, rel)
			}
			found := false
			for i, fe := range dl.Elts {
				var val ast.Expr
				if fkv, ok := fe.(*ast.KeyValueExpr); ok {
					if id, ok := fkv.Key.(*ast.Ident); !ok || id.Name != "Name" {
						continue
					}
					val = fkv.Value
				} else if i == 0 {
					val = fe
				} else {
					continue
				}
				s, ok := constString(pk.TypesInfo, val)
				if !ok {
					return nil, obj.Pos(), fmt.Errorf("non-constant metric name in %s of %q", kind, rel)
				}
				out[kind] = append(out[kind], s)
				found = true
			}
			if !found {
				return nil, obj.Pos(), fmt.Errorf("descriptor without Name in %s of %q", kind, rel)
			}
		}
	}
	return out, obj.Pos(), nil
}

func runTAB07(p *Prog, r *RuleRun) {
	inc := p.IfaceMethod("metrics", "Collector", "IncrementCounter")
	set := p.IfaceMethod("metrics", "Collector", "SetGauge")
	if inc == nil || set == nil {
		r.Unknown("anchor", "?", "metrics.Collector.IncrementCounter/SetGauge not found")
		return
	}
	collector := p.NamedType("metrics", "Collector")
	for _, rel := range []string{"", "verifier"} {
		defs, dpos, err := metricDefs(p, rel)
		name := rel
		if name == "" {
			name = "wal"
		}
		if err != nil {
			r.Unknown("defs:"+name, p.Position(dpos), err.Error())
			continue
		}
		// uniqueness across kinds (the atomic collector panics on duplicates)
		seen := map[string]string{}
		dup := ""
		for _, kind := range sortedKeys(defs) {
			for _, n := range defs[kind] {
				if k2, ok := seen[n]; ok {
					dup = fmt.Sprintf("%q declared under %s and %s", n, k2, kind)
				}
				seen[n] = kind
			}
		}
		r.Check(dup == "", "unique:"+name, p.Position(dpos),
			fmt.Sprintf("%d counters, %d gauges, all names distinct", len(defs["Counters"]), len(defs["Gauges"])),
			"duplicate metric name: "+dup+" (metrics.NewAtomicCollector panics)")
		ord := ordinal{}
		checkName := func(c astCall, fn *types.Func, kind, n, pos string) {
			key := ord.next(fmt.Sprintf("%s:%s(%q)", c.Encl, fn.Name(), n))
			declared := false
			for _, d := range defs[kind] {
				if d == n {
					declared = true
				}
			}
			other := ""
			for k, ns := range defs {
				if k == kind {
					continue
				}
				for _, d := range ns {
					if d == n {
						other = k
					}
				}
			}
			switch {
			case declared:
				r.OK(key, pos, fmt.Sprintf("%q declared in %s.MetricDefinitions.%s", n, name, kind))
			case other != "":
				r.Fail(key, pos, fmt.Sprintf("%q is emitted as %s but declared under %s", n, kind, other))
			default:
				r.Fail(key, pos, fmt.Sprintf("%q is not declared in %s.MetricDefinitions.%s (AtomicCollector panics with \"invalid metric name\")", n, name, kind))
			}
		}
		p.eachCall([]string{rel}, func(c astCall) {
			fn, ok := c.Callee.(*types.Func)
			if !ok {
				return
			}
			kind := ""
			switch {
			case sameFunc(fn, inc):
				kind = "Counters"
			case sameFunc(fn, set):
				kind = "Gauges"
			default:
				// a concrete implementation of Collector called directly counts too
				if (fn.Name() == "IncrementCounter" || fn.Name() == "SetGauge") && fn.Type().(*types.Signature).Recv() != nil &&
					collector != nil && types.Implements(fn.Type().(*types.Signature).Recv().Type(), collector.Underlying().(*types.Interface)) {
					kind = map[string]string{"IncrementCounter": "Counters", "SetGauge": "Gauges"}[fn.Name()]
				}
			}
			if kind == "" || len(c.Call.Args) < 1 {
				return
			}
			pos := p.Position(c.Call.Pos())
			n, isConst := constString(c.Pkg.TypesInfo, c.Call.Args[0])
			if !isConst {
				// a name taken from a literal table that is ranged over: every entry is checked
				if names, ok := tableStrings(c.Pkg.TypesInfo, c.File, c.Call.Args[0]); ok && len(names) > 0 {
					for _, tn := range names {
						checkName(c, fn, kind, tn, pos)
					}
					return
				}
				// a name that is a parameter of a local closure: every call of the closure passes a constant
				if names, ok := closureParamStrings(c.Pkg.TypesInfo, c.File, c.Call.Args[0]); ok && len(names) > 0 {
					for _, tn := range names {
						checkName(c, fn, kind, tn, pos)
					}
					return
				}
				r.Unknown(ord.next(c.Encl+":"+fn.Name()+"(<dynamic>)"), pos, "metric name is not a compile-time constant; cannot be checked against MetricDefinitions")
				return
			}
			checkName(c, fn, kind, n, pos)
		})
	}
}

// tableStrings: the constant strings an expression can denote when it is the range variable of a loop over a
// composite literal (`for _, c := range []struct{name string; ...}{{"a", 1}, {"b", 2}} { f(c.name) }`, or a
// plain []string literal).
// closureParamStrings: e is a parameter of a function literal that is assigned to a local variable; returns the
// constant strings passed for that parameter at every call of the variable (false if any call passes a
// non-constant, or the literal escapes any other way we can see).
func closureParamStrings(info *types.Info, file *ast.File, e ast.Expr) ([]string, bool) {
	id, ok := ast.Unparen(e).(*ast.Ident)
	if !ok {
		return nil, false
	}
	obj := info.Uses[id]
	if obj == nil {
		return nil, false
	}
	var lit *ast.FuncLit
	idx := -1
	ast.Inspect(file, func(n ast.Node) bool {
		fl, ok := n.(*ast.FuncLit)
		if !ok || fl.Type.Params == nil {
			return true
		}
		i := 0
		for _, f := range fl.Type.Params.List {
			for _, nm := range f.Names {
				if info.Defs[nm] == obj {
					lit, idx = fl, i
				}
				i++
			}
		}
		return true
	})
	if lit == nil {
		return nil, false
	}
	// the variable the literal is assigned to
	var v types.Object
	ast.Inspect(file, func(n ast.Node) bool {
		as, ok := n.(*ast.AssignStmt)
		if !ok {
			return true
		}
		for i, rhs := range as.Rhs {
			if rhs == ast.Expr(lit) && i < len(as.Lhs) {
				if lid, ok := as.Lhs[i].(*ast.Ident); ok {
					v = info.ObjectOf(lid)
				}
			}
		}
		return true
	})
	if v == nil {
		return nil, false
	}
	var out []string
	all := true
	ast.Inspect(file, func(n ast.Node) bool {
		ce, ok := n.(*ast.CallExpr)
		if !ok {
			return true
		}
		fid, ok := ce.Fun.(*ast.Ident)
		if !ok || info.Uses[fid] != v || idx >= len(ce.Args) {
			return true
		}
		if s, ok := constString(info, ce.Args[idx]); ok {
			out = append(out, s)
		} else {
			all = false
		}
		return true
	})
	return out, all && len(out) > 0
}

func tableStrings(info *types.Info, file *ast.File, e ast.Expr) ([]string, bool) {
	var id *ast.Ident
	fieldName := ""
	switch x := ast.Unparen(e).(type) {
	case *ast.Ident:
		id = x
	case *ast.SelectorExpr:
		if b, ok := x.X.(*ast.Ident); ok {
			id, fieldName = b, x.Sel.Name
		}
	}
	if id == nil {
		return nil, false
	}
	obj := info.Uses[id]
	if obj == nil {
		return nil, false
	}
	var out []string
	found, allConst := false, true
	ast.Inspect(file, func(n ast.Node) bool {
		rs, ok := n.(*ast.RangeStmt)
		if !ok || rs.Value == nil {
			return true
		}
		vid, ok := rs.Value.(*ast.Ident)
		if !ok || info.Defs[vid] != obj {
			return true
		}
		lit, ok := ast.Unparen(rs.X).(*ast.CompositeLit)
		if !ok {
			return true
		}
		found = true
		for _, el := range lit.Elts {
			if kv, ok := el.(*ast.KeyValueExpr); ok {
				el = kv.Value
			}
			if fieldName == "" {
				if s, ok := constString(info, el); ok {
					out = append(out, s)
				} else {
					allConst = false
				}
				continue
			}
			cl, ok := el.(*ast.CompositeLit)
			if !ok {
				allConst = false
				continue
			}
			idx := -1
			if tv, ok := info.Types[cl]; ok {
				if st, ok := tv.Type.Underlying().(*types.Struct); ok {
					for i := 0; i < st.NumFields(); i++ {
						if st.Field(i).Name() == fieldName {
							idx = i
						}
					}
				}
			}
			got := false
			for i, fe := range cl.Elts {
				if kv, ok := fe.(*ast.KeyValueExpr); ok {
					if k, ok := kv.Key.(*ast.Ident); ok && k.Name == fieldName {
						if s, ok := constString(info, kv.Value); ok {
							out = append(out, s)
							got = true
						}
					}
				} else if i == idx {
					if s, ok := constString(info, fe); ok {
						out = append(out, s)
						got = true
					}
				}
			}
			if !got {
				allConst = false
			}
		}
		return true
	})
	return out, found && allConst
}
