package main

import (
	"fmt"
	"go/token"
	"strings"

	"golang.org/x/tools/go/ssa"
)

func init() {
	register(&Rule{ID: "TAB-10", Title: "commit CRC region: every extension of the pending buffer is folded into the rolling CRC over exactly those bytes; the commit frame carries the CRC as it stood; the CRC restarts only after fsync",
		Props: []string{"C09", "C02"}, Floor: 3, Run: runTAB10})
}

func runTAB10(p *Prog, r *RuleRun) {
	a := resolveWriterAnchors(p)
	if len(a.missing) > 0 || len(a.mutators) == 0 {
		r.Unknown("anchor", "?", "unresolved anchors: "+strings.Join(a.missing, ", "))
		return
	}
	// (a) per function: an extension commitBuf = commitBuf[:H] comes with crc = crc32.Update(crc, tbl, commitBuf[L:H]), L = len(commitBuf) before
	nExt := 0
	for fn := range p.reachableFuncs(a.mutators...) {
		for _, b := range fn.Blocks {
			for _, ins := range b.Instrs {
				st, ok := ins.(*ssa.Store)
				if !ok || fieldOfAddr(st.Addr) != a.commitBuf {
					continue
				}
				sl, ok := st.Val.(*ssa.Slice)
				if !ok || sl.High == nil || loadedField(sl.X) != a.commitBuf {
					continue // not an in-place extension (reset, reallocation, restore)
				}
				if c, ok := sl.High.(*ssa.Const); ok && c.Int64() == 0 {
					continue // reset after flush
				}
				if _, isConst := sl.High.(*ssa.Const); isConst {
					continue // fixed-size (re)initialisation, covered by crc32.Checksum over the same prefix below
				}
				nExt++
				key := fmt.Sprintf("%s:extend#%d", funcDisplay(fn), nExt)
				// a crc32.Update in this function over [L:H] with the same H and L = the buffer's previous length
				found, why := false, "no crc32.Update over the appended bytes in this function"
				for _, b2 := range fn.Blocks {
					for _, i2 := range b2.Instrs {
						c, ok := i2.(*ssa.Call)
						if !ok || eventName(c) != "crc32.Update" || len(c.Call.Args) != 3 {
							continue
						}
						if loadedField(c.Call.Args[0]) != a.crc {
							why = "crc32.Update does not continue the rolling CRC field"
							continue
						}
						cs, ok := c.Call.Args[2].(*ssa.Slice)
						if !ok || loadedField(cs.X) != a.commitBuf || cs.Low == nil || cs.High == nil {
							why = "crc32.Update is not over a [lo:hi] window of the pending buffer"
							continue
						}
						lowIsOldLen := false
						if lc, ok := cs.Low.(*ssa.Call); ok && isBuiltinCall(lc, "len") && loadedField(lc.Call.Args[0]) == a.commitBuf {
							lowIsOldLen = true
						}
						if !sameExpr(cs.High, sl.High, 0) || !lowIsOldLen {
							why = "the CRC window is not [previous length : new length] of the pending buffer"
							continue
						}
						// and its result is stored back into the rolling CRC
						stored := false
						for _, ref := range *c.Referrers() {
							if s2, ok := ref.(*ssa.Store); ok && fieldOfAddr(s2.Addr) == a.crc {
								stored = true
							}
						}
						if stored {
							found = true
						} else {
							why = "the updated CRC is not stored back"
						}
					}
				}
				r.Check(found, key, posOf(p, st), "bytes appended to the pending buffer are folded into the rolling CRC over exactly [old len : new len]",
					"the pending write buffer is extended but "+why+": the commit frame's CRC no longer covers exactly the bytes written since the previous commit, so recovery rejects good batches or accepts torn ones")
			}
		}
	}
	if nExt < 1 {
		r.Unknown("extensions", "?", fmt.Sprintf("only %d in-place extensions of the pending buffer found", nExt))
	}
	// (b) the commit frame header carries the rolling CRC
	_, _, fhCRC := frameHeaderFields(p)
	if fhCRC == nil {
		// the role of the CRC field is defined by this very store; fall back to any uint32 field of a 3-field header
		r.Unknown("commit-frame-crc:anchor", "?", "cannot tell the CRC field of the frame header from its length field")
	}
	okCommit := false
	var cpos ssa.Instruction
	for fn := range p.reachableFuncs(a.mutators...) {
		for _, b := range fn.Blocks {
			for _, ins := range b.Instrs {
				st, ok := ins.(*ssa.Store)
				if !ok {
					continue
				}
				fv := fieldOfAddr(st.Addr)
				if fv == nil || fv != fhCRC || fv == a.crc {
					continue
				}
				cpos = st
				if loadedField(st.Val) == a.crc {
					okCommit = true
				}
			}
		}
	}
	pos := "?"
	if cpos != nil {
		pos = posOf(p, cpos)
	}
	r.Check(okCommit, "commit-frame-crc", pos, "the commit frame's CRC field is the rolling CRC as it stands before the commit frame itself is appended",
		"the commit frame header is not given the rolling CRC field's value")
	// (c) the rolling CRC is reset to 0 only with the fsync done
	nReset := 0
	spec := &OrdSpec{Name: "crc-reset",
		Call: func(cx *Ctx, ci ssa.CallInstruction) CallInfo {
			switch eventName(ci) {
			case "types.WritableFile.WriteAt":
				return CallInfo{Event: "WriteAt", Primitive: true}
			case "types.WritableFile.Sync":
				return CallInfo{Event: "Sync", Primitive: true}
			}
			return CallInfo{}
		},
		Instr: func(cx *Ctx, ins ssa.Instruction, f *Fact) {
			st, ok := ins.(*ssa.Store)
			if !ok || fieldOfAddr(st.Addr) != a.crc {
				return
			}
			c, ok := st.Val.(*ssa.Const)
			if !ok || c.Int64() != 0 {
				return
			}
			nReset++
			r.Check(f.Must["Sync:ok"], cx.Key(ins, "crc-reset"), posOf(p, ins), "the rolling CRC restarts only after the batch was written and fsynced",
				"the rolling CRC is reset before the batch is durable: a failed flush followed by a retry commits a CRC that does not cover the retried bytes; path: "+trace(f))
		}}
	eng := newOrdEngine(p, spec)
	for _, m := range a.mutators {
		eng.RunRoot(m, nil)
	}
	finishEngine(r, eng)
	if nReset == 0 {
		r.Fail("crc-reset:missing", "?", "the rolling CRC is never reset after a commit: every later commit frame's CRC covers earlier batches too, and recovery (which checks only the final batch) rejects every tail")
	}
	_ = token.ADD
}
