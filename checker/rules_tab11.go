package main

import (
	"fmt"
	"go/constant"
	"go/token"
	"go/types"
	"sort"
	"strings"

	"golang.org/x/tools/go/ssa"
)

// TAB-11: the bytes a frame read hands out are the frame's payload.
//
// For the function that reads an entry frame at a file offset and returns a
// pooled buffer, every byte slice is followed symbolically as (backing array,
// position in it) and every backing array gets the file position of its element
// 0 from the transfers that fill it:
//
//	ReadAt(S, pos)   =>  file(array(S)) = pos - lo(S)
//	copy(D, S)       =>  file(array(D)) = file(array(S)) + lo(S) - lo(D)
//	S = X[lo:hi]     =>  array(S) = array(X), lo(S) = lo(X) + lo
//
// Positions are linear forms over the function's offset parameter and whatever
// other values occur (a transfer count, the frame length).  Two transfers into
// one array must agree on its file position (a payload assembled from the part
// already read plus "the rest" must continue exactly where the first part
// ended), and on every return that hands out a buffer, element 0 of the bytes
// handed out must be file position offset + frame header length.
func init() {
	register(&Rule{ID: "TAB-11", Title: "frame read: the bytes handed out start at offset + frame header length, and pieces read separately join up",
		Props: []string{"C05", "C15", "C09"}, Floor: 2, Run: runTAB11})
}

type linForm struct {
	c    int64
	syms map[ssa.Value]int64
}

func (l linForm) add(o linForm, sign int64) linForm {
	r := linForm{c: l.c + sign*o.c, syms: map[ssa.Value]int64{}}
	for k, v := range l.syms {
		r.syms[k] = v
	}
	for k, v := range o.syms {
		r.syms[k] += sign * v
		if r.syms[k] == 0 {
			delete(r.syms, k)
		}
	}
	return r
}

func (l linForm) eq(o linForm) bool {
	d := l.add(o, -1)
	return d.c == 0 && len(d.syms) == 0
}

func (l linForm) String() string {
	var parts []string
	for k, v := range l.syms {
		n := k.Name()
		if p, ok := k.(*ssa.Parameter); ok {
			n = p.Name()
		}
		switch v {
		case 1:
			parts = append(parts, n)
		case -1:
			parts = append(parts, "-"+n)
		default:
			parts = append(parts, fmt.Sprintf("%d*%s", v, n))
		}
	}
	sort.Strings(parts)
	if l.c != 0 || len(parts) == 0 {
		parts = append(parts, fmt.Sprintf("%d", l.c))
	}
	return strings.Join(parts, "+")
}

func runTAB11(p *Prog, r *RuleRun) {
	hdrLen, okc := int64(0), false
	if pk := p.Pkg["segment"]; pk != nil {
		if c, ok := pk.Types.Scope().Lookup("frameHeaderLen").(*types.Const); ok {
			if n, ok := constant.Int64Val(constant.ToInt(c.Val())); ok {
				hdrLen, okc = n, true
			}
		}
	}
	if !okc {
		// fall back to the documented value; TAB-04 checks the constant itself
		hdrLen = 8
	}
	var fns []*ssa.Function
	for _, fn := range p.Funcs {
		if pkgRelOf(p, fn) != "segment" || fn.Blocks == nil {
			continue
		}
		res := fn.Signature.Results()
		hasBuf := false
		for i := 0; i < res.Len(); i++ {
			if pt, ok := res.At(i).Type().(*types.Pointer); ok && isNamed(pt.Elem(), ModPath+"/types", "PooledBuffer") {
				hasBuf = true
			}
		}
		if !hasBuf {
			continue
		}
		reads := false
		for _, b := range fn.Blocks {
			for _, ins := range b.Instrs {
				if c, ok := ins.(*ssa.Call); ok && strings.HasSuffix(eventName(c), ".ReadAt") {
					reads = true
				}
			}
		}
		if reads {
			fns = append(fns, fn)
		}
	}
	if len(fns) == 0 {
		r.Unknown("anchor", "?", "no function in package segment reads from a file and returns a *types.PooledBuffer")
		return
	}
	sort.Slice(fns, func(i, j int) bool { return fns[i].String() < fns[j].String() })
	delegates := map[*ssa.Function]bool{}
	for _, fn := range fns {
		delegates[fn] = true
	}
	for _, fn := range fns {
		tab11Func(p, r, fn, hdrLen, delegates)
	}
}

type absSlice struct {
	arr ssa.Value // identity of the backing array (the value that created or first named it)
	lo  linForm
	ok  bool
}

type tab11Path struct {
	env    map[ssa.Value]absSlice  // byte-slice values
	heap   map[string]absSlice     // "<object value name>.<field>" -> slice stored there
	file   map[ssa.Value]linForm   // backing array -> file position of element 0
	alias  map[ssa.Value]ssa.Value // phi -> incoming value on this path
	conf   []string                // conflicts found on this path
	cells  map[ssa.Value]ssa.Value // local variable (Alloc) -> the value it currently holds
	heapID map[string]ssa.Value    // heap cell -> the slice value it currently holds (identity for len())
	lenRep map[ssa.Value]ssa.Value // slice identity -> the first len() call seen for it
	vis    map[*ssa.BasicBlock]int
}

func (t *tab11Path) clone() *tab11Path {
	n := &tab11Path{env: map[ssa.Value]absSlice{}, heap: map[string]absSlice{}, file: map[ssa.Value]linForm{}, alias: map[ssa.Value]ssa.Value{}, vis: map[*ssa.BasicBlock]int{}, heapID: map[string]ssa.Value{}, lenRep: map[ssa.Value]ssa.Value{}}
	n.cells = map[ssa.Value]ssa.Value{}
	for k, v := range t.cells {
		n.cells[k] = v
	}
	for k, v := range t.heapID {
		n.heapID[k] = v
	}
	for k, v := range t.lenRep {
		n.lenRep[k] = v
	}
	for k, v := range t.env {
		n.env[k] = v
	}
	for k, v := range t.heap {
		n.heap[k] = v
	}
	for k, v := range t.file {
		n.file[k] = v
	}
	for k, v := range t.alias {
		n.alias[k] = v
	}
	for k, v := range t.vis {
		n.vis[k] = v
	}
	n.conf = append([]string(nil), t.conf...)
	return n
}

func tab11Func(p *Prog, r *RuleRun, fn *ssa.Function, hdrLen int64, delegates map[*ssa.Function]bool) {
	// the offset parameter: the integer parameter a ReadAt position derives from
	var offPrm *ssa.Parameter
	var lin func(t *tab11Path, v ssa.Value, depth int) linForm
	lin = func(t *tab11Path, v ssa.Value, depth int) linForm {
		if a, ok := t.alias[v]; ok && depth < 12 {
			return lin(t, a, depth+1)
		}
		if depth < 12 {
			switch x := v.(type) {
			case *ssa.Const:
				if x.Value != nil {
					if n, ok := constant.Int64Val(constant.ToInt(x.Value)); ok {
						return linForm{c: n}
					}
				}
			case *ssa.Convert:
				return lin(t, x.X, depth+1)
			case *ssa.ChangeType:
				return lin(t, x.X, depth+1)
			case *ssa.Call:
				// len(s): one symbol per slice value, however often its length is taken; the length of
				// x[lo:hi] is hi-lo
				if isBuiltinCall(x, "len") && len(x.Call.Args) == 1 && t.lenRep != nil {
					id := x.Call.Args[0]
					for i := 0; i < 8; i++ {
						if a, ok := t.alias[id]; ok {
							id = a
							continue
						}
						break
					}
					if u, ok := id.(*ssa.UnOp); ok && u.Op == token.MUL {
						if fa, ok := u.X.(*ssa.FieldAddr); ok {
							base := fa.X
							for i := 0; i < 8; i++ {
								if a, ok := t.alias[base]; ok {
									base = a
									continue
								}
								break
							}
							k := fmt.Sprintf("%p.%d", base, fa.Field)
							if cur, ok := t.heapID[k]; ok {
								id = cur
							} else {
								t.heapID[k] = id
							}
						}
					}
					if sl, ok := id.(*ssa.Slice); ok && sl.High != nil {
						f := lin(t, sl.High, depth+1)
						if sl.Low != nil {
							f = f.add(lin(t, sl.Low, depth+1), -1)
						}
						return f
					}
					if rep, ok := t.lenRep[id]; ok {
						return linForm{syms: map[ssa.Value]int64{rep: 1}}
					}
					t.lenRep[id] = x
				}
			case *ssa.BinOp:
				switch x.Op {
				case token.ADD:
					return lin(t, x.X, depth+1).add(lin(t, x.Y, depth+1), 1)
				case token.SUB:
					return lin(t, x.X, depth+1).add(lin(t, x.Y, depth+1), -1)
				}
			}
		}
		return linForm{syms: map[ssa.Value]int64{v: 1}}
	}
	for _, b := range fn.Blocks {
		for _, ins := range b.Instrs {
			if c, ok := ins.(*ssa.Call); ok && strings.HasSuffix(eventName(c), ".ReadAt") && len(c.Call.Args) >= 2 {
				f := lin(&tab11Path{alias: map[ssa.Value]ssa.Value{}}, c.Call.Args[len(c.Call.Args)-1], 0)
				for s := range f.syms {
					if prm, ok := s.(*ssa.Parameter); ok && offPrm == nil {
						offPrm = prm
					}
				}
			}
		}
	}
	if offPrm == nil {
		r.Unknown(funcDisplay(fn)+":offset-parameter", p.Position(fn.Pos()), "no ReadAt position derives from an integer parameter")
		return
	}
	want := linForm{c: hdrLen, syms: map[ssa.Value]int64{offPrm: 1}}
	resolveVal := func(t *tab11Path, v ssa.Value) ssa.Value {
		for i := 0; i < 12; i++ {
			if a, ok := t.alias[v]; ok {
				v = a
				continue
			}
			if u, ok := v.(*ssa.UnOp); ok && u.Op == token.MUL {
				if al, ok := u.X.(*ssa.Alloc); ok {
					if cur, ok := t.cells[al]; ok {
						v = cur
						continue
					}
				}
			}
			break
		}
		return v
	}
	objKey := func(t *tab11Path, v ssa.Value) string {
		return fmt.Sprintf("%p", resolveVal(t, v))
	}
	var sliceOf func(t *tab11Path, v ssa.Value, depth int) absSlice
	sliceOf = func(t *tab11Path, v ssa.Value, depth int) absSlice {
		if depth > 12 {
			return absSlice{}
		}
		if a, ok := t.alias[v]; ok {
			return sliceOf(t, a, depth+1)
		}
		if s, ok := t.env[v]; ok {
			return s
		}
		switch x := v.(type) {
		case *ssa.MakeSlice:
			return absSlice{arr: x, ok: true}
		case *ssa.Alloc:
			return absSlice{arr: x, ok: true}
		case *ssa.Slice:
			base := sliceOf(t, x.X, depth+1)
			if !base.ok {
				return absSlice{}
			}
			if x.Low != nil {
				base.lo = base.lo.add(lin(t, x.Low, 0), 1)
			}
			return base
		case *ssa.UnOp:
			if x.Op == token.MUL {
				if fa, ok := x.X.(*ssa.FieldAddr); ok {
					k := objKey(t, fa.X) + "." + fmt.Sprint(fa.Field)
					if s, ok := t.heap[k]; ok {
						return s
					}
					// first sight of this object's buffer: a backing array of its own
					s := absSlice{arr: x, ok: true}
					t.heap[k] = s
					return s
				}
			}
		case *ssa.Call:
			if isBuiltinCall(x, "append") && len(x.Call.Args) > 0 {
				return sliceOf(t, x.Call.Args[0], depth+1)
			}
			return absSlice{arr: x, ok: true}
		case *ssa.TypeAssert:
			return absSlice{arr: x, ok: true}
		case *ssa.Convert:
			return sliceOf(t, x.X, depth+1)
		case *ssa.ChangeType:
			return sliceOf(t, x.X, depth+1)
		}
		return absSlice{}
	}
	setFile := func(t *tab11Path, arr ssa.Value, f linForm, what string, pos string) {
		if old, ok := t.file[arr]; ok {
			if !old.eq(f) {
				t.conf = append(t.conf, fmt.Sprintf("%s at %s places element 0 of the buffer at file position %s, an earlier transfer placed it at %s", what, pos, f, old))
			}
			return
		}
		t.file[arr] = f
	}
	isBytes := func(v ssa.Value) bool {
		sl, ok := v.Type().Underlying().(*types.Slice)
		if !ok {
			return false
		}
		b, ok := sl.Elem().Underlying().(*types.Basic)
		return ok && b.Kind() == types.Uint8
	}
	nReturns, nPaths := 0, 0
	reported := map[string]bool{}
	var walk func(t *tab11Path, b, prev *ssa.BasicBlock)
	walk = func(t *tab11Path, b, prev *ssa.BasicBlock) {
		t.vis[b]++
		if t.vis[b] > 1 || nPaths > 4000 {
			return
		}
		if prev != nil {
			for i, pr := range b.Preds {
				if pr != prev {
					continue
				}
				for _, ins := range b.Instrs {
					phi, ok := ins.(*ssa.Phi)
					if !ok {
						break
					}
					t.alias[phi] = phi.Edges[i]
				}
			}
		}
		for _, ins := range b.Instrs {
			switch x := ins.(type) {
			case *ssa.Store:
				if al, ok := x.Addr.(*ssa.Alloc); ok {
					t.cells[al] = resolveVal(t, x.Val)
				}
				if fa, ok := x.Addr.(*ssa.FieldAddr); ok && isBytes(x.Val) {
					if s := sliceOf(t, x.Val, 0); s.ok {
						t.heap[objKey(t, fa.X)+"."+fmt.Sprint(fa.Field)] = s
					}
					id := x.Val
					for i := 0; i < 8; i++ {
						if a, ok := t.alias[id]; ok {
							id = a
							continue
						}
						break
					}
					t.heapID[objKey(t, fa.X)+"."+fmt.Sprint(fa.Field)] = id
				}
			case *ssa.Call:
				n := eventName(x)
				switch {
				case strings.HasSuffix(n, ".ReadAt") && len(x.Call.Args) >= 2:
					args := x.Call.Args
					if s := sliceOf(t, args[len(args)-2], 0); s.ok {
						setFile(t, s.arr, lin(t, args[len(args)-1], 0).add(s.lo, -1), "ReadAt", posOf(p, x))
					}
				case isBuiltinCall(x, "copy") && len(x.Call.Args) == 2:
					d, s := sliceOf(t, x.Call.Args[0], 0), sliceOf(t, x.Call.Args[1], 0)
					if d.ok && s.ok {
						if sf, ok := t.file[s.arr]; ok {
							setFile(t, d.arr, sf.add(s.lo, 1).add(d.lo, -1), "copy", posOf(p, x))
						}
					}
				}
			case *ssa.If:
				q := t.clone()
				walk(t, b.Succs[0], b)
				walk(q, b.Succs[1], b)
				return
			case *ssa.Jump:
				walk(t, b.Succs[0], b)
				return
			case *ssa.Return:
				nPaths++
				for _, rv := range x.Results {
					pt, ok := rv.Type().(*types.Pointer)
					if !ok || !isNamed(pt.Elem(), ModPath+"/types", "PooledBuffer") {
						continue
					}
					v := resolveVal(t, rv)
					if c, ok := v.(*ssa.Const); ok && c.IsNil() {
						continue
					}
					// a buffer obtained from another frame-reading function of the package is that function's
					// obligation (it is analysed as a root of its own)
					if ex, ok := v.(*ssa.Extract); ok {
						if cc, ok := ex.Tuple.(*ssa.Call); ok && delegates[cc.Call.StaticCallee()] {
							nReturns++
							r.Trivial(fmt.Sprintf("%s:return@%s", funcDisplay(fn), describeRet(fn, x)), posOf(p, x), "hands on the buffer of "+funcDisplay(cc.Call.StaticCallee()))
							continue
						}
					}
					nReturns++
					key := fmt.Sprintf("%s:return@%s", funcDisplay(fn), describeRet(fn, x))
					// the Bs field is field 0 of PooledBuffer by role: the []byte field
					st, _ := pt.Elem().Underlying().(*types.Struct)
					fi := -1
					for i := 0; st != nil && i < st.NumFields(); i++ {
						if sl, ok := st.Field(i).Type().Underlying().(*types.Slice); ok {
							if bb, ok := sl.Elem().Underlying().(*types.Basic); ok && bb.Kind() == types.Uint8 {
								fi = i
							}
						}
					}
					s, ok := t.heap[objKey(t, v)+"."+fmt.Sprint(fi)]
					msgs := append([]string(nil), t.conf...)
					if !ok || !s.ok {
						msgs = append(msgs, "the analysis cannot tell which bytes the returned buffer holds")
					} else if f, ok := t.file[s.arr]; !ok {
						msgs = append(msgs, "the returned buffer was never filled from the file on this path")
					} else if got := f.add(s.lo, 1); !got.eq(want) {
						msgs = append(msgs, fmt.Sprintf("element 0 of the bytes handed out is file position %s, the frame's payload starts at %s", got, want))
					}
					if len(msgs) > 0 {
						if !reported[key] {
							reported[key] = true
						}
						r.Fail(key, posOf(p, x), "the bytes a frame read returns are not the frame's payload: "+strings.Join(msgs, "; ")+" (an entry that does not fit the pooled read buffer is returned shifted / with duplicated bytes)")
					} else {
						r.OK(key, posOf(p, x), "the bytes handed out start at "+want.String()+" and every transfer into the buffer agrees on its file position")
					}
				}
				return
			}
		}
	}
	walk(&tab11Path{env: map[ssa.Value]absSlice{}, heap: map[string]absSlice{}, file: map[ssa.Value]linForm{}, alias: map[ssa.Value]ssa.Value{}, vis: map[*ssa.BasicBlock]int{}, heapID: map[string]ssa.Value{}, lenRep: map[ssa.Value]ssa.Value{}, cells: map[ssa.Value]ssa.Value{}}, fn.Blocks[0], nil)
	if nReturns == 0 {
		r.Unknown(funcDisplay(fn)+":returns", p.Position(fn.Pos()), "no return hands out a buffer")
	}
}

// describeRet numbers a return instruction within its function (position free).
func describeRet(fn *ssa.Function, ret *ssa.Return) string {
	n := 0
	for _, b := range fn.Blocks {
		for _, ins := range b.Instrs {
			if rr, ok := ins.(*ssa.Return); ok {
				n++
				if rr == ret {
					return fmt.Sprintf("#%d", n)
				}
			}
		}
	}
	return "#?"
}
