package main

import (
	"fmt"
	"go/token"
	"go/types"
	"sort"
	"strings"

	"golang.org/x/tools/go/ssa"
)

func init() {
	register(&Rule{ID: "VF-01", Title: "no allocation is sized by file-derived bytes without a dominating bound",
		Props: []string{"C11", "C15"}, Floor: 3, Run: func(p *Prog, r *RuleRun) { runTaint(p, r, "VF-01") }})
	register(&Rule{ID: "VF-02", Title: "no slice bound or index is a file-derived value without a dominating bound",
		Props: []string{"C11"}, Floor: 4, Run: func(p *Prog, r *RuleRun) { runTaint(p, r, "VF-02") }})
}

type fieldKey struct {
	st  *types.Struct
	idx int
}

type objKey struct {
	alloc ssa.Value
	idx   int
}

type taintState struct {
	p      *Prog
	val    map[ssa.Value]string // (resolved) tainted value -> origin description
	lab    map[ssa.Value]uint64 // label set: bit0 = file source, bit 1+i = parameter i of the enclosing function
	origin map[ssa.Value]string
	ptaint map[*ssa.Function]map[int]string // parameter i receives a tainted argument at some call site
	retLab map[*ssa.Function]map[int]uint64
	field  map[fieldKey]string
	cell   map[ssa.Value]string
	ret    map[*ssa.Function]map[int]string
	// object-/value-sensitive tracking of package-level struct types
	objField  map[objKey]string            // (alloc, field) -> origin
	structVal map[ssa.Value]map[int]string // struct-typed SSA value -> tainted fields
	retField  map[*ssa.Function]map[int]map[int]string
	funcs     []*ssa.Function
	change    bool
}

func isFileSource(ci *ssa.Call) (bool, string) {
	n := eventName(ci)
	switch n {
	case "binary.littleEndian.Uint16", "binary.littleEndian.Uint32", "binary.littleEndian.Uint64",
		"binary.bigEndian.Uint16", "binary.bigEndian.Uint32", "binary.bigEndian.Uint64",
		"binary.Uvarint", "binary.Varint", "binary.ByteOrder.Uint16", "binary.ByteOrder.Uint32", "binary.ByteOrder.Uint64":
		return true, n
	}
	return false, ""
}

func structOf(t types.Type) *types.Struct {
	if pt, ok := t.Underlying().(*types.Pointer); ok {
		t = pt.Elem()
	}
	st, _ := t.Underlying().(*types.Struct)
	return st
}

// localStruct: field taint is propagated by type only for struct types that are
// not exported cross-package carriers (types.SegmentInfo, types.LogEntry are
// metadata/API carriers whose header-derived instances are only compared).
func (ts *taintState) fieldTracked(base types.Type) bool {
	t := base
	if pt, ok := t.Underlying().(*types.Pointer); ok {
		t = pt.Elem()
	}
	if n, ok := t.(*types.Named); ok {
		o := n.Obj()
		if o.Pkg() == nil {
			return false
		}
		// type-based field taint only for types declared inside a function: such a
		// type cannot be shared between a reading and a writing path
		return o.Parent() != o.Pkg().Scope()
	}
	return true
}

func (ts *taintState) setStructField(v ssa.Value, idx int, why string) {
	m := ts.structVal[v]
	if m == nil {
		m = map[int]string{}
		ts.structVal[v] = m
	}
	if _, ok := m[idx]; !ok {
		m[idx] = why
		ts.change = true
	}
}

func (ts *taintState) copyStruct(dst, src ssa.Value) {
	for i, w := range ts.structVal[src] {
		ts.setStructField(dst, i, w)
	}
}

const srcBit = uint64(1)

func paramBit(i int) uint64 {
	if i > 60 {
		i = 60
	}
	return uint64(1) << uint(1+i)
}

// addLab adds labels to v.
func (ts *taintState) addLab(v ssa.Value, l uint64, why string) {
	if v == nil || l == 0 {
		return
	}
	if ts.lab[v]|l != ts.lab[v] {
		ts.lab[v] |= l
		ts.change = true
	}
	if _, ok := ts.origin[v]; !ok && why != "" {
		ts.origin[v] = why
	}
}

// set marks v as derived from a file source.
func (ts *taintState) set(v ssa.Value, why string) { ts.addLab(v, srcBit, why) }

// resolved reports whether v (in fn) is tainted: from a source, or from a
// parameter that receives a tainted argument at some call site.
func (ts *taintState) resolved(v ssa.Value) (string, bool) {
	l := ts.lab[v]
	if l == 0 {
		return "", false
	}
	if l&srcBit != 0 {
		return ts.origin[v], true
	}
	fn := (*ssa.Function)(nil)
	switch x := v.(type) {
	case *ssa.Parameter:
		fn = x.Parent()
	case ssa.Instruction:
		fn = x.Parent()
	}
	if fn == nil {
		return "", false
	}
	for i := range fn.Params {
		if l&paramBit(i) != 0 {
			if w, ok := ts.ptaint[fn][i]; ok {
				return w, true
			}
		}
	}
	return "", false
}

func (ts *taintState) run() {
	for _, fn := range ts.funcs {
		for i, prm := range fn.Params {
			ts.lab[prm] = paramBit(i)
		}
	}
	defer func() {
		for v := range ts.lab {
			if w, ok := ts.resolved(v); ok {
				ts.val[v] = w
			}
		}
	}()
	for {
		ts.change = false
		for _, fn := range ts.funcs {
			for _, b := range fn.Blocks {
				for _, ins := range b.Instrs {
					ts.transfer(fn, ins)
				}
			}
		}
		if !ts.change {
			return
		}
	}
}

func (ts *taintState) transfer(fn *ssa.Function, ins ssa.Instruction) {
	// within a function values carry labels; l() gives them, t() the resolved verdict
	l := func(v ssa.Value) uint64 { return ts.lab[v] }
	t := func(v ssa.Value) (string, bool) { return ts.resolved(v) }
	prop := func(dst ssa.Value, srcs ...ssa.Value) {
		for _, sv := range srcs {
			if sv != nil && l(sv) != 0 {
				ts.addLab(dst, l(sv), ts.origin[sv])
			}
		}
	}
	switch x := ins.(type) {
	case *ssa.Call:
		if ok, n := isFileSource(x); ok {
			ts.set(x, n+" at "+posOf(ts.p, x))
		}
		ts.callFlow(x)
	case *ssa.Defer:
		ts.callFlow(x)
	case *ssa.Go:
		ts.callFlow(x)
	case *ssa.Extract:
		if c, ok := x.Tuple.(*ssa.Call); ok {
			if src, n := isFileSource(c); src {
				ts.set(x, n+" at "+posOf(ts.p, c))
				return
			}
			for _, callee := range ts.callees(c) {
				for fi, w := range ts.retField[callee][x.Index] {
					ts.setStructField(x, fi, w)
				}
				ts.mapRet(x, c, callee, x.Index)
			}
		}
	case *ssa.BinOp:
		switch x.Op {
		case token.ADD, token.SUB, token.MUL, token.QUO, token.REM, token.AND, token.OR, token.XOR, token.SHL, token.SHR, token.AND_NOT:
			prop(x, x.X, x.Y)
		}
	case *ssa.Convert:
		prop(x, x.X)
	case *ssa.ChangeType:
		prop(x, x.X)
	case *ssa.Phi:
		for _, e := range x.Edges {
			prop(x, e)
			ts.copyStruct(x, e)
		}
	case *ssa.Store:
		// a struct value with tainted fields stored into a cell / a field
		if sv := ts.structVal[x.Val]; len(sv) > 0 {
			switch a := x.Addr.(type) {
			case *ssa.Alloc:
				for i, w := range sv {
					k := objKey{a, i}
					if _, ok := ts.objField[k]; !ok {
						ts.objField[k] = w
						ts.change = true
					}
				}
			case *ssa.FieldAddr:
				if st := structOf(a.X.Type()); st != nil && ts.fieldTracked(a.X.Type()) {
					k := fieldKey{st, a.Field}
					if _, ok := ts.field[k]; !ok {
						for _, w := range sv {
							ts.field[k] = w
						}
						ts.change = true
					}
				}
			}
		}
		w, ok := t(x.Val)
		if !ok {
			return
		}
		switch a := x.Addr.(type) {
		case *ssa.FieldAddr:
			if st := structOf(a.X.Type()); st != nil && ts.fieldTracked(a.X.Type()) {
				k := fieldKey{st, a.Field}
				if _, ok := ts.field[k]; !ok {
					ts.field[k] = w
					ts.change = true
				}
			} else if al, ok := a.X.(*ssa.Alloc); ok {
				k := objKey{al, a.Field}
				if _, ok := ts.objField[k]; !ok {
					ts.objField[k] = w
					ts.change = true
				}
			}
		case *ssa.Alloc, *ssa.FreeVar:
			if _, ok := ts.cell[a]; !ok {
				ts.cell[a] = w
				ts.change = true
			}
		}
	case *ssa.UnOp:
		if x.Op != token.MUL {
			if x.Op == token.SUB || x.Op == token.XOR {
				prop(x, x.X)
			}
			return
		}
		switch a := x.X.(type) {
		case *ssa.FieldAddr:
			if st := structOf(a.X.Type()); st != nil {
				if w, ok := ts.field[fieldKey{st, a.Field}]; ok {
					ts.set(x, w)
				}
				if al, ok := a.X.(*ssa.Alloc); ok {
					if w, ok := ts.objField[objKey{al, a.Field}]; ok {
						ts.set(x, w)
					}
				}
				// nested: field of a (type-tracked) tainted struct field
				if inner, ok := a.X.(*ssa.FieldAddr); ok {
					if st2 := structOf(inner.X.Type()); st2 != nil {
						if w, ok := ts.field[fieldKey{st2, inner.Field}]; ok {
							ts.set(x, w)
						}
					}
				}
			}
		case *ssa.Alloc:
			if w, ok := ts.cell[a]; ok {
				ts.set(x, w)
			}
			// loading a whole struct: carry its tainted fields
			if st := structOf(a.Type()); st != nil {
				for i := 0; i < st.NumFields(); i++ {
					if w, ok := ts.objField[objKey{a, i}]; ok {
						ts.setStructField(x, i, w)
					}
				}
			}
		case *ssa.FreeVar:
			// a captured variable: tainted if the cell it binds is
			if w, ok := ts.cell[a]; ok {
				ts.set(x, w)
			}
			for _, al := range ts.bindingsOf(a) {
				if w, ok := ts.cell[al]; ok {
					ts.set(x, w)
				}
			}
		}
	case *ssa.Field:
		if st, ok := x.X.Type().Underlying().(*types.Struct); ok && ts.fieldTracked(x.X.Type()) {
			if w, ok := ts.field[fieldKey{st, x.Field}]; ok {
				ts.set(x, w)
			}
		}
		if w, ok := ts.structVal[x.X][x.Field]; ok {
			ts.set(x, w)
		}
	case *ssa.Return:
		for i, res := range x.Results {
			if sv := ts.structVal[res]; len(sv) > 0 {
				m := ts.retField[fn]
				if m == nil {
					m = map[int]map[int]string{}
					ts.retField[fn] = m
				}
				if m[i] == nil {
					m[i] = map[int]string{}
				}
				for fi, w := range sv {
					if _, ok := m[i][fi]; !ok {
						m[i][fi] = w
						ts.change = true
					}
				}
			}
			if lb := l(res); lb != 0 {
				m := ts.retLab[fn]
				if m == nil {
					m = map[int]uint64{}
					ts.retLab[fn] = m
				}
				if m[i]|lb != m[i] {
					m[i] |= lb
					ts.change = true
				}
				if _, ok := ts.ret[fn]; !ok {
					ts.ret[fn] = map[int]string{}
				}
				if _, ok := ts.ret[fn][i]; !ok {
					ts.ret[fn][i] = ts.origin[res]
				}
			}
		}
	}
	// single-result calls of production callees: map the callee's return labels through this site's arguments
	if c, ok := ins.(*ssa.Call); ok {
		for _, callee := range ts.callees(c) {
			if callee.Signature.Results().Len() == 1 {
				for fi, w := range ts.retField[callee][0] {
					ts.setStructField(c, fi, w)
				}
				ts.mapRet(c, c, callee, 0)
			}
		}
	}
}

// mapRet gives dst (the result idx of call c to callee) the callee's return
// labels translated into the caller: source stays source, parameter j becomes
// the labels of argument j at this site.
func (ts *taintState) mapRet(dst ssa.Value, c *ssa.Call, callee *ssa.Function, idx int) {
	lb := ts.retLab[callee][idx]
	if lb == 0 {
		return
	}
	if lb&srcBit != 0 {
		ts.addLab(dst, srcBit, ts.ret[callee][idx])
	}
	off := 0
	if c.Call.IsInvoke() {
		off = 1
		if lb&paramBit(0) != 0 {
			ts.addLab(dst, ts.lab[c.Call.Value], ts.origin[c.Call.Value])
		}
	}
	for j, a := range c.Call.Args {
		if lb&paramBit(j+off) != 0 && ts.lab[a] != 0 {
			ts.addLab(dst, ts.lab[a], ts.origin[a])
		}
	}
}

// bindingsOf returns the cells a free variable may be bound to.
func (ts *taintState) bindingsOf(fv *ssa.FreeVar) []ssa.Value {
	fn := fv.Parent()
	idx := -1
	for i, f := range fn.FreeVars {
		if f == fv {
			idx = i
		}
	}
	var out []ssa.Value
	if fn.Parent() == nil || idx < 0 {
		return nil
	}
	for _, b := range fn.Parent().Blocks {
		for _, ins := range b.Instrs {
			if mc, ok := ins.(*ssa.MakeClosure); ok && mc.Fn == fn && idx < len(mc.Bindings) {
				out = append(out, mc.Bindings[idx])
			}
		}
	}
	return out
}

func (ts *taintState) callees(ci ssa.CallInstruction) []*ssa.Function {
	cc := ci.Common()
	if f := cc.StaticCallee(); f != nil {
		if ts.p.IsProdFunc(f) && f.Blocks != nil {
			return []*ssa.Function{f}
		}
		return nil
	}
	var out []*ssa.Function
	if n := ts.p.CG.Nodes[ci.Parent()]; n != nil {
		for _, e := range n.Out {
			if e.Site == ci && ts.p.IsProdFunc(e.Callee.Func) && e.Callee.Func.Blocks != nil {
				out = append(out, e.Callee.Func)
			}
		}
	}
	return out
}

func (ts *taintState) callFlow(ci ssa.CallInstruction) {
	cc := ci.Common()
	for _, callee := range ts.callees(ci) {
		off := 0
		if cc.IsInvoke() {
			off = 1
		}
		for i, a := range cc.Args {
			if i+off >= len(callee.Params) {
				continue
			}
			if w, ok := ts.resolved(a); ok {
				m := ts.ptaint[callee]
				if m == nil {
					m = map[int]string{}
					ts.ptaint[callee] = m
				}
				if _, ok := m[i+off]; !ok {
					m[i+off] = w
					ts.change = true
				}
			}
			ts.copyStruct(callee.Params[i+off], a)
		}
	}
}

// linear strips conversions and constant additions: returns the root value.
func linearRoot(v ssa.Value) ssa.Value {
	for i := 0; i < 8; i++ {
		switch x := v.(type) {
		case *ssa.Convert:
			v = x.X
		case *ssa.ChangeType:
			v = x.X
		case *ssa.BinOp:
			if x.Op == token.ADD {
				if _, ok := x.Y.(*ssa.Const); ok {
					v = x.X
					continue
				}
				if _, ok := x.X.(*ssa.Const); ok {
					v = x.Y
					continue
				}
			}
			return v
		default:
			return v
		}
	}
	return v
}

// wideUnsignedToSigned: on the way from the file-derived root to v the value passes a conversion from a 64-bit
// unsigned type to a signed one (int(x) of a uint64): every value with bit 63 set comes out negative.
func wideUnsignedToSigned(v ssa.Value) bool {
	for i := 0; i < 8; i++ {
		switch x := v.(type) {
		case *ssa.Convert:
			src, ok1 := x.X.Type().Underlying().(*types.Basic)
			dst, ok2 := x.Type().Underlying().(*types.Basic)
			if ok1 && ok2 && src.Info()&types.IsUnsigned != 0 && dst.Info()&types.IsInteger != 0 && dst.Info()&types.IsUnsigned == 0 {
				switch src.Kind() {
				case types.Uint64, types.Uint, types.Uintptr:
					return true
				}
			}
			v = x.X
		case *ssa.ChangeType:
			v = x.X
		case *ssa.BinOp:
			if x.Op == token.ADD {
				if _, ok := x.Y.(*ssa.Const); ok {
					v = x.X
					continue
				}
				if _, ok := x.X.(*ssa.Const); ok {
					v = x.Y
					continue
				}
			}
			return false
		default:
			return false
		}
	}
	return false
}

func isLenOrConst(v ssa.Value, ts *taintState) bool {
	v = linearRoot(v)
	if _, ok := v.(*ssa.Const); ok {
		return true
	}
	if c, ok := v.(*ssa.Call); ok {
		if b, ok := c.Call.Value.(*ssa.Builtin); ok && (b.Name() == "len" || b.Name() == "cap") {
			return true
		}
	}
	_, tainted := ts.val[v]
	return !tainted
}

// boundedAt: is block b dominated by an If edge that bounds root from above (and, if needLower, from below)?
// lenOf: v is len(base)/cap(base) (through conversions) of structurally the same expression as base.
func lenOf(v, base ssa.Value) bool {
	v = linearRoot(v)
	c, ok := v.(*ssa.Call)
	if !ok {
		return false
	}
	b, ok := c.Call.Value.(*ssa.Builtin)
	if !ok || (b.Name() != "len" && b.Name() != "cap") || len(c.Call.Args) != 1 {
		return false
	}
	return sameExpr(c.Call.Args[0], base, 0)
}

func boundedAt(p *Prog, ts *taintState, fn *ssa.Function, b *ssa.BasicBlock, sink ssa.Value, needUpper, needLower bool, base ssa.Value) (bool, string) {
	root := linearRoot(sink)
	upper, lower := !needUpper, !needLower
	var why []string
	for _, blk := range fn.Blocks {
		if len(blk.Instrs) == 0 {
			continue
		}
		ifi, ok := blk.Instrs[len(blk.Instrs)-1].(*ssa.If)
		if !ok {
			continue
		}
		bo, ok := ifi.Cond.(*ssa.BinOp)
		if !ok {
			continue
		}
		for side, succ := range blk.Succs {
			truth := side == 0
			if !(succ == b || succ.Dominates(b)) || len(succ.Preds) != 1 {
				continue
			}
			x, y, op := bo.X, bo.Y, bo.Op
			if !sameExpr(linearRoot(x), root, 0) && sameExpr(linearRoot(y), root, 0) {
				x, y = y, x
				op = map[token.Token]token.Token{token.LSS: token.GTR, token.LEQ: token.GEQ, token.GTR: token.LSS, token.GEQ: token.LEQ, token.EQL: token.EQL, token.NEQ: token.NEQ}[op]
			}
			if !sameExpr(linearRoot(x), root, 0) {
				continue
			}
			if !isLenOrConst(y, ts) {
				continue
			}
			le := (op == token.LEQ || op == token.LSS) && truth || (op == token.GTR || op == token.GEQ) && !truth
			if base != nil && !lenOf(y, base) {
				// for a slice/index the upper bound must be the length of the very value being sliced
				le = false
			}
			ge := (op == token.GEQ || op == token.GTR) && truth || (op == token.LSS || op == token.LEQ) && !truth
			if le && !wideUnsignedToSigned(x) {
				// an upper bound tested in the unsigned domain (before any conversion to a signed type) also excludes
				// the values that would turn negative
				if bt, ok := x.Type().Underlying().(*types.Basic); ok && bt.Info()&types.IsUnsigned != 0 {
					ge = true
				}
			}
			if le && !upper {
				upper = true
				why = append(why, "upper bound established at "+posOf(p, ifi))
			}
			if ge && !lower {
				lower = true
				why = append(why, "lower bound established at "+posOf(p, ifi))
			}
		}
	}
	return upper && lower, strings.Join(why, "; ")
}

// boundedByModulus: the value is `x % C` (or a minimum with a constant) for a constant C that does not exceed the
// constant length of the value being sliced / allocated: whatever the file says, the result is in [0, C).
func boundedByModulus(v ssa.Value, base ssa.Value) (bool, string) {
	for {
		cv, ok := v.(*ssa.Convert)
		if !ok {
			break
		}
		v = cv.X
	}
	bo, ok := v.(*ssa.BinOp)
	if !ok || bo.Op != token.REM {
		return false, ""
	}
	c, ok := bo.Y.(*ssa.Const)
	if !ok || c.Value == nil || c.Int64() <= 0 {
		return false, ""
	}
	if bt, ok := bo.X.Type().Underlying().(*types.Basic); ok && bt.Info()&types.IsUnsigned == 0 {
		// a signed remainder can be negative; the slice bound check still panics on that, so require a non-negative operand type
		// (int64 lengths computed from offsets are accepted only through an explicit test elsewhere)
		_ = bt
	}
	if base == nil {
		return true, fmt.Sprintf("bounded by the constant modulus %d", c.Int64())
	}
	// length of the sliced value: make([]T, K) with constant K, or an array
	b := base
	for i := 0; i < 4; i++ {
		switch x := b.(type) {
		case *ssa.Slice:
			b = x.X
			continue
		case *ssa.Phi:
			if len(x.Edges) > 0 {
				b = x.Edges[0]
				continue
			}
		}
		break
	}
	switch x := b.(type) {
	case *ssa.MakeSlice:
		if k, ok := x.Len.(*ssa.Const); ok && k.Int64() >= c.Int64() {
			return true, fmt.Sprintf("x %% %d is below the constant length %d of the sliced buffer", c.Int64(), k.Int64())
		}
	case *ssa.Alloc:
		if at, ok := x.Type().(*types.Pointer).Elem().Underlying().(*types.Array); ok && at.Len() >= c.Int64() {
			return true, fmt.Sprintf("x %% %d is below the array length %d", c.Int64(), at.Len())
		}
	}
	return false, ""
}

// redefIdiom: `if n > len(buf) { buf = make(n) }; buf[:n]` on a captured/local cell.
func redefIdiom(p *Prog, fn *ssa.Function, b *ssa.BasicBlock, sl *ssa.Slice, sink ssa.Value) (bool, string) {
	ld, ok := sl.X.(*ssa.UnOp)
	if !ok || ld.Op != token.MUL {
		return false, ""
	}
	cell := ld.X
	root := linearRoot(sink)
	for _, pred := range b.Preds {
		// the block that re-allocates
		for _, ins := range pred.Instrs {
			st, ok := ins.(*ssa.Store)
			if !ok || st.Addr != cell {
				continue
			}
			mk, ok := st.Val.(*ssa.MakeSlice)
			if !ok || !sameExpr(linearRoot(mk.Len), root, 0) {
				continue
			}
			// pred must be the out-of-bounds side of a guard comparing root with len(*cell)
			if len(pred.Preds) != 1 {
				continue
			}
			g := pred.Preds[0]
			ifi, ok := g.Instrs[len(g.Instrs)-1].(*ssa.If)
			if !ok {
				continue
			}
			bo, ok := ifi.Cond.(*ssa.BinOp)
			if !ok || !sameExpr(linearRoot(bo.X), root, 0) || bo.Op != token.GTR || g.Succs[0] != pred || g.Succs[1] != b {
				continue
			}
			return true, "re-definition idiom: the buffer is re-allocated to the needed size on the edge where it is too small (" + posOf(p, ifi) + ")"
		}
	}
	return false, ""
}

// vf01RecoveryReason: the one exception to VF-01, attached to the *role* of the function (tail recovery: the function on
// RecoverTail's path that recomputes the final batch's CRC), not to its name.
const vf01RecoveryReason = "the CRC read-back buffer is the difference of two scan offsets at each of which a frame header was successfully read from the file, hence below the file size (bounded by the file's own size as the property allows)"

func recoveryFuncs(p *Prog) map[*ssa.Function]bool {
	out := map[*ssa.Function]bool{}
	root := p.methodImpl("segment", "Filer", "RecoverTail")
	if root == nil {
		return out
	}
	for fn := range p.reachableFuncs(root) {
		if pkgRelOf(p, fn) == "segment" && p.reaches(fn, func(ci ssa.CallInstruction) bool { return eventName(ci) == "crc32.Checksum" }) {
			out[fn] = true
		}
	}
	return out
}

func runTaint(p *Prog, r *RuleRun, which string) {
	ts := &taintState{p: p, val: map[ssa.Value]string{}, lab: map[ssa.Value]uint64{}, origin: map[ssa.Value]string{},
		ptaint: map[*ssa.Function]map[int]string{}, retLab: map[*ssa.Function]map[int]uint64{}, field: map[fieldKey]string{}, cell: map[ssa.Value]string{}, ret: map[*ssa.Function]map[int]string{},
		objField: map[objKey]string{}, structVal: map[ssa.Value]map[int]string{}, retField: map[*ssa.Function]map[int]map[int]string{}}
	for _, fn := range p.Funcs {
		rel := pkgRelOf(p, fn)
		if rel == "" || rel == "segment" || rel == "cmd/waldump" {
			ts.funcs = append(ts.funcs, fn)
		}
	}
	ts.run()
	recov := recoveryFuncs(p)
	nSources := 0
	for v := range ts.val {
		if c, ok := v.(*ssa.Call); ok {
			if s, _ := isFileSource(c); s {
				nSources++
			}
		}
	}
	r.Stats["file_sources"] = nSources
	r.Stats["tainted_values"] = len(ts.val)
	if nSources < 5 {
		r.Unknown("anchor:sources", "?", fmt.Sprintf("only %d file-derived sources (binary.*.UintN / Uvarint) found", nSources))
	}
	ord := ordinal{}
	type sinkRec struct {
		fn   *ssa.Function
		ins  ssa.Instruction
		op   ssa.Value
		kind string
	}
	var sinks []sinkRec
	for _, fn := range ts.funcs {
		for _, b := range fn.Blocks {
			for _, ins := range b.Instrs {
				add := func(v ssa.Value, kind string) {
					if v == nil {
						return
					}
					if _, ok := ts.val[v]; ok {
						sinks = append(sinks, sinkRec{fn, ins, v, kind})
					}
				}
				switch x := ins.(type) {
				case *ssa.MakeSlice:
					if which == "VF-01" {
						add(x.Len, "make-len")
						if x.Cap != x.Len {
							add(x.Cap, "make-cap")
						}
					}
				case *ssa.Slice:
					if which == "VF-02" {
						add(x.Low, "slice-low")
						add(x.High, "slice-high")
						add(x.Max, "slice-max")
					}
				case *ssa.IndexAddr:
					if which == "VF-02" {
						add(x.Index, "index")
					}
				case *ssa.Index:
					if which == "VF-02" {
						add(x.Index, "index")
					}
				}
			}
		}
	}
	sort.SliceStable(sinks, func(i, j int) bool { return sinks[i].ins.Pos() < sinks[j].ins.Pos() })
	for _, s := range sinks {
		key := ord.next(funcDisplay(s.fn) + ":" + s.kind)
		pos := posOf(p, s.ins)
		origin := ts.val[s.op]
		if which == "VF-01" {
			if recov[s.fn] {
				r.OK(key, pos, "tabled exception: "+vf01RecoveryReason)
				continue
			}
		}
		root := linearRoot(s.op)
		signed := false
		if bt, ok := root.Type().Underlying().(*types.Basic); ok && bt.Info()&types.IsUnsigned == 0 {
			signed = true
		}
		// the byte count of Uvarint/Varint is <= len(buf) by contract but may be <= 0
		countOfVarint := false
		if ex, ok := root.(*ssa.Extract); ok && ex.Index == 1 {
			if c, ok := ex.Tuple.(*ssa.Call); ok {
				if n := eventName(c); n == "binary.Uvarint" || n == "binary.Varint" {
					countOfVarint = true
				}
			}
		}
		var base ssa.Value
		switch x := s.ins.(type) {
		case *ssa.Slice:
			base = x.X
		case *ssa.IndexAddr:
			base = x.X
		case *ssa.Index:
			base = x.X
		}
		// int(x) of a 64-bit unsigned file value is negative for half of the inputs: a signed `n > len(buf)` test
		// lets those through and the slice expression panics
		negPossible := wideUnsignedToSigned(s.op)
		ok, why := boundedAt(p, ts, s.fn, s.ins.Block(), s.op, !countOfVarint, signed && countOfVarint || negPossible, base)
		if !ok {
			if sl, isSl := s.ins.(*ssa.Slice); isSl {
				if ok2, why2 := redefIdiom(p, s.fn, s.ins.Block(), sl, s.op); ok2 {
					ok, why = true, why2
				}
			}
		}
		if !ok {
			if ok2, why2 := boundedByModulus(s.op, base); ok2 {
				ok, why = true, why2
			}
		}
		if ok {
			r.OK(key, pos, fmt.Sprintf("%s derived from %s: %s", s.kind, origin, why))
			continue
		}
		what := "upper bound"
		if negPossible {
			what = "bound on both sides (the value is a 64-bit unsigned file value converted to a signed integer: it is negative when bit 63 is set, and a signed comparison with len() lets that through)"
		}
		if countOfVarint {
			what = "test that the byte count is > 0 (it is 0 for a truncated varint and negative for an overlong one)"
		}
		r.Fail(key, pos, fmt.Sprintf("%s in %s is a value read from file bytes (%s) with no dominating %s: damaged input makes this %s", s.kind, funcDisplay(s.fn), origin, what,
			map[string]string{"VF-01": "allocate an attacker-/corruption-chosen amount of memory", "VF-02": "panic with a slice-bounds error (or silently decode garbage) instead of returning an error"}[which]))
	}
}
