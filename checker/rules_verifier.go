package main

import (
	"fmt"
	"go/token"
	"go/types"
	"sort"
	"strings"

	"golang.org/x/tools/go/ssa"
)

func init() {
	register(&Rule{ID: "VF-04", Title: "the verifier's chained hash covers Index, Term, Type, Data and Extensions",
		Props: []string{"C17"}, Floor: 5, Run: runVF04})
	register(&Rule{ID: "VF-08", Title: "verifier pass-through: one call of the same-named inner method with the parameters in order, results returned unchanged",
		Props: []string{"C18"}, Floor: 5, Run: runVF08})
	register(&Rule{ID: "VF-09", Title: "the verifier writes only a leader checkpoint's empty Extensions, in the caller's entry; foreign extensions are refused",
		Props: []string{"C18", "C17"}, Floor: 2, Run: runVF09})
	register(&Rule{ID: "ORD-24", Title: "verifier bookkeeping order: state and hand-off only after the inner store accepted the batch; first-index before reading; one report per received checkpoint; counters only after the inner store accepted the batch",
		Props: []string{"C16", "C18", "C20", "C17"}, Floor: 4, Run: runORD24})
	register(&Rule{ID: "ORD-25", Title: "appends never block on the reporter: non-blocking hand-off with the drop counted, callback never on the append path",
		Props: []string{"C18"}, Floor: 3, Run: runORD25})
}

func verifierInnerField(p *Prog) *types.Var {
	n := p.NamedType("verifier", "LogStore")
	return fieldWhere(n, "s", func(f *types.Var) bool { return f.Type().String() == "github.com/hashicorp/raft.LogStore" })
}

// ---------------------------------------------------------------- VF-04

func runVF04(p *Prog, r *RuleRun) {
	// the single function that calls fnv1a.*
	var hashFn *ssa.Function
	n := 0
	for _, fn := range p.Funcs {
		if pkgRelOf(p, fn) != "verifier" {
			continue
		}
		for _, b := range fn.Blocks {
			for _, ins := range b.Instrs {
				if ci, ok := ins.(ssa.CallInstruction); ok && strings.HasPrefix(eventName(ci), "fnv1a.") {
					if hashFn != fn {
						n++
					}
					hashFn = fn
				}
			}
		}
	}
	if hashFn == nil || n != 1 {
		r.Unknown("anchor:hash-function", "?", fmt.Sprintf("expected exactly one verifier function calling fnv1a.*, found %d", n))
		return
	}
	// chain: every fnv call's accumulator derives from the parameter or a previous fnv call; the return derives from the chain
	covered := map[string]bool{}
	chained := true
	var retVals []ssa.Value
	for _, b := range hashFn.Blocks {
		for _, ins := range b.Instrs {
			switch x := ins.(type) {
			case *ssa.Call:
				if !strings.HasPrefix(eventName(x), "fnv1a.") || len(x.Call.Args) != 2 {
					continue
				}
				if _, isConst := x.Call.Args[0].(*ssa.Const); isConst {
					chained = false
				}
				if f := hashedField(x.Call.Args[1], 0); f != "" {
					// the call's result must flow to the return
					if flowsToReturn(x, map[ssa.Value]bool{}) {
						covered[f] = true
					}
				}
			case *ssa.Return:
				retVals = append(retVals, x.Results...)
			}
		}
	}
	pos := p.Position(hashFn.Pos())
	r.Check(chained, funcDisplay(hashFn)+":chained", pos, "every fnv1a step continues the running sum (no step restarts from a constant)", "a hashing step starts from a constant instead of the running sum: earlier fields/entries no longer influence the checksum")
	// every return yields the chained hash; the only place where an entry may be left out (or the chain restarted)
	// is the very first index of the log, where nothing precedes it in any range: such a return must be
	// dominated by the `Index == 1` edge
	live := liveBlocks(hashFn)
	nUnhashed := 0
	for _, b := range hashFn.Blocks {
		ret, ok := b.Instrs[len(b.Instrs)-1].(*ssa.Return)
		if !ok || !live[b] || len(ret.Results) != 1 {
			continue
		}
		if derivesFromCall(ret.Results[0], func(c *ssa.Call) bool { return strings.HasPrefix(eventName(c), "fnv1a.") }) {
			continue
		}
		nUnhashed++
		guarded := false
		for _, g := range hashFn.Blocks {
			ifi, ok := g.Instrs[len(g.Instrs)-1].(*ssa.If)
			if !ok {
				continue
			}
			bo, ok := ifi.Cond.(*ssa.BinOp)
			if !ok || (bo.Op != token.EQL && bo.Op != token.NEQ) {
				continue
			}
			x, y := bo.X, bo.Y
			if _, isC := x.(*ssa.Const); isC {
				x, y = y, x
			}
			c, isC := y.(*ssa.Const)
			if !isC || fieldLoadName(x) != "Index" || c.Int64() != 1 {
				continue
			}
			edge := g.Succs[0]
			if bo.Op == token.NEQ {
				edge = g.Succs[1]
			}
			if len(edge.Preds) == 1 && (edge == b || edge.Dominates(b)) {
				guarded = true
			}
		}
		r.Check(guarded, fmt.Sprintf("%s:unhashed-return#%d", funcDisplay(hashFn), nUnhashed), posOf(p, ret),
			"the only return that leaves an entry out of the chain is confined to Index == 1 (nothing precedes it in any range)",
			"the hash routine returns a value that does not come from the fnv chain on a path that is not confined to the log's first index: an entry in the middle of a checkpoint range is left out and the chain restarts there, so a divergence in it or in any entry before it inside the range goes undetected")
	}
	for _, f := range []string{"Index", "Term", "Type", "Data", "Extensions"} {
		r.Check(covered[f], funcDisplay(hashFn)+":covers("+f+")", pos, "raft.Log."+f+" feeds the chained hash that is returned",
			"raft.Log."+f+" does not reach the returned checksum: a divergence in that field is never detected")
	}
}

func hashedField(v ssa.Value, depth int) string {
	if depth > 5 || v == nil {
		return ""
	}
	if n := fieldLoadName(v); n != "" {
		return n
	}
	switch x := v.(type) {
	case *ssa.Convert:
		return hashedField(x.X, depth+1)
	case *ssa.ChangeType:
		return hashedField(x.X, depth+1)
	}
	return ""
}

func flowsToReturn(v ssa.Value, seen map[ssa.Value]bool) bool {
	if seen[v] {
		return false
	}
	seen[v] = true
	refs := v.Referrers()
	if refs == nil {
		return false
	}
	for _, ref := range *refs {
		switch x := ref.(type) {
		case *ssa.Return:
			return true
		case *ssa.Phi:
			if flowsToReturn(x, seen) {
				return true
			}
		case *ssa.Call:
			// as accumulator of the next hashing step
			if len(x.Call.Args) > 0 && x.Call.Args[0] == v && flowsToReturn(x, seen) {
				return true
			}
		}
	}
	return false
}

// ---------------------------------------------------------------- VF-08

func runVF08(p *Prog, r *RuleRun) {
	inner := verifierInnerField(p)
	if inner == nil {
		r.Unknown("anchor", "?", "verifier.LogStore's wrapped raft.LogStore field not found")
		return
	}
	for _, m := range []string{"FirstIndex", "LastIndex", "GetLog", "DeleteRange", "StoreLogs"} {
		fn := p.methodImpl("verifier", "LogStore", m)
		if fn == nil {
			r.Unknown("anchor:"+m, "?", "(*verifier.LogStore)."+m+" not found")
			continue
		}
		var calls []*ssa.Call
		for _, b := range fn.Blocks {
			for _, ins := range b.Instrs {
				if c, ok := ins.(*ssa.Call); ok && c.Call.IsInvoke() && loadedField(c.Call.Value) == inner {
					calls = append(calls, c)
				}
			}
		}
		key := funcDisplay(fn) + ":delegates"
		pos := p.Position(fn.Pos())
		if len(calls) != 1 {
			r.Fail(key, pos, fmt.Sprintf("%s makes %d calls on the wrapped store, want exactly one (%s)", funcDisplay(fn), len(calls), m))
			continue
		}
		c := calls[0]
		ok := c.Call.Method.Name() == m && len(c.Call.Args) == len(fn.Params)-1
		for i, a := range c.Call.Args {
			if ok && a != fn.Params[i+1] {
				ok = false
			}
		}
		if !ok {
			r.Fail(key, posOf(p, c), fmt.Sprintf("%s forwards to %s with arguments that are not its own parameters in order: the middleware is no longer transparent", funcDisplay(fn), c.Call.Method.Name()))
			continue
		}
		// results: every return's values are the call's results (failure path for StoreLogs)
		good := true
		nret := 0
		for _, b := range fn.Blocks {
			for _, ins := range b.Instrs {
				ret, ok := ins.(*ssa.Return)
				if !ok {
					continue
				}
				nret++
				for i, res := range ret.Results {
					switch x := res.(type) {
					case *ssa.Extract:
						if x.Tuple != c || x.Index != i {
							good = false
						}
					case *ssa.Call:
						if x != c && m != "StoreLogs" {
							good = false
						}
					case *ssa.Const:
						// a constant nil error is the inner call's error where that one is known to be nil;
						// beyond that only StoreLogs may return a constant nil (early exit / success after bookkeeping)
						var innerRes ssa.Value = c
						if c.Call.Signature().Results().Len() > 1 {
							innerRes = nil
							for _, ref := range *c.Referrers() {
								if ex, ok := ref.(*ssa.Extract); ok && ex.Index == i {
									innerRes = ex
								}
							}
						}
						if x.IsNil() && innerRes != nil && isErrorType(innerRes.Type()) && nilnessAt(fn, innerRes, b, true) {
							break
						}
						if m != "StoreLogs" || !x.IsNil() {
							good = false
						}
					default:
						// StoreLogs returns wrapped verifier-state errors before the inner call
						if m != "StoreLogs" {
							good = false
						}
					}
				}
			}
		}
		// StoreLogs: the inner error is returned when non-nil
		if m == "StoreLogs" {
			propagated := false
			for _, ref := range *c.Referrers() {
				if bo, ok := ref.(*ssa.BinOp); ok && bo.Op == token.NEQ {
					for _, r2 := range *bo.Referrers() {
						if ifi, ok := r2.(*ssa.If); ok {
							for _, ins := range ifi.Block().Succs[0].Instrs {
								if ret, ok := ins.(*ssa.Return); ok && len(ret.Results) == 1 && ret.Results[0] == c {
									propagated = true
								}
							}
						}
					}
				}
			}
			good = good && propagated
		}
		r.Check(good && nret > 0, key, posOf(p, c), m+" is forwarded with the caller's arguments and its results are returned unchanged",
			funcDisplay(fn)+" does not return the wrapped store's results unchanged")
	}
}

// nilnessAt: is block at dominated by the edge of a test `v ==/!= nil` on which v is nil (wantNil) / non-nil?
func nilnessAt(fn *ssa.Function, v ssa.Value, at *ssa.BasicBlock, wantNil bool) bool {
	for _, b := range fn.Blocks {
		ifi, ok := b.Instrs[len(b.Instrs)-1].(*ssa.If)
		if !ok {
			continue
		}
		bo, ok := ifi.Cond.(*ssa.BinOp)
		if !ok || bo.X != v || (bo.Op != token.NEQ && bo.Op != token.EQL) {
			continue
		}
		if c, ok := bo.Y.(*ssa.Const); !ok || !c.IsNil() {
			continue
		}
		nilEdge, nonNilEdge := b.Succs[0], b.Succs[1]
		if bo.Op == token.NEQ {
			nilEdge, nonNilEdge = nonNilEdge, nilEdge
		}
		edge := nonNilEdge
		if wantNil {
			edge = nilEdge
		}
		if len(edge.Preds) == 1 && edge.Dominates(at) {
			return true
		}
	}
	return false
}

// ---------------------------------------------------------------- VF-09

func runVF09(p *Prog, r *RuleRun) {
	root := p.methodImpl("verifier", "LogStore", "StoreLogs")
	if root == nil {
		r.Unknown("anchor", "?", "(*verifier.LogStore).StoreLogs not found")
		return
	}
	isRaftLogField := func(addr ssa.Value) (string, bool) {
		fa, ok := addr.(*ssa.FieldAddr)
		if !ok {
			return "", false
		}
		if !isNamed(fa.X.Type(), "github.com/hashicorp/raft", "Log") {
			return "", false
		}
		return fieldOfAddr(fa).Name(), true
	}
	uv := p.Func("verifier", "LogStore.updateVerifyState")
	if uv == nil {
		r.Unknown("anchor:updateVerifyState", "?", "not found")
		return
	}
	// Path-sensitive part: walk updateVerifyState (helpers inlined) with two typestates,
	// cp = result of the configured checkpoint predicate, ext = len(log.Extensions) == 0.
	isExtLen := func(v ssa.Value) bool {
		lc, ok := v.(*ssa.Call)
		return ok && isBuiltinCall(lc, "len") && fieldLoadName(lc.Call.Args[0]) == "Extensions"
	}
	visited := map[*ssa.Store]bool{}
	nDecode := 0
	spec := &OrdSpec{Name: "verifier-extensions",
		Call: func(cx *Ctx, ci ssa.CallInstruction) CallInfo {
			cc := ci.Common()
			if _, isB := cc.Value.(*ssa.Builtin); isB {
				return CallInfo{}
			}
			if cc.StaticCallee() == nil && !cc.IsInvoke() {
				if rs := cc.Signature().Results(); rs.Len() == 2 && types.Identical(rs.At(0).Type(), types.Typ[types.Bool]) && isErrorType(rs.At(1).Type()) {
					return CallInfo{Event: "ISCP", Primitive: true}
				}
				return CallInfo{Primitive: true}
			}
			if callee := cc.StaticCallee(); callee != nil && pkgRelOf(p, callee) == "verifier" && cc.Signature().Results().Len() == 3 &&
				len(cc.Args) == 1 && fieldLoadName(cc.Args[0]) == "Extensions" {
				return CallInfo{Event: "DECODE", Primitive: true}
			}
			if callee := cc.StaticCallee(); callee != nil && pkgRelOf(p, callee) != "verifier" {
				return CallInfo{Primitive: true, Infallible: resultErrIndex(cc.Signature()) < 0}
			}
			return CallInfo{}
		},
		Value: func(cx *Ctx, v ssa.Value, f *Fact) (AV, bool) {
			if c, ok := v.(*ssa.Call); ok {
				cc := c.Common()
				if _, isB := cc.Value.(*ssa.Builtin); !isB && cc.StaticCallee() == nil && !cc.IsInvoke() && cc.Signature().Results().Len() == 2 {
					cur := cx.Eval(v, f)
					if cur.K == avTuple && len(cur.Tup) == 2 {
						cur.Tup[0].Tag = "~iscp"
						return cur, true
					}
				}
			}
			return AV{}, false
		},
		OnBranch: func(cx *Ctx, ifi *ssa.If, truth bool, f *Fact) {
			cond := ifi.Cond
			for {
				u, ok := cond.(*ssa.UnOp)
				if !ok || u.Op != token.NOT {
					break
				}
				cond, truth = u.X, !truth
			}
			if cx.Eval(cond, f).Tag == "~iscp" {
				f.TS["cp"] = map[bool]string{true: "yes", false: "no"}[truth]
				return
			}
			bo, ok := cond.(*ssa.BinOp)
			if !ok {
				return
			}
			x, y, op := bo.X, bo.Y, bo.Op
			if isExtLen(y) {
				x, y = y, x
				op = map[token.Token]token.Token{token.LSS: token.GTR, token.GTR: token.LSS, token.LEQ: token.GEQ, token.GEQ: token.LEQ, token.EQL: token.EQL, token.NEQ: token.NEQ}[op]
			}
			c, isC := y.(*ssa.Const)
			if !isExtLen(x) || !isC {
				return
			}
			var emptyWhenTrue bool
			switch {
			case c.Int64() == 0 && (op == token.EQL || op == token.LEQ):
				emptyWhenTrue = true
			case c.Int64() == 0 && (op == token.NEQ || op == token.GTR):
				emptyWhenTrue = false
			case c.Int64() == 1 && op == token.LSS:
				emptyWhenTrue = true
			case c.Int64() == 1 && op == token.GEQ:
				emptyWhenTrue = false
			default:
				return
			}
			now := "nonempty"
			if emptyWhenTrue == truth {
				now = "empty"
			}
			if was := f.TS["ext"]; was != "" && was != now {
				f.TS["infeasible"] = "len(Extensions) tested both ways"
				return
			}
			f.TS["ext"] = now
		},
		Instr: func(cx *Ctx, ins ssa.Instruction, f *Fact) {
			st, ok := ins.(*ssa.Store)
			if !ok {
				return
			}
			fname, ok := isRaftLogField(st.Addr)
			if !ok {
				return
			}
			visited[st] = true
			if f.TS["infeasible"] != "" {
				return
			}
			key := cx.Key(ins, "store(raft.Log."+fname+")")
			if fname != "Extensions" {
				r.Fail(key, posOf(p, st), "the verifier modifies raft.Log."+fname+" of an entry on its way to the store: entries must be stored unchanged")
				return
			}
			r.Check(f.TS["cp"] == "yes" && f.TS["ext"] == "empty", key, posOf(p, st), "Extensions is written only for a checkpoint whose Extensions are empty (the leader's new checkpoint)",
				fmt.Sprintf("the verifier overwrites raft.Log.Extensions outside the only allowed case (is-checkpoint=%q, len(Extensions)==0: %q): replicated or foreign extension data would be clobbered; path: %s", f.TS["cp"], f.TS["ext"], trace(f)))
			// the stamp goes into the caller's entry, not into a copy: raft replicates the very structs it handed to
			// StoreLogs (its LogCache keeps those pointers), and a follower tells "leader wrote metadata" from
			// "I am the leader" by len(Extensions) alone
			if fa, ok := st.Addr.(*ssa.FieldAddr); ok {
				base := fa.X
				for {
					if phi, ok := base.(*ssa.Phi); ok && len(phi.Edges) > 0 {
						base = phi.Edges[0]
						continue
					}
					break
				}
				_, isCopy := base.(*ssa.Alloc)
				r.Check(!isCopy, key+":target", posOf(p, st), "the metadata is written into the entry the caller passed in (what raft replicates)",
					"the verification metadata is written into a local copy of the checkpoint entry: the entry the caller keeps (and raft's log cache replicates to followers) has empty Extensions, so a follower fed from it takes itself for the leader and verifies the range against its own sum - in-flight corruption goes unreported")
			}
			if f.TS["cp"] == "yes" && f.TS["ext"] == "empty" {
				f.TS["stamped"] = "1"
				f.TS["ext"] = "nonempty" // it now carries the metadata
			}
		},
		OnEvent: func(cx *Ctx, ev, phase string, ins ssa.Instruction, f *Fact) {
			if ev == "DECODE" && f.TS["infeasible"] == "" {
				switch phase {
				case "call":
					nDecode++
					r.Check(f.TS["cp"] == "yes" && f.TS["ext"] == "nonempty", cx.Key(ins, "decode"), posOf(p, ins), "the replicated metadata is decoded only for a checkpoint that carries Extensions",
						fmt.Sprintf("checkpoint metadata is decoded outside the follower case (is-checkpoint=%q, Extensions %q)", f.TS["cp"], f.TS["ext"]))
				case "fail":
					f.TS["decodefail"] = "1"
				}
			}
		},
		OnReturn: func(cx *Ctx, ret *ssa.Return, class RetClass, f *Fact) {
			key := cx.Key(ret, "return")
			switch {
			case f.TS["infeasible"] != "":
			case f.TS["decodefail"] == "1":
				r.Check(class == RetFailure, key, posOf(p, ret), "a checkpoint whose Extensions cannot be decoded as verifier metadata is refused with an error",
					"the error of decoding a checkpoint's non-empty Extensions is not returned on this path: foreign extension data is silently treated as a checkpoint; path: "+trace(f))
			case class == RetSuccess && f.TS["cp"] == "yes" && (f.TS["ext"] == "empty" || f.TS["stamped"] == "1"):
				r.Check(f.TS["stamped"] == "1", key, posOf(p, ret), "the leader's new checkpoint receives its verification metadata",
					"a new checkpoint (empty Extensions) is accepted without the verification metadata being written to its Extensions: followers cannot verify the range; path: "+trace(f))
			}
		}}
	eng := newOrdEngine(p, spec)
	if len(eng.RunRoot(uv, nil)) == 0 {
		r.Unknown("root", p.Position(uv.Pos()), "no exit reached")
	}
	finishEngine(r, eng)
	if nDecode == 0 {
		r.Fail(funcDisplay(uv)+":foreign-extensions", p.Position(uv.Pos()), "a follower never decodes the checkpoint metadata carried in Extensions")
	}
	// Sweep: no other store to a raft.Log field anywhere on the StoreLogs path of the verifier
	ord := ordinal{}
	for fn := range p.reachableFuncs(root) {
		if pkgRelOf(p, fn) != "verifier" {
			continue
		}
		for _, b := range fn.Blocks {
			for _, ins := range b.Instrs {
				st, ok := ins.(*ssa.Store)
				if !ok || visited[st] {
					continue
				}
				if fname, ok := isRaftLogField(st.Addr); ok {
					r.Fail(ord.next(funcDisplay(fn)+":stray-store(raft.Log."+fname+")"), posOf(p, st), "the verifier writes raft.Log."+fname+" outside the checked checkpoint-stamping path")
				}
			}
		}
	}
	if len(visited) == 0 {
		r.Fail(funcDisplay(root)+":store(raft.Log.Extensions)", p.Position(root.Pos()), "the leader's checkpoint never receives its verification metadata")
	}
}

// ---------------------------------------------------------------- ORD-24

func runORD24(p *Prog, r *RuleRun) {
	sumF := p.Field("verifier", "LogStore", "checksum")
	startF := p.Field("verifier", "LogStore", "sumStartIdx")
	sl := p.methodImpl("verifier", "LogStore", "StoreLogs")
	vf := p.Func("verifier", "LogStore.verify")
	if sumF == nil || startF == nil || sl == nil || vf == nil {
		r.Unknown("anchor", "?", "verifier anchors not found")
		return
	}
	var goFn *ssa.Function
	if nl := p.Func("verifier", "NewLogStore"); nl != nil {
		for _, b := range nl.Blocks {
			for _, ins := range b.Instrs {
				if g, ok := ins.(*ssa.Go); ok {
					goFn = g.Call.StaticCallee()
				}
			}
		}
	}
	call := func(cx *Ctx, ci ssa.CallInstruction) CallInfo {
		n := eventName(ci)
		switch n {
		case "raft.LogStore.StoreLogs", "raft.LogStore.FirstIndex", "raft.LogStore.GetLog":
			return CallInfo{Event: n, Primitive: true}
		}
		if atomicWriteFuncs[n] && len(ci.Common().Args) > 0 {
			switch fieldOfAddr(ci.Common().Args[0]) {
			case sumF:
				return CallInfo{Event: "SUM.Store", Primitive: true}
			case startF:
				return CallInfo{Event: "START.Store", Primitive: true}
			}
		}
		cc := ci.Common()
		if cc.StaticCallee() == nil && !cc.IsInvoke() {
			if _, isB := cc.Value.(*ssa.Builtin); !isB && isReportFnLoad(cc.Value) {
				return CallInfo{Event: "REPORT", Primitive: true}
			}
		}
		if n == "metrics.Collector.IncrementCounter" && len(cc.Args) > 0 {
			name, _ := constStringOf(cc.Args[0])
			return CallInfo{Event: "COUNT(" + name + ")", Primitive: true}
		}
		return CallInfo{}
	}
	spec := &OrdSpec{Name: "verifier-order", Call: call,
		Instr: func(cx *Ctx, ins ssa.Instruction, f *Fact) {
			switch x := ins.(type) {
			case *ssa.Select:
				for _, st := range x.States {
					if st.Dir == types.SendOnly && isVerifyChLoad(st.Chan) {
						cx.E.emit(cx, "HANDOFF", "", ins, f)
					}
				}
			case *ssa.Send:
				if isVerifyChLoad(x.Chan) {
					cx.E.emit(cx, "HANDOFF", "", ins, f)
				}
			case *ssa.UnOp:
				if x.Op == token.ARROW && isVerifyChLoad(x.X) {
					cx.E.emit(cx, "RECV", "", ins, f)
				}
			}
		},
		OnEvent: func(cx *Ctx, ev, phase string, ins ssa.Instruction, f *Fact) {
			root := cx.Fr.Root().Fn
			switch {
			case root == sl && (ev == "SUM.Store" || ev == "START.Store" || ev == "HANDOFF") && (phase == "call" || phase == ""):
				r.Check(f.Must["raft.LogStore.StoreLogs:ok"], cx.Key(ins, ev), posOf(p, ins), ev+" only after the wrapped store accepted the batch",
					"the verifier commits its running checksum / hands a checkpoint to the background verifier before the wrapped StoreLogs succeeded: a failed append leaves the sum covering entries that were never stored (false alarm on the next checkpoint) or verifies entries that are not there; path: "+trace(f))
			case root == sl && strings.HasPrefix(ev, "COUNT(") && phase == "call":
				r.Check(f.Must["raft.LogStore.StoreLogs:ok"], cx.Key(ins, ev), posOf(p, ins), "the verifier counts checkpoints / drops of a batch only after the wrapped store accepted it",
					"the verifier increments "+ev+" before the wrapped StoreLogs succeeded: a batch that is refused or fails is counted although it produces neither a report nor a counted drop (checkpoints_written = ranges_verified + dropped_reports no longer holds; a retried batch is counted twice); path: "+trace(f))
			case root == vf && ev == "raft.LogStore.GetLog" && phase == "call":
				r.Check(f.Must["raft.LogStore.FirstIndex:ok"], cx.Key(ins, ev), posOf(p, ins), "the range is read only after FirstIndex succeeded (range check possible)",
					"the verifier reads back the range without a successful FirstIndex check before it: a truncated range is reported as corruption instead of ErrRangeMismatch")
			case root == goFn && ev == "REPORT" && phase == "call":
				switch f.TS["rep"] {
				case "":
					f.TS["rep"] = "1"
				default:
					f.TS["rep"] = "many"
				}
			case root == goFn && ev == "RECV":
				if f.TS["iter"] == "1" {
					r.Check(f.TS["rep"] == "1", funcDisplay(goFn)+":one-report-per-checkpoint", posOf(p, ins), "exactly one report callback between two receives",
						fmt.Sprintf("between receiving a checkpoint and waiting for the next one the report callback runs %q times (want exactly once): reports are lost or duplicated", orDefault(f.TS["rep"], "0")))
				}
				f.TS["iter"] = "1"
				delete(f.TS, "rep")
				f.Must, f.May = tokset{}, tokset{}
			}
		}}
	eng := newOrdEngine(p, spec)
	eng.RunRoot(sl, nil)
	eng.RunRoot(vf, nil)
	if goFn != nil {
		eng.RunRoot(goFn, nil)
	} else {
		r.Fail("verifier.NewLogStore:go", "?", "NewLogStore starts no background verifier goroutine")
	}
	finishEngine(r, eng)
}

// ---------------------------------------------------------------- ORD-25

func runORD25(p *Prog, r *RuleRun) {
	sl := p.methodImpl("verifier", "LogStore", "StoreLogs")
	if sl == nil {
		r.Unknown("anchor", "?", "(*verifier.LogStore).StoreLogs not found")
		return
	}
	nSel := 0
	for fn := range p.reachableFuncs(sl) {
		if pkgRelOf(p, fn) != "verifier" {
			continue
		}
		var bad []string
		for _, b := range fn.Blocks {
			for _, ins := range b.Instrs {
				switch x := ins.(type) {
				case *ssa.Send:
					bad = append(bad, "blocking channel send at "+posOf(p, x))
				case *ssa.UnOp:
					if x.Op == token.ARROW {
						bad = append(bad, "blocking channel receive at "+posOf(p, x))
					}
				case *ssa.Select:
					if x.Blocking {
						bad = append(bad, "blocking select at "+posOf(p, x))
						continue
					}
					nSel++
					key := funcDisplay(fn) + ":hand-off"
					okShape := len(x.States) == 1 && x.States[0].Dir == types.SendOnly && isVerifyChLoad(x.States[0].Chan)
					counted := false
					for _, b2 := range fn.Blocks {
						for _, i2 := range b2.Instrs {
							if c, ok := i2.(ssa.CallInstruction); ok && eventName(c) == "metrics.Collector.IncrementCounter" {
								if s, ok := constStringOf(c.Common().Args[0]); ok && s == "dropped_reports" && b2 != x.Block() {
									counted = true
								}
							}
						}
					}
					r.Check(okShape && counted, key, posOf(p, x), "non-blocking select with the send arm only; the default arm counts dropped_reports",
						fmt.Sprintf("the hand-off to the background verifier is not `select { case ch <- r: default: dropped_reports++ }` (single send arm: %v, drop counted: %v)", okShape, counted))
				case ssa.CallInstruction:
					n := eventName(x)
					if n == "sync.WaitGroup.Wait" || n == "sync.Cond.Wait" || n == "time.Sleep" {
						bad = append(bad, n+" at "+posOf(p, ins))
					}
					cc := x.Common()
					if cc.StaticCallee() == nil && !cc.IsInvoke() {
						if _, isB := cc.Value.(*ssa.Builtin); !isB && isReportFnLoad(cc.Value) {
							bad = append(bad, "the report callback is called at "+posOf(p, ins))
						}
					}
				}
			}
		}
		r.Check(len(bad) == 0, funcDisplay(fn)+":non-blocking", p.Position(fn.Pos()), "nothing on the append path can wait for the reporter",
			"on the verifier's StoreLogs path: "+strings.Join(bad, "; ")+" — a slow or blocked report callback would stall raft's appends")
	}
	if nSel == 0 {
		r.Fail(funcDisplay(sl)+":hand-off", p.Position(sl.Pos()), "StoreLogs never hands a checkpoint to the background verifier through a non-blocking select")
	}
}

// ---------------------------------------------------------------- VF-21

func init() {
	register(&Rule{ID: "VF-21", Title: "every checkpoint of a batch is handed to the background verifier (reports are accumulated, not overwritten)",
		Props: []string{"C18"}, Floor: 2, Run: runVF21})
}

func runVF21(p *Prog, r *RuleRun) {
	sl := p.methodImpl("verifier", "LogStore", "StoreLogs")
	if sl == nil {
		r.Unknown("anchor", "?", "(*verifier.LogStore).StoreLogs not found")
		return
	}
	isReportPtr := func(t types.Type) bool {
		pt, ok := t.(*types.Pointer)
		return ok && isNamed(pt.Elem(), ModPath+"/verifier", "VerificationReport")
	}
	// the per-entry report: a pointer-to-report result of a verifier helper called in the entry loop.
	// StoreLogs may do the bookkeeping itself or in helpers: each function on its path that receives such a
	// report must accumulate it (append), hand it off inside the loop, or pass it on to its own caller.
	cands := []*ssa.Function{sl}
	for fn := range p.reachableFuncs(sl) {
		if fn != sl && pkgRelOf(p, fn) == "verifier" {
			cands = append(cands, fn)
		}
	}
	isHandoff := func(fn *ssa.Function) bool {
		if fn == nil {
			return false
		}
		for _, b := range fn.Blocks {
			for _, ins := range b.Instrs {
				if s, ok := ins.(*ssa.Select); ok {
					for _, st := range s.States {
						if st.Dir == types.SendOnly && isVerifyChLoad(st.Chan) {
							return true
						}
					}
				}
			}
		}
		return false
	}
	pos := p.Position(sl.Pos())
	nSources := 0
	accumulated, direct, looped := false, false, false
	var lost []string
	for _, fn := range cands {
		var reports []ssa.Value
		for _, b := range fn.Blocks {
			for _, ins := range b.Instrs {
				ex, ok := ins.(*ssa.Extract)
				if !ok || !isReportPtr(ex.Type()) {
					continue
				}
				if c, ok := ex.Tuple.(*ssa.Call); ok && c.Call.StaticCallee() != nil && pkgRelOf(p, c.Call.StaticCallee()) == "verifier" {
					reports = append(reports, ex)
				}
			}
		}
		isReport := func(v ssa.Value) bool {
			for _, rep := range reports {
				if v == rep {
					return true
				}
				// through the result-parameter cell / a phi of the loop
				if phi, ok := v.(*ssa.Phi); ok {
					for _, e := range phi.Edges {
						if e == rep {
							return true
						}
					}
				}
			}
			return false
		}
		nSources += len(reports)
		fnAcc, fnDirect, fnPass := false, false, false
		for _, b := range fn.Blocks {
			for _, ins := range b.Instrs {
				switch c := ins.(type) {
				case *ssa.Call:
					if isBuiltinCall(c, "append") {
						sli, ok := c.Call.Args[1].(*ssa.Slice)
						if !ok {
							continue
						}
						arr, ok := sli.X.(*ssa.Alloc)
						if !ok {
							continue
						}
						for _, ref := range *arr.Referrers() {
							ia, ok := ref.(*ssa.IndexAddr)
							if !ok {
								continue
							}
							for _, r2 := range *ia.Referrers() {
								st, ok := r2.(*ssa.Store)
								if !ok {
									continue
								}
								val := st.Val
								if u, ok := val.(*ssa.UnOp); ok && u.Op == token.MUL {
									val = u.X
								}
								if isReport(val) {
									fnAcc = true
								}
							}
						}
						continue
					}
					if !isHandoff(c.Call.StaticCallee()) {
						continue
					}
					if reachesBlock(b, b) {
						looped = true
					}
					for _, a := range c.Call.Args {
						if u, ok := a.(*ssa.UnOp); ok && u.Op == token.MUL && isReport(u.X) && reachesBlock(b, b) {
							fnDirect = true
						}
					}
				case *ssa.Return:
					for _, res := range c.Results {
						if isReport(res) {
							fnPass = true
						}
					}
				case *ssa.Store:
					// named result cell of a function that passes the report on
					if al, ok := c.Addr.(*ssa.Alloc); ok && isReport(c.Val) && isReportPtr(al.Type().(*types.Pointer).Elem()) {
						for _, rb := range fn.Blocks {
							if ret, ok := rb.Instrs[len(rb.Instrs)-1].(*ssa.Return); ok {
								for _, res := range ret.Results {
									if u, ok := res.(*ssa.UnOp); ok && u.X == al {
										fnPass = true
									}
								}
							}
						}
					}
				}
			}
		}
		accumulated = accumulated || fnAcc
		direct = direct || fnDirect
		if len(reports) > 0 && !fnAcc && !fnDirect && !fnPass {
			lost = append(lost, funcDisplay(fn))
		}
	}
	if nSources == 0 {
		r.Unknown(funcDisplay(sl)+":report-source", pos, "no per-entry verification report found on the StoreLogs path")
		return
	}
	sort.Strings(lost)
	if len(lost) > 0 {
		accumulated, direct = false, false
	}
	r.Check(accumulated || (direct && looped), funcDisplay(sl)+":reports-accumulated", pos, "each checkpoint's report is appended to the batch's list (or handed off inside the entry loop)",
		strings.Join(lost, ", ")+": the per-entry verification report is kept in a single variable that later checkpoints of the same batch overwrite: only the last checkpoint of a batch is handed to the verifier, earlier ones are neither verified nor counted as dropped")
	r.Check(looped, funcDisplay(sl)+":handoff-per-report", pos, "the hand-off runs once per accumulated report (inside a loop)",
		"the hand-off to the background verifier is not performed per report: a batch with several checkpoints produces a single hand-off")
}

// isVerifyChLoad: v is a load of the verifier's hand-off channel (the struct field of type chan VerificationReport).
func isVerifyChLoad(v ssa.Value) bool {
	u, ok := v.(*ssa.UnOp)
	if !ok || u.Op != token.MUL {
		return false
	}
	f := fieldOfAddr(u.X)
	if f == nil {
		return false
	}
	ch, ok := f.Type().Underlying().(*types.Chan)
	return ok && strings.HasSuffix(ch.Elem().String(), "verifier.VerificationReport")
}

// isReportFnLoad: v is a load of the verifier's report callback (the struct field of the ReportFn function type).
func isReportFnLoad(v ssa.Value) bool {
	u, ok := v.(*ssa.UnOp)
	if !ok || u.Op != token.MUL {
		return false
	}
	f := fieldOfAddr(u.X)
	if f == nil {
		return false
	}
	sig, ok := f.Type().Underlying().(*types.Signature)
	return ok && sig.Params().Len() == 1 && strings.HasSuffix(sig.Params().At(0).Type().String(), "verifier.VerificationReport") && sig.Results().Len() == 0
}
