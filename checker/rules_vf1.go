package main

import (
	"fmt"
	"go/token"
	"go/types"
	"strings"

	"golang.org/x/tools/go/ssa"
)

func init() {
	register(&Rule{ID: "VF-05", Title: "a new segment records the configured codec's ID",
		Props: []string{"C12"}, Floor: 1, Run: runVF05})
	register(&Rule{ID: "VF-17", Title: "lookups are bounded by the snapshot's current indexes, not by construction-time copies",
		Props: []string{"C05"}, Floor: 2, Run: runVF17})
	register(&Rule{ID: "VF-18", Title: "the verifier's running checksum follows every mutation of the wrapped log",
		Props: []string{"C16", "C17"}, Floor: 2, Run: runVF18})
	register(&Rule{ID: "VF-10", Title: "the empty-log sentinel 0 is guarded before unsigned subtraction and before it becomes a GetLog index",
		Props: []string{"C19", "C20"}, Floor: 3, Run: runVF10})
}

// ---------------------------------------------------------------- VF-05

func runVF05(p *Prog, r *RuleRun) {
	codecF := p.Field("types", "SegmentInfo", "Codec")
	walCodec := p.Field("", "WAL", "codec")
	if codecF == nil || walCodec == nil {
		r.Unknown("anchor", "?", "types.SegmentInfo.Codec / wal.WAL.codec not found")
		return
	}
	ord := ordinal{}
	for _, fn := range p.Funcs {
		if pkgRelOf(p, fn) != "" {
			continue
		}
		for _, b := range fn.Blocks {
			for _, ins := range b.Instrs {
				st, ok := ins.(*ssa.Store)
				if !ok || fieldOfAddr(st.Addr) != codecF {
					continue
				}
				key := ord.next(funcDisplay(fn) + ":store(SegmentInfo.Codec)")
				good := false
				if c, ok := st.Val.(*ssa.Call); ok && c.Call.IsInvoke() && c.Call.Method.Name() == "ID" && loadedField(c.Call.Value) == walCodec {
					good = true
				}
				r.Check(good, key, posOf(p, ins), "recorded codec is w.codec.ID(), the value Open compares persisted segments against",
					fmt.Sprintf("a new segment records codec %s instead of the configured codec's ID(): a WAL created with a custom codec writes segments Open later refuses (\"unknown codec\"), so it cannot be reopened with that same codec", strings.TrimSpace(st.Val.String())))
			}
		}
	}
}

// ---------------------------------------------------------------- VF-17

func runVF17(p *Prog, r *RuleRun) {
	v := newWalVocab(p)
	root := p.Func("", "WAL.GetLog")
	minF := p.Field("types", "SegmentInfo", "MinIndex")
	maxF := p.Field("types", "SegmentInfo", "MaxIndex")
	if !checkWalAnchors(r, v, map[string]*ssa.Function{"GetLog": root}) || minF == nil || maxF == nil {
		return
	}
	firstFn, lastFn := p.Func("", "state.firstIndex"), p.Func("", "state.lastIndex")
	// kind of snapshot bound a value is: "min" (MinIndex / firstIndex()), "max" (MaxIndex / lastIndex()) or ""
	var boundKind func(val ssa.Value, depth int) string
	boundKind = func(val ssa.Value, depth int) string {
		if depth > 5 || val == nil {
			return ""
		}
		switch x := val.(type) {
		case *ssa.UnOp:
			if x.Op == token.MUL {
				switch fieldOfAddr(x.X) {
				case minF:
					return "min"
				case maxF:
					return "max"
				}
			}
		case *ssa.Field:
			switch fieldOfAddr(x) {
			case minF:
				return "min"
			case maxF:
				return "max"
			}
			return boundKind(x.X, depth+1)
		case *ssa.Call:
			if c := x.Call.StaticCallee(); c != nil {
				if c == firstFn {
					return "min"
				}
				if c == lastFn {
					return "max"
				}
			}
		case *ssa.Phi:
			for _, e := range x.Edges {
				if k := boundKind(e, depth+1); k != "" {
					return k
				}
			}
		}
		return ""
	}
	spec := v.baseSpec("lookup-bounds")
	spec.OnBranch = func(cx *Ctx, ifi *ssa.If, truth bool, f *Fact) {
		bo, ok := ifi.Cond.(*ssa.BinOp)
		if !ok {
			return
		}
		// normalise to idx OP bound
		op := bo.Op
		var bound ssa.Value
		switch {
		case cx.Eval(bo.X, f).Tag == "idx":
			bound = bo.Y
		case cx.Eval(bo.Y, f).Tag == "idx":
			bound = bo.X
			op = map[token.Token]token.Token{token.LSS: token.GTR, token.LEQ: token.GEQ, token.GTR: token.LSS, token.GEQ: token.LEQ, token.EQL: token.EQL, token.NEQ: token.NEQ}[op]
		default:
			return
		}
		k := boundKind(bound, 0)
		if k == "" {
			return
		}
		// what does the taken edge say?
		geq := (op == token.GEQ || op == token.GTR) && truth || (op == token.LSS) && !truth
		leq := (op == token.LEQ || op == token.LSS) && truth || (op == token.GTR) && !truth
		if k == "min" && geq {
			f.TS["lb"] = "snapshot"
		}
		if k == "max" && leq {
			f.TS["ub"] = "snapshot"
		}
	}
	spec.OnEvent = func(cx *Ctx, ev, phase string, ins ssa.Instruction, f *Fact) {
		if phase != "call" || (ev != "SegmentWriter.GetLog" && ev != "SegmentReader.GetLog") {
			return
		}
		ci := ins.(ssa.CallInstruction)
		if cx.Eval(ci.Common().Args[0], f).Tag != "idx" {
			return
		}
		key := cx.Key(ins, ev)
		r.Check(f.TS["lb"] == "snapshot", key, posOf(p, ins), ev+"(index) is reached only with index >= the snapshot's first index / the segment's current MinIndex",
			"the lookup asks a segment for the index without first comparing it with the snapshot's current lower bound (state.firstIndex() or the segment's MinIndex from the state's segment map): segment readers and the tail writer keep the SegmentInfo they were built with, so after a head truncation inside that segment GetLog still returns entries below FirstIndex (and stops doing so after a reopen); path: "+trace(f))
	}
	eng := newOrdEngine(p, spec)
	params := make([]AV, len(root.Params))
	for i, prm := range root.Params {
		if b, ok := prm.Type().Underlying().(*types.Basic); ok && b.Kind() == types.Uint64 {
			params[i] = AV{Tag: "idx"}
		}
	}
	eng.RunRootWith(root, params, nil, nil)
	finishEngine(r, eng)
}

// ---------------------------------------------------------------- VF-18

func runVF18(p *Prog, r *RuleRun) {
	sumF := p.Field("verifier", "LogStore", "checksum")
	startF := p.Field("verifier", "LogStore", "sumStartIdx")
	if sumF == nil || startF == nil {
		r.Unknown("anchor", "?", "verifier.LogStore.checksum / sumStartIdx not found")
		return
	}
	mutators := map[string]bool{"raft.LogStore.StoreLogs": true, "raft.LogStore.StoreLog": true, "raft.LogStore.DeleteRange": true}
	spec := &OrdSpec{Name: "verifier-derived-state",
		Call: func(cx *Ctx, ci ssa.CallInstruction) CallInfo {
			n := eventName(ci)
			if mutators[n] {
				return CallInfo{Event: "INNER.mutate", Primitive: true}
			}
			if atomicWriteFuncs[n] && len(ci.Common().Args) > 0 {
				switch fieldOfAddr(ci.Common().Args[0]) {
				case sumF:
					return CallInfo{Event: "SUM.Store", Primitive: true}
				case startF:
					return CallInfo{Event: "START.Store", Primitive: true}
				}
			}
			return CallInfo{}
		},
		OnEvent: func(cx *Ctx, ev, phase string, ins ssa.Instruction, f *Fact) {
			switch {
			case ev == "INNER.mutate" && phase == "ok":
				f.TS["m"] = "mutated"
				delete(f.TS, "sum")
				delete(f.TS, "start")
			case ev == "SUM.Store" && phase == "call" && f.TS["m"] == "mutated":
				f.TS["sum"] = "written"
			case ev == "START.Store" && phase == "call" && f.TS["m"] == "mutated":
				f.TS["start"] = "written"
			}
		},
		OnReturn: func(cx *Ctx, ret *ssa.Return, class RetClass, f *Fact) {
			if (class != RetSuccess && class != RetEither) || f.TS["m"] != "mutated" {
				return
			}
			key := cx.Key(ret, "return")
			ok := f.TS["sum"] == "written" && f.TS["start"] == "written"
			r.Check(ok, key, posOf(p, ret), "after the wrapped store accepted the mutation both running-sum fields are (re)written",
				funcDisplay(cx.Fr.Fn)+" mutates the wrapped log and returns success without updating the running checksum and its start index: the sum the next checkpoint publishes/compares still covers entries that are no longer in the log (e.g. a truncated conflicting suffix), so an intact store is reported as corrupt; path: "+trace(f))
		}}
	eng := newOrdEngine(p, spec)
	n := 0
	for _, m := range []string{"StoreLogs", "StoreLog", "DeleteRange"} {
		if fn := p.methodImpl("verifier", "LogStore", m); fn != nil {
			eng.RunRoot(fn, nil)
			n++
		}
	}
	if n < 3 {
		r.Unknown("anchor:methods", "?", "verifier.LogStore mutating methods not all found")
	}
	finishEngine(r, eng)
}

// ---------------------------------------------------------------- VF-10

// sentinelSource: a call whose result is 0 for "no entries".
func sentinelSource(p *Prog, v ssa.Value) (string, bool) {
	if ex, ok := v.(*ssa.Extract); ok {
		if ex.Index != 0 {
			return "", false
		}
		v = ex.Tuple
	}
	c, ok := v.(*ssa.Call)
	if !ok {
		return "", false
	}
	switch n := eventName(c); n {
	case "raft.LogStore.FirstIndex", "raft.LogStore.LastIndex", "types.SegmentWriter.LastIndex":
		return n, true
	}
	if callee := c.Call.StaticCallee(); callee != nil {
		switch callee {
		case p.Func("", "state.firstIndex"):
			return "wal.state.firstIndex", true
		case p.Func("", "state.lastIndex"):
			return "wal.state.lastIndex", true
		}
	}
	return "", false
}

// sentinelRoots returns the sentinel source calls v derives from through phis/conversions (and +1 steps for loop counters).
func sentinelRoots(p *Prog, v ssa.Value) []ssa.Value {
	seen := map[ssa.Value]bool{}
	var out []ssa.Value
	var walk func(v ssa.Value)
	walk = func(v ssa.Value) {
		if v == nil || seen[v] {
			return
		}
		seen[v] = true
		if _, ok := sentinelSource(p, v); ok {
			out = append(out, v)
			return
		}
		switch x := v.(type) {
		case *ssa.Phi:
			for _, e := range x.Edges {
				walk(e)
			}
		case *ssa.Convert:
			walk(x.X)
		case *ssa.ChangeType:
			walk(x.X)
		case *ssa.BinOp:
			if x.Op == token.ADD {
				if _, ok := x.Y.(*ssa.Const); ok {
					walk(x.X)
				}
			}
		}
	}
	walk(v)
	return out
}

// receiverOf gives the store a sentinel call reads from (for co-sentinels).
func sentinelStore(v ssa.Value) ssa.Value {
	if ex, ok := v.(*ssa.Extract); ok {
		v = ex.Tuple
	}
	c := v.(*ssa.Call)
	if c.Call.IsInvoke() {
		return c.Call.Value
	}
	if len(c.Call.Args) > 0 {
		return c.Call.Args[0]
	}
	return nil
}

// lowerGuarded: is block b dominated by an If edge that bounds `val` (or a co-sentinel of the same store) from below?
func lowerGuarded(p *Prog, fn *ssa.Function, b *ssa.BasicBlock, val ssa.Value, subtrahend ssa.Value) (bool, string) {
	roots := sentinelRoots(p, val)
	stores := map[ssa.Value]bool{}
	for _, rt := range roots {
		if s := sentinelStore(rt); s != nil {
			stores[s] = true
		}
	}
	sameOrCo := func(x ssa.Value) bool {
		if x == val {
			return true
		}
		for _, rt := range sentinelRoots(p, x) {
			for _, r0 := range roots {
				if rt == r0 {
					return true
				}
			}
			if s := sentinelStore(rt); s != nil && stores[s] {
				return true // co-sentinel from the same store
			}
			if us, ok := sentinelStore(rt).(*ssa.UnOp); ok {
				for s := range stores {
					if u2, ok := s.(*ssa.UnOp); ok && u2.X == us.X {
						return true
					}
				}
			}
		}
		return false
	}
	for _, blk := range fn.Blocks {
		ifi, ok := blk.Instrs[len(blk.Instrs)-1].(*ssa.If)
		if !ok {
			continue
		}
		bo, ok := ifi.Cond.(*ssa.BinOp)
		if !ok {
			continue
		}
		for side, succ := range blk.Succs {
			truth := side == 0
			if !(succ == b || succ.Dominates(b)) || len(succ.Preds) != 1 {
				continue
			}
			x, y, op := bo.X, bo.Y, bo.Op
			if !sameOrCo(x) && sameOrCo(y) {
				x, y = y, x
				op = map[token.Token]token.Token{token.LSS: token.GTR, token.LEQ: token.GEQ, token.GTR: token.LSS, token.GEQ: token.LEQ, token.EQL: token.EQL, token.NEQ: token.NEQ}[op]
			}
			if !sameOrCo(x) {
				continue
			}
			zero := false
			if c, ok := y.(*ssa.Const); ok && c.Value != nil && c.Uint64() == 0 {
				zero = true
			}
			switch {
			case zero && ((op == token.GTR || op == token.NEQ) && truth || (op == token.EQL || op == token.LEQ) && !truth):
				return true, "guarded by a test that the value (or its co-sentinel from the same store) is non-zero at " + posOf(p, ifi)
			case !zero && ((op == token.GEQ || op == token.GTR) && truth || (op == token.LSS || op == token.LEQ) && !truth) && (subtrahend == nil || y == subtrahend || sameLoad(y, subtrahend)):
				return true, "guarded by a comparison with the subtrahend at " + posOf(p, ifi)
			}
		}
	}
	return false, ""
}

// vf10TxnReason: why `lastIndex() - x` inside a truncation transaction cannot wrap.
const vf10TxnReason = "the tail truncation transaction runs only after DeleteRange classified min <= last and max >= last with the log non-empty (FD-01), so lastIndex() >= newMax = min-1 and every removed segment has BaseIndex > newMax >= MinIndex-1; the subtractions cannot wrap"

func runVF10(p *Prog, r *RuleRun) {
	// transaction bodies on DeleteRange's path (the one exception, see vf10TxnReason)
	inTruncTxn := map[*ssa.Function]bool{}
	if v, dr := newWalVocab(p), p.Func("", "WAL.DeleteRange"); dr != nil {
		for fn := range p.reachableFuncs(dr) {
			// the *tail* truncation: the transaction that force-seals the tail writer
			if v.isTxnSig(fn.Signature) && fn.Parent() != nil &&
				p.reaches(fn, func(ci ssa.CallInstruction) bool { return eventName(ci) == "types.SegmentWriter.ForceSeal" }) {
				inTruncTxn[fn] = true
			}
		}
	}
	ord := ordinal{}
	nSrc := 0
	for _, fn := range p.Funcs {
		rel := pkgRelOf(p, fn)
		if rel != "" && rel != "migrate" && rel != "verifier" {
			continue
		}
		for _, b := range fn.Blocks {
			for _, ins := range b.Instrs {
				switch x := ins.(type) {
				case *ssa.BinOp:
					if x.Op != token.SUB {
						continue
					}
					if bt, ok := x.Type().Underlying().(*types.Basic); !ok || bt.Info()&types.IsUnsigned == 0 {
						continue
					}
					if len(sentinelRoots(p, x.X)) == 0 {
						continue
					}
					nSrc++
					key := ord.next(funcDisplay(fn) + ":sub(sentinel)")
					if why := vf10TxnReason; inTruncTxn[fn] && describeRoots(p, x.X) == "wal.state.lastIndex" {
						// the reason given is about the snapshot's lastIndex() (which falls back to the previous
						// segment for an empty tail); it does not cover the tail writer's own LastIndex()
						r.OK(key, posOf(p, x), "tabled exception: "+why)
						continue
					}
					ok, why := lowerGuarded(p, fn, b, x.X, x.Y)
					r.Check(ok, key, posOf(p, x), why,
						fmt.Sprintf("unsigned subtraction %s whose minuend can be the empty-log sentinel 0 (it comes from %s) without a dominating lower-bound test: it wraps around to ~2^64 (e.g. the truncation counter of a dropped empty tail, or the entry total of an empty source log)", strings.TrimSpace(x.String()), describeRoots(p, x.X)))
				case ssa.CallInstruction:
					n := eventName(x)
					if n != "raft.LogStore.GetLog" || len(x.Common().Args) == 0 {
						continue
					}
					if len(sentinelRoots(p, x.Common().Args[0])) == 0 {
						continue
					}
					nSrc++
					key := ord.next(funcDisplay(fn) + ":GetLog(sentinel)")
					ok, why := lowerGuarded(p, fn, b, x.Common().Args[0], nil)
					r.Check(ok, key, posOf(p, x), why,
						"GetLog is called with an index that starts at FirstIndex(), which is 0 for an empty log, without a dominating non-empty test: an empty source makes the copy ask for index 0 and fail with \"log not found\" instead of copying nothing")
				}
			}
		}
	}
	r.Stats["sentinel_uses"] = nSrc
}

func describeRoots(p *Prog, v ssa.Value) string {
	var names []string
	for _, rt := range sentinelRoots(p, v) {
		n, _ := sentinelSource(p, rt)
		names = appendUniq(names, n)
	}
	return strings.Join(names, ", ")
}

// ---------------------------------------------------------------- VF-20

func init() {
	register(&Rule{ID: "VF-20", Title: "truncation counters: the partial-segment term is the distance between the new bound and the bound it replaces",
		Props: []string{"C20"}, Floor: 2, Run: runVF20})
}

func runVF20(p *Prog, r *RuleRun) {
	v := newWalVocab(p)
	if !checkWalAnchors(r, v, nil) {
		return
	}
	minF := p.Field("types", "SegmentInfo", "MinIndex")
	maxF := p.Field("types", "SegmentInfo", "MaxIndex")
	lastFn := p.Func("", "state.lastIndex")
	n := 0
	for _, fn := range p.Funcs {
		if pkgRelOf(p, fn) != "" || !v.isTxnSig(fn.Signature) {
			continue
		}
		// the counter argument of the truncation metric in this transaction
		var counterArg ssa.Value
		metric := ""
		for _, b := range fn.Blocks {
			for _, ins := range b.Instrs {
				if ci, ok := ins.(ssa.CallInstruction); ok && eventName(ci) == "metrics.Collector.IncrementCounter" {
					if s, ok := constStringOf(ci.Common().Args[0]); ok && strings.HasSuffix(s, "_truncations") {
						counterArg, metric = ci.Common().Args[1], s
					}
				}
			}
		}
		// ... or the transaction accumulates into a variable of its parent, which adds it to the metric once the
		// transaction has been committed
		var accum []ssa.Value
		if counterArg == nil && fn.Parent() != nil {
			par := fn.Parent()
			var cell *ssa.Alloc
			for _, b := range par.Blocks {
				for _, ins := range b.Instrs {
					if ci, ok := ins.(ssa.CallInstruction); ok && eventName(ci) == "metrics.Collector.IncrementCounter" {
						if s, ok := constStringOf(ci.Common().Args[0]); ok && strings.HasSuffix(s, "_truncations") {
							if u, ok := ci.Common().Args[1].(*ssa.UnOp); ok && u.Op == token.MUL {
								if al, ok := u.X.(*ssa.Alloc); ok {
									cell, metric = al, s
								}
							}
						}
					}
				}
			}
			if cell != nil {
				for _, b := range par.Blocks {
					for _, ins := range b.Instrs {
						mc, ok := ins.(*ssa.MakeClosure)
						if !ok || mc.Fn != ssa.Value(fn) {
							continue
						}
						for i, bv := range mc.Bindings {
							if bv != ssa.Value(cell) || i >= len(fn.FreeVars) {
								continue
							}
							fv := fn.FreeVars[i]
							for _, fb := range fn.Blocks {
								for _, fi := range fb.Instrs {
									if st, ok := fi.(*ssa.Store); ok && st.Addr == ssa.Value(fv) {
										accum = append(accum, st.Val)
									}
								}
							}
						}
					}
				}
			}
		}
		// ... or the increment sits in a closure the transaction creates (a post-commit step) and reads a
		// local of the transaction body
		if counterArg == nil && len(accum) == 0 {
			var scan func(af *ssa.Function, depth int)
			scan = func(af *ssa.Function, depth int) {
				for _, b := range af.Blocks {
					for _, ins := range b.Instrs {
						ci, ok := ins.(ssa.CallInstruction)
						if !ok || eventName(ci) != "metrics.Collector.IncrementCounter" {
							continue
						}
						s, ok := constStringOf(ci.Common().Args[0])
						if !ok || !strings.HasSuffix(s, "_truncations") {
							continue
						}
						u, ok := ci.Common().Args[1].(*ssa.UnOp)
						if !ok || u.Op != token.MUL {
							continue
						}
						fv, ok := u.X.(*ssa.FreeVar)
						if !ok {
							continue
						}
						// the binding of that captured variable where fn creates the closure
						for _, fb := range fn.Blocks {
							for _, fi := range fb.Instrs {
								mc, ok := fi.(*ssa.MakeClosure)
								if !ok || mc.Fn != ssa.Value(af) {
									continue
								}
								for i, q := range af.FreeVars {
									if q != fv || i >= len(mc.Bindings) {
										continue
									}
									if cell, ok := mc.Bindings[i].(*ssa.Alloc); ok {
										metric = s
										for _, ref := range *cell.Referrers() {
											if st, ok := ref.(*ssa.Store); ok && st.Addr == ssa.Value(cell) {
												accum = append(accum, st.Val)
											}
										}
									}
								}
							}
						}
					}
				}
				if depth < 2 {
					for _, g := range af.AnonFuncs {
						scan(g, depth+1)
					}
				}
			}
			for _, af := range fn.AnonFuncs {
				scan(af, 0)
			}
		}
		if counterArg == nil && len(accum) == 0 {
			continue
		}
		// SUB terms feeding the counter
		var subs []*ssa.BinOp
		seen := map[ssa.Value]bool{}
		var walk func(x ssa.Value)
		walk = func(x ssa.Value) {
			if x == nil || seen[x] {
				return
			}
			seen[x] = true
			switch y := x.(type) {
			case *ssa.Phi:
				for _, e := range y.Edges {
					walk(e)
				}
			case *ssa.BinOp:
				if y.Op == token.SUB {
					subs = append(subs, y)
					return
				}
				walk(y.X)
				walk(y.Y)
			case *ssa.Convert:
				walk(y.X)
			}
		}
		walk(counterArg)
		for _, a := range accum {
			walk(a)
		}
		// bound updates in this transaction
		for _, b := range fn.Blocks {
			for _, ins := range b.Instrs {
				st, ok := ins.(*ssa.Store)
				if !ok {
					continue
				}
				fv := fieldOfAddr(st.Addr)
				if fv != minF && fv != maxF {
					continue
				}
				for _, sub := range subs {
					switch {
					case fv == minF && sameExpr(sub.X, st.Val, 0):
						// head: removed = newMin - old MinIndex of the very segment being updated
						n++
						okY := loadedField(sub.Y) == minF
						r.Check(okY, funcDisplay(fn)+":"+metric+":partial-head-term", posOf(p, sub), "entries removed from the new head = newMin - its previous MinIndex",
							"the "+metric+" counter adds newMin minus "+describeOperand(sub.Y)+" for the partially truncated head segment; the entries actually removed are newMin minus the segment's previous MinIndex (BaseIndex never moves, so a second truncation inside the same segment counts the first one again)")
					case fv == maxF && sameExpr(sub.Y, st.Val, 0):
						// tail: removed = old last index (MaxIndex, or lastIndex() for the unsealed tail) - newMax
						n++
						okX := derivesOnlyFrom(sub.X, func(x ssa.Value) bool {
							if loadedField(x) == maxF {
								return true
							}
							c, ok := x.(*ssa.Call)
							return ok && c.Call.StaticCallee() == lastFn
						})
						r.Check(okX, funcDisplay(fn)+":"+metric+":partial-tail-term", posOf(p, sub), "entries removed from the new tail end = its previous last index (MaxIndex / lastIndex()) - newMax",
							"the "+metric+" counter's term for the partially truncated segment is "+describeOperand(sub.X)+" minus newMax; it must be the segment's previous last index minus newMax")
					}
				}
			}
		}
	}
	if n < 2 {
		r.Unknown("terms", "?", fmt.Sprintf("only %d partial-segment counter terms found in truncation transactions", n))
	}
}

func describeOperand(v ssa.Value) string {
	if n := fieldLoadName(v); n != "" {
		return "field " + n
	}
	return strings.TrimSpace(v.String())
}

// derivesOnlyFrom: v is a phi/convert tree whose leaves all satisfy leaf.
func derivesOnlyFrom(v ssa.Value, leaf func(ssa.Value) bool) bool {
	seen := map[ssa.Value]bool{}
	var walk func(x ssa.Value) bool
	walk = func(x ssa.Value) bool {
		if seen[x] {
			return true
		}
		seen[x] = true
		if leaf(x) {
			return true
		}
		switch y := x.(type) {
		case *ssa.Phi:
			for _, e := range y.Edges {
				if !walk(e) {
					return false
				}
			}
			return true
		case *ssa.Convert:
			return walk(y.X)
		}
		return false
	}
	return walk(v)
}
