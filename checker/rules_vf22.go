package main

import (
	"go/token"
	"go/types"
	"sort"
	"strings"

	"golang.org/x/tools/go/ssa"
)

func init() {
	register(&Rule{ID: "VF-22", Title: "pooled read buffers: closed exactly once, never touched or handed out after Close",
		Props: []string{"C12", "C06", "C15", "C11"}, Floor: 2, Run: runVF22})
}

// types.PooledBuffer.Close hands the backing array back to the sync.Pool ("It's no longer safe to access Bs
// or any slice taken from it after the call", "called exactly once").  A buffer object that is written,
// re-filled or returned after its Close - or closed twice - puts the same array into the pool twice: two
// later readers that overlap in time are then handed the same bytes and one GetLog returns the other's entry.
// Typestate per buffer value, in every production function that closes a pooled buffer itself.
func runVF22(p *Prog, r *RuleRun) {
	isClose := func(ci ssa.CallInstruction) bool { return eventName(ci) == "types.PooledBuffer.Close" }
	var roots []*ssa.Function
	for _, fn := range p.Funcs {
		if fn.Parent() != nil || pkgRelOf(p, fn) == "types" {
			continue
		}
		if bodyHas(fn, func(ins ssa.Instruction) bool {
			ci, ok := ins.(ssa.CallInstruction)
			return ok && isClose(ci)
		}) {
			roots = append(roots, fn)
		}
	}
	sort.Slice(roots, func(i, j int) bool { return roots[i].String() < roots[j].String() })
	if len(roots) == 0 {
		r.Unknown("anchor", "?", "no production function closes a types.PooledBuffer")
		return
	}
	key := func(v ssa.Value) string { return "pb:" + v.Parent().String() + ":" + v.Name() }
	for _, root := range roots {
		nClose := 0
		spec := &OrdSpec{Name: "pooled-buffer", MaxDepth: 1,
			Call: func(cx *Ctx, ci ssa.CallInstruction) CallInfo {
				if isClose(ci) {
					return CallInfo{Event: "PB.Close", Primitive: true, Infallible: true}
				}
				// bytes taken from a buffer before its Close must not be used after it
				if cx.F != nil {
					for _, a := range ci.Common().Args {
						if tag := cx.Eval(a, cx.F).Tag; strings.HasPrefix(tag, "~pb:") && cx.F.TS[strings.TrimPrefix(tag, "~")] == "closed" {
							r.Fail(cx.Key(ci, "bytes-after-close"), posOf(p, ci), "bytes of a pooled buffer (a slice taken from it earlier) are used after the buffer was closed: another reader may already have been handed the same backing array and be overwriting it (data race; an entry returned with another entry's bytes); path: "+trace(cx.F))
						}
					}
				}
				return CallInfo{Primitive: true}
			},
			Value: func(cx *Ctx, v ssa.Value, f *Fact) (AV, bool) {
				// a load of a field of a pooled buffer carries the buffer's identity (inherited by slices of it)
				if u, ok := v.(*ssa.UnOp); ok && u.Op == token.MUL {
					if fa, ok := u.X.(*ssa.FieldAddr); ok && fa.X.Parent() != nil && strings.HasSuffix(fa.X.Type().String(), "types.PooledBuffer") {
						if _, isSlice := u.Type().Underlying().(*types.Slice); isSlice {
							return AV{Tag: "~" + key(fa.X)}, true
						}
					}
				}
				return AV{}, false
			},
			OnEvent: func(cx *Ctx, ev, phase string, ins ssa.Instruction, f *Fact) {
				if ev != "PB.Close" || phase != "call" {
					return
				}
				ci := ins.(ssa.CallInstruction)
				recv := ci.Common().Args[0]
				nClose++
				k := key(recv)
				r.Check(f.TS[k] == "", cx.Key(ins, "close-once"), posOf(p, ins), "the buffer is closed at most once on every path",
					"this pooled buffer is closed a second time on some path: its backing array is put into the pool twice and two later readers share it; path: "+trace(f))
				f.TS[k] = "closed"
			},
			Instr: func(cx *Ctx, ins ssa.Instruction, f *Fact) {
				fa, ok := ins.(*ssa.FieldAddr)
				if !ok {
					return
				}
				if _, isVal := fa.X.(ssa.Value); !isVal || fa.X.Parent() == nil {
					return
				}
				if f.TS[key(fa.X)] == "closed" {
					r.Fail(cx.Key(ins, "use-after-close"), posOf(p, ins), "a field of a pooled buffer is accessed after the buffer was closed (re-using the wrapper keeps its CloseFn: the next Close returns the same backing array to the pool a second time, and overlapping readers then decode each other's bytes); path: "+trace(f))
				}
			},
			OnAnyReturn: func(cx *Ctx, ret *ssa.Return, class RetClass, f *Fact) {
				for _, res := range ret.Results {
					if res.Parent() != nil && f.TS[key(res)] == "closed" {
						r.Fail(cx.Key(ret, "return-closed"), posOf(p, ret), "a pooled buffer is returned to the caller after it was closed; path: "+trace(f))
					}
				}
			}}
		eng := newOrdEngine(p, spec)
		eng.RunRoot(root, nil)
		finishEngine(r, eng)
		r.Check(nClose > 0, funcDisplay(root)+":closes", p.Position(root.Pos()), "buffer lifetime checked on every path of "+funcDisplay(root), "no Close reached")
	}
}
