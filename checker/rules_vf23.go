package main

import (
	"fmt"
	"go/types"
	"strings"

	"golang.org/x/tools/go/ssa"
)

func init() {
	register(&Rule{ID: "VF-23", Title: "CopyStable pairs each read with its write: same key, the value just read, source read / destination written, matching accessor kind, caller's extra keys included",
		Props: []string{"C19"}, Floor: 4, Run: runVF23})
}

// For every dst.Set*/SetUint64 call of migrate.CopyStable: the receiver is the destination parameter, the key is
// the very key that was read, the value is result #0 of the matching accessor (Get for Set, GetUint64 for
// SetUint64) called on the source parameter, and the key loop ranges over append(<built-in list>, <the caller's
// extra list of the same kind>...).  Any of these broken silently copies a wrong or stale value, reads the
// destination instead of the source, or drops the caller's keys.
func runVF23(p *Prog, r *RuleRun) {
	fn := p.Func("migrate", "CopyStable")
	if fn == nil {
		r.Unknown("anchor", "?", "migrate.CopyStable not found")
		return
	}
	var stores []*ssa.Parameter
	var lists []*ssa.Parameter
	for _, prm := range fn.Params {
		if strings.HasSuffix(prm.Type().String(), "raft.StableStore") {
			stores = append(stores, prm)
		}
		if prm.Type().String() == "[][]byte" {
			lists = append(lists, prm)
		}
	}
	if len(stores) != 2 || len(lists) != 2 {
		r.Unknown("anchor:params", p.Position(fn.Pos()), "CopyStable's (dst, src raft.StableStore, extraKeys, extraIntKeys [][]byte) parameters not found")
		return
	}
	dst, src := stores[0], stores[1]
	extraKeys, extraIntKeys := lists[0], lists[1]
	recvOf := func(c *ssa.Call) ssa.Value { return c.Call.Value }
	// the list a key comes from: key -> element load -> IndexAddr of the ranged slice -> append(known, extra...)
	var listOf func(v ssa.Value, d int) *ssa.Call
	listOf = func(v ssa.Value, d int) *ssa.Call {
		if d > 6 || v == nil {
			return nil
		}
		switch x := v.(type) {
		case *ssa.UnOp:
			return listOf(x.X, d+1)
		case *ssa.IndexAddr:
			return listOf(x.X, d+1)
		case *ssa.Index:
			return listOf(x.X, d+1)
		case *ssa.Phi:
			for _, e := range x.Edges {
				if c := listOf(e, d+1); c != nil {
					return c
				}
			}
		case *ssa.Call:
			if isBuiltinCall(x, "append") {
				return x
			}
		}
		return nil
	}
	nSets := 0
	for _, b := range fn.Blocks {
		for _, ins := range b.Instrs {
			c, ok := ins.(*ssa.Call)
			if !ok || !c.Call.IsInvoke() {
				continue
			}
			m := c.Call.Method.Name()
			if m != "Set" && m != "SetUint64" {
				continue
			}
			if !strings.HasSuffix(c.Call.Value.Type().String(), "raft.StableStore") {
				continue
			}
			nSets++
			key := fmt.Sprintf("%s:%s#%d", funcDisplay(fn), m, nSets)
			pos := posOf(p, c)
			want := map[string]string{"Set": "Get", "SetUint64": "GetUint64"}[m]
			var bad []string
			if recvOf(c) != ssa.Value(dst) {
				bad = append(bad, "the write does not go to the destination store parameter")
			}
			k, v := c.Call.Args[0], c.Call.Args[1]
			ex, _ := v.(*ssa.Extract)
			var get *ssa.Call
			if ex != nil && ex.Index == 0 {
				get, _ = ex.Tuple.(*ssa.Call)
			}
			switch {
			case get == nil || !get.Call.IsInvoke():
				bad = append(bad, "the value written is not the result of a read of the source store")
			default:
				if get.Call.Method.Name() != want {
					bad = append(bad, fmt.Sprintf("%s writes a value read with %s (want %s: the two accessors need not share a key space or an encoding)", m, get.Call.Method.Name(), want))
				}
				if recvOf(get) != ssa.Value(src) {
					bad = append(bad, "the value is read from something other than the source store parameter")
				}
				if get.Call.Args[0] != k {
					bad = append(bad, "the key written is not the key that was read")
				}
			}
			// the key list
			wantExtra := extraKeys
			if m == "SetUint64" {
				wantExtra = extraIntKeys
			}
			if app := listOf(k, 0); app == nil {
				bad = append(bad, "the keys do not come from append(<built-in keys>, <caller's extra keys>...)")
			} else {
				okExtra := false
				for _, a := range app.Call.Args[1:] {
					if a == ssa.Value(wantExtra) {
						okExtra = true
					}
				}
				if !okExtra {
					bad = append(bad, fmt.Sprintf("the key list does not include the caller's %s", wantExtra.Name()))
				}
			}
			r.Check(len(bad) == 0, key, pos, m+" writes to dst, under the key just read, the value "+want+" returned from src; the caller's extra keys of that kind are included",
				"CopyStable's "+m+" is mis-paired: "+strings.Join(bad, "; "))
		}
	}
	if nSets < 2 {
		r.Unknown(funcDisplay(fn)+":writes", p.Position(fn.Pos()), fmt.Sprintf("%d destination writes found in CopyStable, want Set and SetUint64", nSets))
	}
	// every read error and write error is returned (wrapped with %w): VF-16 covers "consumed"; here: a failure return follows each
	for _, name := range []string{"Get", "GetUint64", "Set", "SetUint64"} {
		found := false
		for _, b := range fn.Blocks {
			for _, ins := range b.Instrs {
				c, ok := ins.(*ssa.Call)
				if !ok || !c.Call.IsInvoke() || c.Call.Method.Name() != name || !strings.HasSuffix(c.Call.Value.Type().String(), "raft.StableStore") {
					continue
				}
				var errv ssa.Value = c
				if c.Call.Signature().Results().Len() > 1 {
					errv = nil
					for _, ref := range *c.Referrers() {
						if ex, ok := ref.(*ssa.Extract); ok && ex.Index == c.Call.Signature().Results().Len()-1 {
							errv = ex
						}
					}
				}
				if errv == nil {
					continue
				}
				for _, g := range fn.Blocks {
					ifi, ok := g.Instrs[len(g.Instrs)-1].(*ssa.If)
					if !ok {
						continue
					}
					if bo, ok := ifi.Cond.(*ssa.BinOp); ok && bo.X == errv && blockRejects(g.Succs[0]) {
						found = true
					}
				}
			}
		}
		r.Check(found, funcDisplay(fn)+":"+name+":error-returned", p.Position(fn.Pos()), "a failing "+name+" aborts the copy with an error", "CopyStable does not stop with an error when "+name+" fails: the migration reports success with a key missing or stale")
	}
	_ = types.Typ
	runVF23Logs(p, r)
}

// CopyLogs: entries are read from the source parameter into the very raft.Log whose address is batched, and
// every batch is stored into the destination parameter.
func runVF23Logs(p *Prog, r *RuleRun) {
	fn := p.Func("migrate", "CopyLogs")
	if fn == nil {
		r.Unknown("anchor:CopyLogs", "?", "migrate.CopyLogs not found")
		return
	}
	var stores []*ssa.Parameter
	for _, prm := range fn.Params {
		if strings.HasSuffix(prm.Type().String(), "raft.LogStore") {
			stores = append(stores, prm)
		}
	}
	if len(stores) != 2 {
		r.Unknown("anchor:CopyLogs:params", p.Position(fn.Pos()), "CopyLogs' (dst, src raft.LogStore) parameters not found")
		return
	}
	dst, src := stores[0], stores[1]
	// dst/src may be captured by a closure (a flush helper): compare through free variables of closures of fn
	denotes := func(v ssa.Value, prm *ssa.Parameter) bool {
		if v == ssa.Value(prm) {
			return true
		}
		if u, ok := v.(*ssa.UnOp); ok {
			v = u.X
		}
		if fv, ok := v.(*ssa.FreeVar); ok {
			// which binding of the enclosing MakeClosure does this free variable get?
			cl := fv.Parent()
			for _, b := range fn.Blocks {
				for _, ins := range b.Instrs {
					if mc, ok := ins.(*ssa.MakeClosure); ok && mc.Fn == ssa.Value(cl) {
						for i, f2 := range cl.FreeVars {
							if f2 == fv && i < len(mc.Bindings) {
								bnd := mc.Bindings[i]
								if bnd == ssa.Value(prm) {
									return true
								}
								// a spilled parameter: the alloc that holds it
								if al, ok := bnd.(*ssa.Alloc); ok {
									for _, ref := range *al.Referrers() {
										if st, ok := ref.(*ssa.Store); ok && st.Val == ssa.Value(prm) {
											return true
										}
									}
								}
							}
						}
					}
				}
			}
		}
		if al, ok := v.(*ssa.Alloc); ok {
			for _, ref := range *al.Referrers() {
				if st, ok := ref.(*ssa.Store); ok && st.Val == ssa.Value(prm) {
					return true
				}
			}
		}
		return false
	}
	nGet, nStore := 0, 0
	okGet, okStore := true, true
	fns := append([]*ssa.Function{fn}, fn.AnonFuncs...)
	for _, f := range fns {
		for _, b := range f.Blocks {
			for _, ins := range b.Instrs {
				c, ok := ins.(*ssa.Call)
				if !ok || !c.Call.IsInvoke() || !strings.HasSuffix(c.Call.Value.Type().String(), "raft.LogStore") {
					continue
				}
				switch c.Call.Method.Name() {
				case "GetLog":
					nGet++
					if !denotes(c.Call.Value, src) {
						okGet = false
					}
				case "StoreLogs", "StoreLog":
					nStore++
					if !denotes(c.Call.Value, dst) {
						okStore = false
					}
				}
			}
		}
	}
	r.Check(nGet > 0 && okGet, funcDisplay(fn)+":reads-source", p.Position(fn.Pos()), "entries are read from the source store parameter", "CopyLogs reads entries from something other than its source parameter")
	r.Check(nStore > 0 && okStore, funcDisplay(fn)+":writes-destination", p.Position(fn.Pos()), "batches are stored into the destination store parameter", "CopyLogs stores batches into something other than its destination parameter")
}
