package main

import (
	"fmt"
	"go/token"

	"golang.org/x/tools/go/ssa"
)

func init() {
	register(&Rule{ID: "VF-24", Title: "sync.Pool discipline: nothing derived from a pooled object is returned or used once the object has been Put back (a deferred Put runs before the caller sees the result)",
		Props: []string{"C08", "C12", "C06", "C15"}, Floor: 1, Run: runVF24})
}

// A slice of a pooled buffer that outlives the Put is shared with whoever Gets the buffer next: a stable-store value
// handed to bbolt (which serialises values only at commit) or a log entry being decoded then changes under its user.
func runVF24(p *Prog, r *RuleRun) {
	derived := func(v, x ssa.Value) bool {
		seen := map[ssa.Value]bool{}
		var walk func(v ssa.Value, d int) bool
		walk = func(v ssa.Value, d int) bool {
			if v == nil || d > 6 || seen[v] {
				return false
			}
			seen[v] = true
			if v == x {
				return true
			}
			switch y := v.(type) {
			case *ssa.Slice:
				return walk(y.X, d+1)
			case *ssa.FieldAddr:
				return walk(y.X, d+1)
			case *ssa.IndexAddr:
				return walk(y.X, d+1)
			case *ssa.UnOp:
				if al, ok := y.X.(*ssa.Alloc); ok && y.Op == token.MUL {
					// a local / the spilled result of a function with defers: whatever was stored into it
					for _, ref := range *al.Referrers() {
						if st, ok := ref.(*ssa.Store); ok && st.Addr == ssa.Value(al) && walk(st.Val, d+1) {
							return true
						}
					}
					return false
				}
				return walk(y.X, d+1)
			case *ssa.Convert:
				return walk(y.X, d+1)
			case *ssa.ChangeType:
				return walk(y.X, d+1)
			case *ssa.MakeInterface:
				return walk(y.X, d+1)
			case *ssa.Phi:
				for _, e := range y.Edges {
					if walk(e, d+1) {
						return true
					}
				}
			}
			return false
		}
		return walk(v, 0)
	}
	ord := ordinal{}
	nPut := 0
	for _, fn := range p.Funcs {
		if pkgRelOf(p, fn) == "cmd/waldump" {
			continue
		}
		for _, b := range fn.Blocks {
			for i, ins := range b.Instrs {
				ci, ok := ins.(ssa.CallInstruction)
				if !ok || eventName(ci) != "sync.Pool.Put" || len(ci.Common().Args) < 2 {
					continue
				}
				nPut++
				x := ci.Common().Args[1]
				if mi, ok := x.(*ssa.MakeInterface); ok {
					x = mi.X
				}
				key := ord.next(funcDisplay(fn) + ":Pool.Put")
				_, deferred := ci.(*ssa.Defer)
				bad := ""
				if deferred {
					for _, b2 := range fn.Blocks {
						if ret, ok := b2.Instrs[len(b2.Instrs)-1].(*ssa.Return); ok {
							for _, res := range ret.Results {
								if derived(res, x) {
									bad = fmt.Sprintf("the function returns bytes of the object that its deferred Put (registered at %s) has already handed back to the pool", posOf(p, ins))
								}
							}
						}
					}
				} else {
					// any instruction after the Put (same block later, or a block reachable from it) that uses x
					uses := func(i2 ssa.Instruction) bool {
						for _, op := range i2.Operands(nil) {
							if *op != nil && derived(*op, x) {
								if _, isDbg := i2.(*ssa.DebugRef); !isDbg {
									return true
								}
							}
						}
						return false
					}
					for j := i + 1; j < len(b.Instrs); j++ {
						if uses(b.Instrs[j]) {
							bad = "the object is used after it was Put back at " + posOf(p, b.Instrs[j])
						}
					}
					for _, b2 := range fn.Blocks {
						if b2 != b && reachesBlock(b, b2) {
							for _, i2 := range b2.Instrs {
								if _, isPhi := i2.(*ssa.Phi); !isPhi && uses(i2) {
									bad = "the object is used after it was Put back at " + posOf(p, i2)
								}
							}
						}
					}
				}
				r.Check(bad == "", key, posOf(p, ins), "nothing derived from the pooled object outlives its Put", "pooled object escapes its Put: "+bad+"; the next Get hands the same memory to another caller while this one's bytes are still in use (a stable value stored with another key's bytes, an entry decoded from another read)")
			}
		}
	}
	if nPut == 0 {
		r.Unknown("anchor", "?", "no sync.Pool.Put call found in production code")
	}
	_ = token.NoPos
}
