package main

import (
	"strings"

	"golang.org/x/tools/go/ssa"
)

func init() {
	register(&Rule{ID: "VF-25", Title: "the rotation counter follows the rotation: every path on which a rotation transaction is committed also increments segment_rotations",
		Props: []string{"C20"}, Floor: 2, Run: runVF25})
}

// A rotation is the transaction that marks the tail sealed (it stores SegmentInfo.SealTime) and names the next
// segment.  It has two drivers: the background goroutine and Open, which completes a rotation a crash
// interrupted.  The counter must be incremented wherever the transaction is driven from; tying it to one
// driver makes the other's rotations invisible (the counter no longer equals the number of rotations).
func runVF25(p *Prog, r *RuleRun) {
	v := newWalVocab(p)
	open, _, _, _, rot := walRoots(p, v)
	if !checkWalAnchors(r, v, map[string]*ssa.Function{"Open": open, "rotation goroutine": rot}) {
		return
	}
	sealTime := p.Field("types", "SegmentInfo", "SealTime")
	if sealTime == nil {
		r.Unknown("anchor:SealTime", "?", "types.SegmentInfo.SealTime not found")
		return
	}
	base := v.call
	spec := v.baseSpec("rotation-counter")
	spec.Call = func(cx *Ctx, ci ssa.CallInstruction) CallInfo {
		if eventName(ci) == "metrics.Collector.IncrementCounter" && len(ci.Common().Args) > 0 {
			if name, ok := constStringOf(ci.Common().Args[0]); ok {
				return CallInfo{Event: "COUNT(" + name + ")", Primitive: true}
			}
		}
		return base(cx, ci)
	}
	baseInstr := v.instr
	spec.Instr = func(cx *Ctx, ins ssa.Instruction, f *Fact) {
		baseInstr(cx, ins, f)
		if st, ok := ins.(*ssa.Store); ok && fieldOfAddr(st.Addr) == sealTime {
			// inside a transaction body: this transaction is a rotation
			for fr := cx.Fr; fr != nil; fr = fr.Parent {
				if v.isTxnSig(fr.Fn.Signature) {
					f.TS["rot"] = "pending"
				}
			}
		}
	}
	nRot := 0
	check := func(cx *Ctx, ins ssa.Instruction, f *Fact, where string) {
		if f.TS["rot"] != "committed" {
			return
		}
		nRot++
		r.Check(f.TS["counted"] == "1", cx.Key(ins, where), posOf(p, ins), "a committed rotation is counted in segment_rotations on this path",
			"a rotation is committed on this path ("+cx.Fr.Root().Fn.Name()+") without segment_rotations being incremented: the counter no longer equals the number of rotations (e.g. the rotation Open completes after a crash goes uncounted); path: "+trace(f))
	}
	spec.OnEvent = func(cx *Ctx, ev, phase string, ins ssa.Instruction, f *Fact) {
		switch {
		case ev == "MetaStore.CommitState" && phase == "ok" && f.TS["rot"] == "pending":
			f.TS["rot"] = "committed"
		case ev == "TXN" && phase == "call":
			if f.TS["rot"] == "pending" {
				delete(f.TS, "rot")
			}
		case ev == "POSTCOMMIT" && phase == "fail" && f.TS["rot"] == "committed":
			// committed but not completed: the WAL never moved to the new segment and stops accepting writes
			// (ORD-30); nothing to count on this path
			f.TS["rot"] = "incomplete"
		case strings.HasPrefix(ev, "COUNT(segment_rotations)") && phase == "call":
			f.TS["counted"] = "1"
		case ev == "RECV(trigger)":
			// next iteration of the goroutine: the previous one must have been settled
			check(cx, ins, f, "iteration")
			delete(f.TS, "rot")
			delete(f.TS, "counted")
		}
	}
	spec.OnReturn = func(cx *Ctx, ret *ssa.Return, class RetClass, f *Fact) {
		check(cx, ret, f, "return")
	}
	eng := newOrdEngine(p, spec)
	eng.RunRoot(open, nil)
	eng.RunRoot(rot, nil)
	finishEngine(r, eng)
	if nRot < 2 {
		r.Unknown("rotations", "?", "fewer than two drivers of the rotation transaction found (expected Open's completion and the background goroutine)")
	}
}
