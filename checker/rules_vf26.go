package main

import (
	"fmt"
	"go/token"
	"go/types"
	"strings"

	"golang.org/x/tools/go/ssa"
)

func init() {
	register(&Rule{ID: "VF-26", Title: "transfer counts: a ReadAt/WriteAt result n is accepted as complete only against the full length of the buffer (or the buffer is cut down to n)",
		Props: []string{"C11", "C02", "C01", "C03"}, Floor: 3, Run: runVF26})
}

// io.ReaderAt may return io.EOF together with a complete read, so the code tolerates EOF when "everything was
// transferred".  That test must compare n with the length of the buffer that was handed in: a smaller constant
// (the frame header length for a file header buffer, say) accepts a short read and the unread tail of the buffer
// - zeroes - is then parsed as if it had come from the file: a sealed segment truncated below its header opens.
func runVF26(p *Prog, r *RuleRun) {
	ord := ordinal{}
	nCmp := 0
	for _, fn := range p.Funcs {
		rel := pkgRelOf(p, fn)
		if rel != "segment" && rel != "fs" && rel != "" && rel != "metadb" {
			continue
		}
		for _, b := range fn.Blocks {
			for _, ins := range b.Instrs {
				c, ok := ins.(*ssa.Call)
				if !ok || len(c.Call.Args) < 1 {
					continue
				}
				en := eventName(c)
				if !strings.HasSuffix(en, ".ReadAt") && !strings.HasSuffix(en, ".WriteAt") {
					continue
				}
				var n *ssa.Extract
				for _, ref := range *c.Referrers() {
					if ex, ok := ref.(*ssa.Extract); ok && ex.Index == 0 {
						n = ex
					}
				}
				if n == nil {
					continue
				}
				buf := c.Call.Args[0]
				// static length of the buffer, if it is a whole fixed-size array
				staticLen := int64(-1)
				if sl, ok := buf.(*ssa.Slice); ok && sl.Low == nil && sl.High == nil {
					if pt, ok := sl.X.Type().Underlying().(*types.Pointer); ok {
						if at, ok := pt.Elem().Underlying().(*types.Array); ok {
							staticLen = at.Len()
						}
					}
				}
				// ... or a make([]byte, K) with a constant K, handed in whole
				// (go/ssa turns a constant-size make into an array allocation that is sliced whole)
				if staticLen < 0 {
					whole := buf
					for i := 0; i < 3; i++ {
						sl, ok := whole.(*ssa.Slice)
						if !ok || sl.Low != nil {
							break
						}
						if hc, ok := sl.High.(*ssa.Const); ok && sl.High != nil {
							staticLen = hc.Int64() // x[:K]
							break
						}
						if sl.High != nil {
							break
						}
						whole = sl.X
					}
					if staticLen >= 0 {
						whole = nil
					}
					if ms, ok := whole.(*ssa.MakeSlice); ok {
						if cl, ok := ms.Len.(*ssa.Const); ok {
							staticLen = cl.Int64()
						}
					} else if whole == nil {
					} else if pt, ok := whole.Type().Underlying().(*types.Pointer); ok {
						if at, ok := pt.Elem().Underlying().(*types.Array); ok {
							staticLen = at.Len()
						}
					}
				}
				if prm, ok := buf.(*ssa.Parameter); ok && staticLen < 0 {
					// a helper that is handed the buffer: every caller passes a whole array of one length
					idx := -1
					for i, q := range fn.Params {
						if q == prm {
							idx = i
						}
					}
					l, n := int64(-1), 0
					for _, caller := range p.Funcs {
						for _, cb := range caller.Blocks {
							for _, ci := range cb.Instrs {
								cc, ok := ci.(ssa.CallInstruction)
								if !ok || cc.Common().StaticCallee() != fn || idx < 0 || idx >= len(cc.Common().Args) {
									continue
								}
								n++
								al := int64(-2)
								if sl, ok := cc.Common().Args[idx].(*ssa.Slice); ok && sl.Low == nil && sl.High == nil {
									if pt, ok := sl.X.Type().Underlying().(*types.Pointer); ok {
										if at, ok := pt.Elem().Underlying().(*types.Array); ok {
											al = at.Len()
										}
									}
								}
								if l == -1 {
									l = al
								} else if l != al {
									l = -2
								}
							}
						}
					}
					if n > 0 && l >= 0 {
						staticLen = l
					}
				}
				resliced := false
				for _, b2 := range fn.Blocks {
					for _, i2 := range b2.Instrs {
						if s2, ok := i2.(*ssa.Slice); ok && s2.High == ssa.Value(n) {
							resliced = true
						}
					}
				}
				for _, ref := range *n.Referrers() {
					bo, ok := ref.(*ssa.BinOp)
					if !ok {
						continue
					}
					switch bo.Op {
					case token.EQL, token.NEQ, token.GEQ, token.LSS, token.GTR, token.LEQ:
					default:
						continue
					}
					k := bo.Y
					if bo.Y == ssa.Value(n) {
						k = bo.X
					}
					nCmp++
					key := ord.next(funcDisplay(fn) + ":" + strings.TrimPrefix(en, "types.") + ":count")
					pos := posOf(p, bo)
					kc, isConst := k.(*ssa.Const)
					isLenOfBuf := func() bool {
						for {
							cv, ok := k.(*ssa.Convert)
							if !ok {
								break
							}
							k = cv.X
						}
						lc, ok := k.(*ssa.Call)
						return ok && isBuiltinCall(lc, "len") && (lc.Call.Args[0] == buf || sameExpr(lc.Call.Args[0], buf, 0))
					}
					switch {
					case staticLen >= 0 && isConst && kc.Int64() >= staticLen && (bo.Op != token.EQL && bo.Op != token.NEQ || kc.Int64() == staticLen):
						r.OK(key, pos, fmt.Sprintf("n is compared with %d = the length of the %d-byte buffer", kc.Int64(), staticLen))
					case staticLen >= 0 && isConst:
						r.Fail(key, pos, fmt.Sprintf("the transfer count of a %d-byte buffer is compared with %d: a short transfer is accepted as complete and the rest of the buffer (zeroes) is used as if it had been transferred (a sealed segment truncated below its header opens; a torn write passes as written)", staticLen, kc.Int64()))
					case isLenOfBuf():
						r.OK(key, pos, "n is compared with len() of the buffer that was transferred")
					case isConst && resliced:
						r.OK(key, pos, "a minimum count is required and the buffer is cut down to the n bytes actually transferred before it is used")
					case isConst:
						r.Fail(key, pos, fmt.Sprintf("the transfer count is compared with the constant %d, not with the buffer's length, and the buffer is not cut down to n: bytes that were never transferred are used", kc.Int64()))
					default:
						r.Unknown(key, pos, "transfer count compared with a value the analysis cannot relate to the buffer's length")
					}
				}
			}
		}
	}
	if nCmp == 0 {
		r.Unknown("anchor", "?", "no comparison of a ReadAt/WriteAt count found")
	}
}
