package main

import (
	"fmt"
	"go/ast"
	"go/token"
	"go/types"
)

func init() {
	register(&Rule{ID: "VF-27", Title: "deferred calls see what they are meant to see: no variable a defer statement reads (callee or argument) is assigned again after the defer statement",
		Props: []string{"C11", "C13", "C14", "C06"}, Floor: 10, Run: runVF27})
}

// The function value and the arguments of a deferred call are evaluated when the defer statement executes.  A
// cleanup that is handed a variable which the function assigns again afterwards (a release func that is
// re-acquired, a segment map that grows, an error that is set later) runs on the stale value: the second
// acquisition is never released, the segments opened later are never closed.  Closures (`defer func() {...}()`)
// read variables when they run and are not affected.
func runVF27(p *Prog, r *RuleRun) {
	ord := ordinal{}
	for _, rel := range []string{"", "segment", "fs", "metadb", "verifier", "migrate", "types", "metrics"} {
		pk := p.Pkg[rel]
		if pk == nil {
			continue
		}
		info := pk.TypesInfo
		for _, file := range pk.Syntax {
			if isTestFile(p, file) {
				continue
			}
			for _, d := range file.Decls {
				fd, ok := d.(*ast.FuncDecl)
				if !ok || fd.Body == nil {
					continue
				}
				// every function body, including nested literals, is its own scope of defers
				var bodies []*ast.BlockStmt
				bodies = append(bodies, fd.Body)
				ast.Inspect(fd.Body, func(n ast.Node) bool {
					if fl, ok := n.(*ast.FuncLit); ok {
						bodies = append(bodies, fl.Body)
					}
					return true
				})
				for _, body := range bodies {
					ast.Inspect(body, func(n ast.Node) bool {
						if fl, ok := n.(*ast.FuncLit); ok && fl.Body != body {
							return false // handled as its own body
						}
						ds, ok := n.(*ast.DeferStmt)
						if !ok {
							return true
						}
						key := ord.next(declName(rel, fd) + ":defer")
						pos := p.Position(ds.Pos())
						// variables read when the defer statement executes: identifiers in the callee expression and
						// the arguments, outside function literals
						// read: local variables and field paths rooted at them ("newState.segments"), by value
						read := map[string]bool{}
						var pathOf func(e ast.Expr) string
						pathOf = func(e ast.Expr) string {
							switch x := ast.Unparen(e).(type) {
							case *ast.Ident:
								if v, ok := info.Uses[x].(*types.Var); ok && !v.IsField() && v.Parent() != nil && v.Parent() != pk.Types.Scope() {
									return fmt.Sprintf("%p", v)
								}
							case *ast.SelectorExpr:
								if b := pathOf(x.X); b != "" {
									if sel, ok := info.Selections[x]; ok && sel.Kind() == types.FieldVal {
										return b + "." + x.Sel.Name
									}
								}
							}
							return ""
						}
						collect := func(e ast.Expr) {
							ast.Inspect(e, func(m ast.Node) bool {
								switch x := m.(type) {
								case *ast.FuncLit:
									return false
								case *ast.UnaryExpr:
									if x.Op == token.AND {
										return false // a pointer: the deferred call sees later writes
									}
								case *ast.SelectorExpr:
									if pth := pathOf(x); pth != "" {
										read[pth] = true
										return false
									}
								case *ast.Ident:
									if pth := pathOf(x); pth != "" {
										read[pth] = true
									}
								}
								return true
							})
						}
						collect(ds.Call.Fun)
						for _, a := range ds.Call.Args {
							collect(a)
						}
						if len(read) == 0 {
							r.OK(key, pos, "the deferred call reads no local variable at the defer statement (a closure, or constants only)")
							return true
						}
						// an assignment to one of them after the defer statement, anywhere in the enclosing declaration
						stale := ""
						ast.Inspect(fd.Body, func(m ast.Node) bool {
							switch x := m.(type) {
							case *ast.AssignStmt:
								if x.Pos() <= ds.End() {
									return true
								}
								for _, lhs := range x.Lhs {
									if id, ok := ast.Unparen(lhs).(*ast.Ident); ok && x.Tok == token.DEFINE && info.Defs[id] != nil {
										continue // a new variable, not a re-assignment
									}
									if pth := pathOf(lhs); pth != "" && read[pth] {
										stale = fmt.Sprintf("%s is assigned again at %s", types.ExprString(lhs), p.Position(x.Pos()))
									}
								}
							case *ast.IncDecStmt:
								if x.Pos() > ds.End() {
									if pth := pathOf(x.X); pth != "" && read[pth] {
										stale = fmt.Sprintf("%s is modified again at %s", types.ExprString(x.X), p.Position(x.Pos()))
									}
								}
							}
							return true
						})
						r.Check(stale == "", key, pos, "every variable the defer statement reads keeps its value until the function returns",
							"a deferred call is given a value that the function replaces afterwards ("+stale+"): callee and arguments of a defer are evaluated at the defer statement, so the cleanup runs on the old value (the later acquisition is never released / the later segments are never closed)")
						return true
					})
				}
			}
		}
	}
}
