package main

import (
	"go/token"
	"go/types"

	"golang.org/x/tools/go/ssa"
)

// VF-28: every entry of a batch is encoded into memory of its own.
//
// StoreLogs hands the segment writer a []types.LogEntry whose Data fields are
// plain slices.  They are written to the file only after the whole batch has
// been encoded, so two entries whose Data share a backing array overwrite each
// other before they reach the disk (the code says so itself: "Need a new buffer
// each time because Data is just a slice").  The structural condition: whatever
// is stored into LogEntry.Data inside the encoding loop comes from storage that
// is allocated inside that loop - a bytes.Buffer declared in the loop body, a
// make() in the loop body, or a region cut out of a shared arena with a
// three-index slice (capacity capped, so growth re-allocates instead of running
// into the neighbour).
func init() {
	register(&Rule{ID: "VF-28", Title: "each entry of a batch is encoded into storage allocated for it alone (LogEntry.Data never shares a growable backing array)",
		Props: []string{"C12", "C15"}, Floor: 1, Run: runVF28})
}

func runVF28(p *Prog, r *RuleRun) {
	sl := p.Func("", "WAL.StoreLogs")
	dataF := p.Field("types", "LogEntry", "Data")
	if sl == nil || dataF == nil {
		r.Unknown("anchor", "?", "(*WAL).StoreLogs / types.LogEntry.Data not found")
		return
	}
	inCycle := func(b *ssa.BasicBlock) bool {
		seen := map[*ssa.BasicBlock]bool{}
		var walk func(x *ssa.BasicBlock) bool
		walk = func(x *ssa.BasicBlock) bool {
			for _, s := range x.Succs {
				if s == b {
					return true
				}
				if !seen[s] {
					seen[s] = true
					if walk(s) {
						return true
					}
				}
			}
			return false
		}
		return walk(b)
	}
	isBytesBuffer := func(t types.Type) bool {
		if pt, ok := t.(*types.Pointer); ok {
			t = pt.Elem()
		}
		return isNamed(t, "bytes", "Buffer")
	}
	// private(v): v denotes storage that belongs to the current loop iteration alone
	var private func(v ssa.Value, depth int) (bool, string)
	private = func(v ssa.Value, depth int) (bool, string) {
		if depth > 8 || v == nil {
			return false, "too deep"
		}
		switch x := v.(type) {
		case *ssa.Const:
			if x.IsNil() {
				return true, "nil"
			}
		case *ssa.Alloc:
			if inCycle(x.Block()) {
				// a variable of the loop body that is initialised from another value (buf := *bytes.NewBuffer(s))
				// is only as private as that value
				for _, ref := range *x.Referrers() {
					if st, ok := ref.(*ssa.Store); ok && st.Addr == ssa.Value(x) {
						if ok, why := private(st.Val, depth+1); !ok {
							return false, why
						}
					}
				}
				return true, "variable declared in the loop body"
			}
			return false, "a variable declared outside the loop (shared by all iterations)"
		case *ssa.MakeSlice:
			if inCycle(x.Block()) {
				return true, "make() in the loop body"
			}
			return false, "a make() outside the loop (one buffer for the whole batch)"
		case *ssa.Slice:
			if x.Max != nil {
				// capacity capped: appending beyond it re-allocates
				return true, "three-index slice (capacity capped)"
			}
			ok, why := private(x.X, depth+1)
			if !ok {
				return false, "a two-index slice of " + why + ": its capacity extends over the neighbouring regions"
			}
			return ok, why
		case *ssa.Call:
			if callee := x.Call.StaticCallee(); callee != nil {
				switch callee.String() {
				case "(*bytes.Buffer).Bytes":
					return private(x.Call.Args[0], depth+1)
				case "bytes.NewBuffer":
					return private(x.Call.Args[0], depth+1)
				case "bytes.NewBufferString":
					return true, "copy of a string"
				case "bytes.Clone", "slices.Clone":
					return true, "clone"
				}
			}
			if isBuiltinCall(x, "append") && len(x.Call.Args) > 0 {
				return private(x.Call.Args[0], depth+1)
			}
			if isBuiltinCall(x, "new") {
				if inCycle(x.Block()) {
					return true, "new() in the loop body"
				}
			}
			return false, "the result of " + eventName(x)
		case *ssa.UnOp:
			if x.Op == token.MUL {
				return private(x.X, depth+1)
			}
		case *ssa.FieldAddr:
			return private(x.X, depth+1)
		case *ssa.Phi:
			for _, e := range x.Edges {
				if ok, why := private(e, depth+1); !ok {
					return false, why
				}
			}
			return true, "all incoming values"
		case *ssa.ChangeType:
			return private(x.X, depth+1)
		case *ssa.Convert:
			return private(x.X, depth+1)
		}
		return false, "a value the analysis cannot attribute to the current iteration"
	}
	_ = isBytesBuffer
	n := 0
	ord := ordinal{}
	for fn := range p.reachableFuncs(sl) {
		if pkgRelOf(p, fn) != "" {
			continue
		}
		for _, b := range fn.Blocks {
			for _, ins := range b.Instrs {
				st, ok := ins.(*ssa.Store)
				if !ok || fieldOfAddr(st.Addr) != dataF {
					continue
				}
				n++
				key := ord.next(funcDisplay(fn) + ":store(LogEntry.Data)")
				if !inCycle(b) {
					r.OK(key, posOf(p, st), "not in a loop: a single entry")
					continue
				}
				ok, why := private(st.Val, 0)
				r.Check(ok, key, posOf(p, st), "the entry's bytes live in storage of their own ("+why+")",
					"LogEntry.Data is set from "+why+": the entries of one batch are written only after all of them are encoded, so an entry that outgrows its share overwrites (or is overwritten by) its neighbour and corrupt bytes are acknowledged")
			}
		}
	}
	if n == 0 {
		r.Unknown("store-sites", p.Position(sl.Pos()), "no store to types.LogEntry.Data found on StoreLogs' path")
	}
}
