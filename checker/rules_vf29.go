package main

import (
	"go/token"
	"sort"
	"strings"

	"golang.org/x/tools/go/ssa"
)

// VF-29: constructor wiring.
//
// What a caller hands to an exported constructor must end up in the object on
// every path that returns it.  The verifier is configured entirely through
// NewLogStore's parameters (wrapped store, checkpoint predicate, report
// callback, metrics); a path that returns the store without the checkpoint
// predicate it was given - because some *other* parameter is nil, say - turns
// a leader into a plain pass-through that never stamps its checkpoints, and the
// followers then take themselves for leaders.
//
// For every parameter p of an exported New* function that is stored into a field
// of the returned object on some path: every path from the entry to a return
// passes such a store, or leaves through the `p == nil` edge (the field's zero
// value then equals what was passed).
func init() {
	register(&Rule{ID: "VF-29", Title: "constructor wiring: every parameter an exported constructor stores in the object is stored on all paths that return it",
		Props: []string{"C18", "C17"}, Floor: 4, Run: runVF29})
}

func runVF29(p *Prog, r *RuleRun) {
	var ctors []*ssa.Function
	for _, fn := range p.Funcs {
		if fn.Parent() != nil || fn.Signature.Recv() != nil || !strings.HasPrefix(fn.Name(), "New") || fn.Blocks == nil {
			continue
		}
		if !token.IsExported(fn.Name()) || !p.IsProdFunc(fn) {
			continue
		}
		ctors = append(ctors, fn)
	}
	sort.Slice(ctors, func(i, j int) bool { return ctors[i].String() < ctors[j].String() })
	haveVerifier := false
	for _, fn := range ctors {
		if pkgRelOf(p, fn) == "verifier" {
			haveVerifier = true
		}
		// value -> parameter it is (through interface boxing / conversions / phis with defaults)
		var paramOf func(v ssa.Value, depth int) *ssa.Parameter
		paramOf = func(v ssa.Value, depth int) *ssa.Parameter {
			if depth > 4 {
				return nil
			}
			switch x := v.(type) {
			case *ssa.Parameter:
				return x
			case *ssa.MakeInterface:
				return paramOf(x.X, depth+1)
			case *ssa.ChangeInterface:
				return paramOf(x.X, depth+1)
			case *ssa.ChangeType:
				return paramOf(x.X, depth+1)
			case *ssa.Convert:
				return paramOf(x.X, depth+1)
			case *ssa.Phi:
				for _, e := range x.Edges {
					if q := paramOf(e, depth+1); q != nil {
						return q
					}
				}
			}
			return nil
		}
		type wiring struct {
			prm    *ssa.Parameter
			field  string
			blocks map[*ssa.BasicBlock]bool
			pos    token.Pos
		}
		wires := map[string]*wiring{}
		for _, b := range fn.Blocks {
			for _, ins := range b.Instrs {
				st, ok := ins.(*ssa.Store)
				if !ok {
					continue
				}
				fa, ok := st.Addr.(*ssa.FieldAddr)
				if !ok {
					continue
				}
				if _, isAlloc := fa.X.(*ssa.Alloc); !isAlloc {
					continue
				}
				prm := paramOf(st.Val, 0)
				fld := fieldOfAddr(fa)
				if prm == nil || fld == nil {
					continue
				}
				k := prm.Name() + "->" + fld.Name()
				if wires[k] == nil {
					wires[k] = &wiring{prm: prm, field: fld.Name(), blocks: map[*ssa.BasicBlock]bool{}, pos: st.Pos()}
				}
				wires[k].blocks[b] = true
			}
		}
		var keys []string
		for k := range wires {
			keys = append(keys, k)
		}
		sort.Strings(keys)
		for _, k := range keys {
			w := wires[k]
			// search a path entry -> return that avoids the store and never takes the `p == nil` edge
			seen := map[*ssa.BasicBlock]bool{}
			var bad *ssa.BasicBlock
			var dfs func(b *ssa.BasicBlock)
			dfs = func(b *ssa.BasicBlock) {
				if bad != nil || seen[b] || w.blocks[b] {
					return
				}
				seen[b] = true
				if len(b.Instrs) == 0 {
					return
				}
				switch t := b.Instrs[len(b.Instrs)-1].(type) {
				case *ssa.Return:
					bad = b
					return
				case *ssa.If:
					skip := -1
					if bo, ok := t.Cond.(*ssa.BinOp); ok && (bo.Op == token.EQL || bo.Op == token.NEQ) {
						var other ssa.Value
						if paramOf(bo.X, 0) == w.prm {
							other = bo.Y
						} else if paramOf(bo.Y, 0) == w.prm {
							other = bo.X
						}
						if c, ok := other.(*ssa.Const); ok && c.IsNil() {
							if bo.Op == token.EQL {
								skip = 0 // true edge: p == nil
							} else {
								skip = 1
							}
						}
					}
					for i, s := range b.Succs {
						if i != skip {
							dfs(s)
						}
					}
					return
				}
				for _, s := range b.Succs {
					dfs(s)
				}
			}
			dfs(fn.Blocks[0])
			key := funcDisplay(fn) + ":" + k
			if bad == nil {
				r.OK(key, p.Position(w.pos), "parameter "+w.prm.Name()+" reaches field "+w.field+" on every path that returns (or is nil there)")
			} else {
				r.Fail(key, posOf(p, bad.Instrs[len(bad.Instrs)-1]), funcDisplay(fn)+" can return without storing its parameter "+w.prm.Name()+" into the field "+w.field+" it is stored into on other paths, although the parameter is not known to be nil there: the object silently ignores part of its configuration (e.g. a verifier built with a checkpoint predicate but no report callback stops stamping the leader's checkpoints)")
			}
		}
	}
	if !haveVerifier {
		r.Unknown("anchor:verifier.NewLogStore", "?", "no exported constructor found in package verifier")
	}
}
