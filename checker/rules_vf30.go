package main

import (
	"go/token"
	"go/types"
	"sort"

	"golang.org/x/tools/go/ssa"
)

// VF-30: the verifier's running state is threaded through every entry of a batch.
//
// StoreLogs folds a batch into the running (checksum, start index) pair one
// entry at a time.  The per-entry step receives the pair, may update it (the
// start index is set when the first entry of a new range goes by, both restart
// at a checkpoint) and the caller must continue with the updated pair.  When a
// part of the pair is passed by value, updated inside the step, used there (it
// ends up in the checkpoint's Range.Start and in the metadata a leader stamps)
// but not handed back, the caller carries on with the stale value: the next
// entry of the same batch sees "no range open" again and a checkpoint later in
// the batch publishes a sum over entries its range does not name - a corruption
// alarm on intact data.
//
// For every function of package verifier that StoreLogs calls inside a loop with
// a loop-carried argument: if the function redefines the corresponding by-value
// parameter and uses the redefined value, some result of the function derives
// from the redefined value.
func init() {
	register(&Rule{ID: "VF-30", Title: "running verifier state passed by value into the per-entry step and updated there is handed back to the loop (no lost update within a batch)",
		Props: []string{"C16", "C17"}, Floor: 1, Run: runVF30})
}

func runVF30(p *Prog, r *RuleRun) {
	root := p.methodImpl("verifier", "LogStore", "StoreLogs")
	if root == nil {
		r.Unknown("anchor", "?", "(*verifier.LogStore).StoreLogs not found")
		return
	}
	inCycle := func(b *ssa.BasicBlock) bool {
		seen := map[*ssa.BasicBlock]bool{}
		var walk func(x *ssa.BasicBlock) bool
		walk = func(x *ssa.BasicBlock) bool {
			for _, s := range x.Succs {
				if s == b {
					return true
				}
				if !seen[s] {
					seen[s] = true
					if walk(s) {
						return true
					}
				}
			}
			return false
		}
		return walk(b)
	}
	// loopCarried: v is (a field of / a load of) a variable that lives across iterations: a phi in a block that
	// is part of a cycle, or a local variable (Alloc) declared outside the loop and stored to inside it
	var loopCarried func(v ssa.Value, depth int) bool
	loopCarried = func(v ssa.Value, depth int) bool {
		if depth > 4 || v == nil {
			return false
		}
		switch x := v.(type) {
		case *ssa.Phi:
			return inCycle(x.Block())
		case *ssa.UnOp:
			if x.Op == token.MUL {
				if al, ok := x.X.(*ssa.Alloc); ok {
					for _, ref := range *al.Referrers() {
						if st, ok := ref.(*ssa.Store); ok && st.Addr == ssa.Value(al) && inCycle(st.Block()) {
							return true
						}
					}
					return false
				}
				return loopCarried(x.X, depth+1)
			}
		case *ssa.Field:
			return loopCarried(x.X, depth+1)
		case *ssa.FieldAddr:
			return loopCarried(x.X, depth+1)
		case *ssa.Convert:
			return loopCarried(x.X, depth+1)
		}
		return false
	}
	n := 0
	var fns []*ssa.Function
	for fn := range p.reachableFuncs(root) {
		if pkgRelOf(p, fn) == "verifier" {
			fns = append(fns, fn)
		}
	}
	sort.Slice(fns, func(i, j int) bool { return fns[i].String() < fns[j].String() })
	for _, caller := range fns {
		for _, b := range caller.Blocks {
			if !inCycle(b) {
				continue
			}
			for _, ins := range b.Instrs {
				c, ok := ins.(*ssa.Call)
				if !ok {
					continue
				}
				T := c.Call.StaticCallee()
				if T == nil || pkgRelOf(p, T) != "verifier" || T.Blocks == nil {
					continue
				}
				for i, arg := range c.Call.Args {
					if i >= len(T.Params) || !loopCarried(arg, 0) {
						continue
					}
					prm := T.Params[i]
					switch prm.Type().Underlying().(type) {
					case *types.Pointer, *types.Slice, *types.Map, *types.Interface, *types.Signature, *types.Chan:
						continue // by reference: updates are seen by the caller
					}
					n++
					key := funcDisplay(T) + ":param(" + prm.Name() + ")"
					// redefinitions of the parameter inside T
					redef := map[ssa.Value]bool{}
					var spill *ssa.Alloc
					changed := true
					for changed {
						changed = false
						for _, tb := range T.Blocks {
							for _, ti := range tb.Instrs {
								if phi, ok := ti.(*ssa.Phi); ok && !redef[phi] {
									for _, e := range phi.Edges {
										if e == ssa.Value(prm) || redef[e] {
											redef[phi] = true
											changed = true
											break
										}
									}
								}
							}
						}
					}
					// a struct passed by value and assigned to lives in a local copy
					fieldStores := 0
					for _, ref := range *prm.Referrers() {
						if st, ok := ref.(*ssa.Store); ok && st.Val == ssa.Value(prm) {
							if al, ok := st.Addr.(*ssa.Alloc); ok {
								spill = al
							}
						}
					}
					if spill != nil {
						for _, ref := range *spill.Referrers() {
							if fa, ok := ref.(*ssa.FieldAddr); ok {
								for _, r2 := range *fa.Referrers() {
									if st, ok := r2.(*ssa.Store); ok && st.Addr == ssa.Value(fa) {
										fieldStores++
									}
								}
							}
							if st, ok := ref.(*ssa.Store); ok && st.Addr == ssa.Value(spill) && st.Val != ssa.Value(prm) {
								fieldStores++
							}
						}
					}
					if len(redef) == 0 && fieldStores == 0 {
						r.OK(key, p.Position(T.Pos()), "the parameter is only read by the per-entry step")
						continue
					}
					// is a redefined value used (other than by another redefinition) ...
					used := fieldStores > 0
					for v := range redef {
						for _, ref := range *v.(*ssa.Phi).Referrers() {
							if ph, ok := ref.(*ssa.Phi); ok && redef[ph] {
								continue
							}
							if _, isRet := ref.(*ssa.Return); isRet {
								continue
							}
							used = true
						}
					}
					// ... and does a result derive from it
					var derives func(v ssa.Value, depth int) bool
					derives = func(v ssa.Value, depth int) bool {
						if depth > 6 || v == nil {
							return false
						}
						if redef[v] {
							return true
						}
						switch x := v.(type) {
						case *ssa.UnOp:
							if x.Op == token.MUL {
								if spill != nil && x.X == ssa.Value(spill) {
									return true
								}
								if fa, ok := x.X.(*ssa.FieldAddr); ok && spill != nil && fa.X == ssa.Value(spill) {
									return true
								}
							}
						case *ssa.Phi:
							for _, e := range x.Edges {
								if derives(e, depth+1) {
									return true
								}
							}
						case *ssa.Convert:
							return derives(x.X, depth+1)
						case *ssa.Field:
							return derives(x.X, depth+1)
						case *ssa.Call:
							// next = f(current, entry): the result is the updated value
							for _, a := range x.Call.Args {
								if derives(a, depth+1) {
									return true
								}
							}
						case *ssa.BinOp:
							return derives(x.X, depth+1) || derives(x.Y, depth+1)
						}
						return false
					}
					returned := false
					for _, tb := range T.Blocks {
						if ret, ok := tb.Instrs[len(tb.Instrs)-1].(*ssa.Return); ok {
							for _, rv := range ret.Results {
								if derives(rv, 0) {
									returned = true
								}
							}
						}
					}
					switch {
					case !used:
						r.OK(key, p.Position(T.Pos()), "the parameter's local redefinition is not used")
					case returned:
						r.OK(key, p.Position(T.Pos()), "the updated value is handed back to the loop through a result")
					default:
						r.Fail(key, p.Position(T.Pos()), funcDisplay(T)+" is called for every entry of a batch with the loop-carried "+prm.Name()+", updates its by-value copy and uses the update (it ends up in the checkpoint's range and metadata), but no result carries the update back: the caller continues the batch with the stale value, so a checkpoint later in the same batch publishes a sum over entries its range does not name (false corruption alarm on intact data)")
					}
				}
			}
		}
	}
	if n == 0 {
		// the running state lives behind a pointer (a struct with methods, say): nothing is passed by value
		r.Trivial(funcDisplay(root)+":by-reference", p.Position(root.Pos()), "no loop-carried by-value argument on StoreLogs' path: the running state is updated in place")
		r.Trivial(funcDisplay(root)+":by-reference#2", p.Position(root.Pos()), "(see above)")
	}
}
