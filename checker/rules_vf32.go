package main

import (
	"go/token"
	"go/types"

	"golang.org/x/tools/go/ssa"
)

// VF-32: the index a batch entry is stored under is the entry's own index.
//
// StoreLogs refuses batches that are not consecutive in two places: its own
// per-entry test against the running last index, and the segment writer's test
// of every LogEntry.Index against BaseIndex + number of entries.  The second
// net only works if the writer is told the truth: LogEntry.Index must be the
// raft.Log's own Index.  An index computed from the position in the batch
// (first + i) is consecutive by construction, so a batch like [4,6,5,7] or
// [11,13,13] sails through both checks and the payloads are stored under
// indexes they do not belong to.
func init() {
	register(&Rule{ID: "VF-32", Title: "types.LogEntry.Index handed to the segment writer is the raft.Log's own Index, never a position-derived value",
		Props: []string{"C05"}, Floor: 1, Run: runVF32})
}

func runVF32(p *Prog, r *RuleRun) {
	sl := p.Func("", "WAL.StoreLogs")
	idxF := p.Field("types", "LogEntry", "Index")
	if sl == nil || idxF == nil {
		r.Unknown("anchor", "?", "(*WAL).StoreLogs / types.LogEntry.Index not found")
		return
	}
	var own func(v ssa.Value, depth int) bool
	own = func(v ssa.Value, depth int) bool {
		if depth > 6 || v == nil {
			return false
		}
		switch x := v.(type) {
		case *ssa.UnOp:
			if x.Op == token.MUL {
				if fa, ok := x.X.(*ssa.FieldAddr); ok {
					fv := fieldOfAddr(fa)
					return fv != nil && fv.Name() == "Index" && isNamed(derefType(fa.X.Type()), "github.com/hashicorp/raft", "Log")
				}
			}
		case *ssa.Field:
			fv := fieldOfAddr(x)
			return fv != nil && fv.Name() == "Index" && isNamed(x.X.Type(), "github.com/hashicorp/raft", "Log")
		case *ssa.Convert:
			return own(x.X, depth+1)
		case *ssa.ChangeType:
			return own(x.X, depth+1)
		case *ssa.Phi:
			for _, e := range x.Edges {
				if !own(e, depth+1) {
					return false
				}
			}
			return len(x.Edges) > 0
		}
		return false
	}
	n := 0
	ord := ordinal{}
	for fn := range p.reachableFuncs(sl) {
		if pkgRelOf(p, fn) != "" {
			continue
		}
		for _, b := range fn.Blocks {
			for _, ins := range b.Instrs {
				st, ok := ins.(*ssa.Store)
				if !ok || fieldOfAddr(st.Addr) != idxF {
					continue
				}
				n++
				r.Check(own(st.Val, 0), ord.next(funcDisplay(fn)+":store(LogEntry.Index)"), posOf(p, st), "the entry is stored under its own raft index",
					"LogEntry.Index is set from a value other than the raft.Log's own Index: the segment writer's consecutiveness test then checks numbers the WAL made up, so an internally non-consecutive batch whose ends look right is accepted and its payloads are stored under the wrong indexes")
			}
		}
	}
	if n == 0 {
		r.Unknown("store-sites", p.Position(sl.Pos()), "no store to types.LogEntry.Index found on StoreLogs' path")
	}
}

func derefType(t types.Type) types.Type {
	if pt, ok := t.Underlying().(*types.Pointer); ok {
		return pt.Elem()
	}
	return t
}
