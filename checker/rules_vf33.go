package main

import (
	"go/token"
	"go/types"

	"golang.org/x/tools/go/ssa"
)

// VF-33: migration works for every batch size.
//
// CopyLogs takes the batch size in bytes from its caller and the property
// quantifies over all of them ("0, 1, ..., huge").  Sizing an allocation from
// that parameter without clamping it makes the extreme values panic
// (makeslice: cap out of range for MaxInt or a negative size) or reserve
// hundreds of GiB, where the loop itself handles them fine.
func init() {
	register(&Rule{ID: "VF-33", Title: "migrate: no allocation is sized by a caller-supplied integer without a dominating bound on both sides",
		Props: []string{"C19"}, Floor: 1, Run: runVF33})
}

func runVF33(p *Prog, r *RuleRun) {
	n := 0
	ord := ordinal{}
	for _, fn := range p.Funcs {
		if pkgRelOf(p, fn) != "migrate" || fn.Blocks == nil {
			continue
		}
		// root function (closures see the parameters of their parent)
		var paramOf func(v ssa.Value, depth int) *ssa.Parameter
		paramOf = func(v ssa.Value, depth int) *ssa.Parameter {
			if depth > 8 || v == nil {
				return nil
			}
			switch x := v.(type) {
			case *ssa.Parameter:
				if b, ok := x.Type().Underlying().(*types.Basic); ok && b.Info()&types.IsInteger != 0 {
					return x
				}
			case *ssa.Convert:
				return paramOf(x.X, depth+1)
			case *ssa.BinOp:
				if q := paramOf(x.X, depth+1); q != nil {
					return q
				}
				return paramOf(x.Y, depth+1)
			case *ssa.Phi:
				for _, e := range x.Edges {
					if q := paramOf(e, depth+1); q != nil {
						return q
					}
				}
			case *ssa.UnOp:
				if x.Op == token.MUL {
					if fv, ok := x.X.(*ssa.FreeVar); ok && fn.Parent() != nil {
						_ = fv
					}
				}
			}
			return nil
		}
		for _, b := range fn.Blocks {
			for _, ins := range b.Instrs {
				if al, ok := ins.(*ssa.Alloc); ok && al.Comment == "makeslice" {
					// a make() with constant size is compiled to an array allocation
					n++
					r.OK(ord.next(funcDisplay(fn)+":make"), posOf(p, al), "constant-size allocation")
					continue
				}
				ms, ok := ins.(*ssa.MakeSlice)
				if !ok {
					continue
				}
				n++
				key := ord.next(funcDisplay(fn) + ":make")
				var prm *ssa.Parameter
				for _, op := range []ssa.Value{ms.Len, ms.Cap} {
					if q := paramOf(op, 0); q != nil {
						prm = q
					}
				}
				if prm == nil {
					r.OK(key, posOf(p, ms), "allocation size does not depend on a caller-supplied integer")
					continue
				}
				// both bounds established on the parameter by comparisons with constants that dominate the place
				// where the parameter-derived value is computed (for a phi: each incoming edge separately)
				var boundedAt func(v ssa.Value, at *ssa.BasicBlock, depth int) bool
				guards := func(at *ssa.BasicBlock) bool {
					upper, lower := false, false
					b := at
					for _, gb := range fn.Blocks {
						if len(gb.Instrs) == 0 {
							continue
						}
						ifi, ok := gb.Instrs[len(gb.Instrs)-1].(*ssa.If)
						if !ok {
							continue
						}
						bo, ok := ifi.Cond.(*ssa.BinOp)
						if !ok || paramOf(bo.X, 0) != prm {
							continue
						}
						if _, isC := bo.Y.(*ssa.Const); !isC {
							continue
						}
						for side, succ := range gb.Succs {
							if !(succ == b || succ.Dominates(b)) || len(succ.Preds) != 1 {
								continue
							}
							truth := side == 0
							le := (bo.Op == token.LEQ || bo.Op == token.LSS) && truth || (bo.Op == token.GTR || bo.Op == token.GEQ) && !truth
							ge := (bo.Op == token.GEQ || bo.Op == token.GTR) && truth || (bo.Op == token.LSS || bo.Op == token.LEQ) && !truth
							upper = upper || le
							lower = lower || ge
						}
					}
					return upper && lower
				}
				boundedAt = func(v ssa.Value, at *ssa.BasicBlock, depth int) bool {
					if depth > 6 || paramOf(v, 0) == nil {
						return true // does not depend on the parameter
					}
					if phi, ok := v.(*ssa.Phi); ok {
						for i, e := range phi.Edges {
							if !boundedAt(e, phi.Block().Preds[i], depth+1) {
								return false
							}
						}
						return true
					}
					return guards(at)
				}
				okBounds := boundedAt(ms.Len, b, 0) && boundedAt(ms.Cap, b, 0)
				r.Check(okBounds, key, posOf(p, ms), "the allocation is sized by "+prm.Name()+" only within constant bounds",
					"an allocation in "+funcDisplay(fn)+" is sized by the caller-supplied "+prm.Name()+" without a dominating bound on both sides: a huge value (\"no limit\") or a negative one makes make() panic or reserve an absurd amount of memory, although the copy loop handles every batch size")
			}
		}
	}
	if n == 0 {
		r.Unknown("allocations", "?", "no make() found in package migrate")
	}
}
