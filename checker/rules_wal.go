package main

import (
	"fmt"
	"go/token"
	"go/types"
	"strings"

	"golang.org/x/tools/go/ssa"
)

func init() {
	register(&Rule{ID: "ORD-11", Title: "metadata names a segment before its file is created",
		Props: []string{"C01", "C03", "C13", "C10", "C04"}, Floor: 2, Run: runORD11})
	register(&Rule{ID: "ORD-12", Title: "in-memory state is published only after the metadata commit and the post-commit step",
		Props: []string{"C01", "C04", "C06", "C10"}, Floor: 2, Run: runORD12})
	register(&Rule{ID: "ORD-13", Title: "finalizers are attached only after commit+publish and run only on the last release",
		Props: []string{"C01", "C04", "C06", "C13"}, Floor: 3, Run: runORD13})
	register(&Rule{ID: "ORD-14", Title: "StoreLogs: success implies the tail append succeeded; nothing can fail after it",
		Props: []string{"C01", "C05", "C10"}, Floor: 3, Run: runORD14})
	register(&Rule{ID: "ORD-15", Title: "writers hold writeMu and have awaited a pending rotation when they load the state",
		Props: []string{"C03", "C06", "C04"}, Floor: 2, Run: runORD15})
	register(&Rule{ID: "ORD-16", Title: "rotation hand-off: trigger sent with the await channel in place; every rotation iteration wakes the waiter",
		Props: []string{"C03", "C10", "C14"}, Floor: 2, Run: runORD16})
	register(&Rule{ID: "ORD-17", Title: "Open ends with the state stored, the orphan sweep done and the rotation goroutine started",
		Props: []string{"C01", "C03", "C13"}, Floor: 1, Run: runORD17})
	register(&Rule{ID: "ORD-18", Title: "a tail file lost by the crash is recreated from the persisted SegmentInfo",
		Props: []string{"C01", "C03"}, Floor: 1, Run: runORD18})
}

// walRoots returns the mutating roots of package wal: Open, StoreLogs,
// DeleteRange, Close and the body of the goroutine Open starts.
func walRoots(p *Prog, v *walVocab) (open, storeLogs, deleteRange, closeFn, rotate *ssa.Function) {
	open = p.Func("", "Open")
	storeLogs = p.Func("", "WAL.StoreLogs")
	deleteRange = p.Func("", "WAL.DeleteRange")
	closeFn = p.Func("", "WAL.Close")
	if open != nil {
		for fn := range p.reachableFuncs(open) {
			for _, b := range fn.Blocks {
				for _, ins := range b.Instrs {
					if g, ok := ins.(*ssa.Go); ok {
						if c := g.Call.StaticCallee(); c != nil && p.IsProdFunc(c) {
							rotate = c
						}
					}
				}
			}
		}
	}
	return
}

func checkWalAnchors(r *RuleRun, v *walVocab, fns map[string]*ssa.Function) bool {
	ok := true
	if len(v.missing) > 0 {
		r.Unknown("anchor", "?", "unresolved anchors: "+strings.Join(v.missing, ", "))
		ok = false
	}
	for n, f := range fns {
		if f == nil {
			r.Unknown("anchor:"+n, "?", "root "+n+" not found")
			ok = false
		}
	}
	return ok
}

func trace(f *Fact) string { return strings.Join(f.Trace, " > ") }

// derivesFromCall reports whether v is computed from the result of a call
// satisfying pred by loads, field/element selection, extraction, phis and copies.
func derivesFromCall(v ssa.Value, pred func(c *ssa.Call) bool) bool {
	seen := map[ssa.Value]bool{}
	var walk func(v ssa.Value) bool
	walk = func(v ssa.Value) bool {
		if v == nil || seen[v] {
			return false
		}
		seen[v] = true
		switch x := v.(type) {
		case *ssa.Call:
			return pred(x)
		case *ssa.UnOp:
			return walk(x.X)
		case *ssa.IndexAddr:
			return walk(x.X)
		case *ssa.Index:
			return walk(x.X)
		case *ssa.Field:
			return walk(x.X)
		case *ssa.FieldAddr:
			return walk(x.X)
		case *ssa.Extract:
			return walk(x.Tuple)
		case *ssa.Slice:
			return walk(x.X)
		case *ssa.ChangeType:
			return walk(x.X)
		case *ssa.Convert:
			return walk(x.X)
		case *ssa.Phi:
			for _, e := range x.Edges {
				if walk(e) {
					return true
				}
			}
		case *ssa.TypeAssert:
			return walk(x.X)
		case *ssa.MakeInterface:
			return walk(x.X)
		case *ssa.ChangeInterface:
			return walk(x.X)
		case *ssa.Next:
			return walk(x.Iter)
		case *ssa.Range:
			return walk(x.X)
		case *ssa.Alloc:
			for _, ref := range *x.Referrers() {
				if st, ok := ref.(*ssa.Store); ok && st.Addr == x && walk(st.Val) {
					return true
				}
			}
		}
		return false
	}
	return walk(v)
}

// sameLoad: a and b are the same SSA value or structurally the same load
// (same field path from the same base), e.g. two reads of seg.MinIndex.
func sameLoad(a, b ssa.Value) bool {
	return sameExpr(a, b, 0)
}

func sameExpr(a, b ssa.Value, depth int) bool {
	if a == b {
		return true
	}
	if depth > 6 || a == nil || b == nil {
		return false
	}
	switch x := a.(type) {
	case *ssa.UnOp:
		y, ok := b.(*ssa.UnOp)
		return ok && x.Op == y.Op && sameExpr(x.X, y.X, depth+1)
	case *ssa.FieldAddr:
		y, ok := b.(*ssa.FieldAddr)
		return ok && x.Field == y.Field && sameExpr(x.X, y.X, depth+1)
	case *ssa.Field:
		y, ok := b.(*ssa.Field)
		return ok && x.Field == y.Field && sameExpr(x.X, y.X, depth+1)
	case *ssa.BinOp:
		y, ok := b.(*ssa.BinOp)
		return ok && x.Op == y.Op && sameExpr(x.X, y.X, depth+1) && sameExpr(x.Y, y.Y, depth+1)
	case *ssa.Convert:
		y, ok := b.(*ssa.Convert)
		return ok && types.Identical(x.Type(), y.Type()) && sameExpr(x.X, y.X, depth+1)
	case *ssa.Const:
		y, ok := b.(*ssa.Const)
		return ok && x.Value != nil && y.Value != nil && x.Value.String() == y.Value.String()
	}
	return false
}

// ---------------------------------------------------------------- ORD-11

func runORD11(p *Prog, r *RuleRun) {
	v := newWalVocab(p)
	open, sl, dr, _, rot := walRoots(p, v)
	if !checkWalAnchors(r, v, map[string]*ssa.Function{"Open": open, "StoreLogs": sl, "DeleteRange": dr, "rotation goroutine": rot}) {
		return
	}
	spec := v.baseSpec("metadata-before-file")
	spec.OnEvent = func(cx *Ctx, ev, phase string, ins ssa.Instruction, f *Fact) {
		switch {
		case ev == "MetaStore.CommitState" && phase == "call", ev == "STATE.Store" && phase == "call", ev == "TXN" && phase == "call":
			f.Kill("MetaStore.CommitState:ok")
		case ev == "SegmentFiler.Create" && phase == "call":
			ci := ins.(ssa.CallInstruction)
			key := cx.Key(ins, "SegmentFiler.Create")
			fromLoad := cx.Fr.Root().Fn == open && cx.Eval(ci.Common().Args[0], f).Tag == "~persisted" || cx.Fr.Root().Fn == open && derivesFromCall(ci.Common().Args[0], func(c *ssa.Call) bool { return eventName(c) == "types.MetaStore.Load" })
			switch {
			case f.Must["MetaStore.CommitState:ok"]:
				r.OK(key, posOf(p, ins), "file created after CommitState:ok of the state naming it ("+cx.Fr.Stack()+")")
			case fromLoad:
				r.OK(key, posOf(p, ins), "the SegmentInfo comes from MetaStore.Load: already named by durable metadata")
			default:
				r.Fail(key, posOf(p, ins), "a segment file is created before the metadata naming it (and its ID) is committed: a crash leaves a file whose ID may be handed out again; via "+cx.Fr.Stack()+"; path: "+trace(f))
			}
		}
	}
	eng := newOrdEngine(p, spec)
	for _, root := range []*ssa.Function{open, sl, dr, rot} {
		eng.RunRoot(root, nil)
	}
	finishEngine(r, eng)
}

func finishEngine(r *RuleRun, eng *OrdEngine) {
	if eng.Aborted != "" {
		r.Unknown("engine", "?", eng.Aborted)
	}
	r.Stats["engine_steps"] += eng.Steps
	r.Stats["functions_inlined"] += len(eng.Inlined)
	r.Stats["events"] += eng.Events
}

// ---------------------------------------------------------------- ORD-12

func runORD12(p *Prog, r *RuleRun) {
	v := newWalVocab(p)
	open, sl, dr, _, rot := walRoots(p, v)
	if !checkWalAnchors(r, v, map[string]*ssa.Function{"Open": open, "StoreLogs": sl, "DeleteRange": dr, "rotation goroutine": rot}) {
		return
	}
	spec := v.baseSpec("publish-after-commit")
	spec.OnBranch = func(cx *Ctx, ifi *ssa.If, truth bool, f *Fact) {
		bo, ok := ifi.Cond.(*ssa.BinOp)
		if !ok || (bo.Op != token.EQL && bo.Op != token.NEQ) {
			return
		}
		c, isC := bo.Y.(*ssa.Const)
		if !isC || !c.IsNil() || !v.isPostCommit(cx, bo.X, f) {
			return
		}
		if (bo.Op == token.EQL) == truth {
			f.TS["post"] = "nil"
		}
	}
	spec.OnEvent = func(cx *Ctx, ev, phase string, ins ssa.Instruction, f *Fact) {
		switch {
		case ev == "TXN" && phase == "call":
			f.Kill("MetaStore.CommitState:ok")
			delete(f.TS, "post")
		case ev == "MetaStore.CommitState" && phase == "call":
			f.Kill("MetaStore.CommitState:ok")
		case ev == "POSTCOMMIT" && phase == "ok":
			f.TS["post"] = "done"
		case ev == "ALLOC-ID":
			f.TS["newid"] = "1"
		case ev == "STATE.Store" && phase == "call":
			key := cx.Key(ins, "STATE.Store")
			pos := posOf(p, ins)
			if cx.Fr.Root().Fn == open {
				if f.TS["newid"] == "" || f.Must["MetaStore.CommitState:ok"] {
					r.OK(key, pos, "Open publishes either the state as loaded or a state it committed first")
				} else {
					r.Fail(key, pos, "Open publishes a state with a newly allocated segment that was not committed to the meta store on this path: "+trace(f))
				}
				return
			}
			switch {
			case !f.Must["MetaStore.CommitState:ok"]:
				r.Fail(key, pos, "the new state becomes visible to readers without a successful metadata commit; via "+cx.Fr.Stack()+"; path: "+trace(f))
			case f.TS["post"] != "nil" && f.TS["post"] != "done":
				r.Fail(key, pos, "the new state becomes visible although the post-commit step (creating the new segment file) did not succeed or was skipped: the published tail may be nil/unusable; via "+cx.Fr.Stack()+"; path: "+trace(f))
			default:
				r.OK(key, pos, "published after CommitState:ok and post-commit "+f.TS["post"]+" ("+cx.Fr.Stack()+")")
			}
			f.Kill("MetaStore.CommitState:ok")
		}
	}
	eng := newOrdEngine(p, spec)
	for _, root := range []*ssa.Function{open, sl, dr, rot} {
		eng.RunRoot(root, nil)
	}
	finishEngine(r, eng)
}

// ---------------------------------------------------------------- ORD-13

func runORD13(p *Prog, r *RuleRun) {
	v := newWalVocab(p)
	open, sl, dr, cl, rot := walRoots(p, v)
	rel := p.Func("", "state.release")
	if !checkWalAnchors(r, v, map[string]*ssa.Function{"Open": open, "StoreLogs": sl, "DeleteRange": dr, "Close": cl, "rotation goroutine": rot, "(*state).release": rel}) {
		return
	}
	spec := v.baseSpec("finalizer-attach")
	spec.OnEvent = func(cx *Ctx, ev, phase string, ins ssa.Instruction, f *Fact) {
		switch {
		case ev == "TXN" && phase == "call":
			f.Kill("MetaStore.CommitState:ok", "STATE.Store")
		case ev == "FIN.Store" && phase == "call":
			key := cx.Key(ins, "FIN.Store")
			if cx.Fr.Root().Fn == cl {
				r.Check(f.Must["STATE.Store"] && f.Must["HELD"], key, posOf(p, ins), "Close attaches the closers after the emptied state is published, under the lock",
					"Close attaches the file closers before the emptied state is published (or outside the lock): a reader could still pin the old state after its files were closed; path: "+trace(f))
				return
			}
			ok := f.Must["MetaStore.CommitState:ok"] && f.Must["STATE.Store"]
			r.Check(ok, key, posOf(p, ins), "finalizer attached after CommitState:ok and the state switch ("+cx.Fr.Stack()+")",
				fmt.Sprintf("a finalizer (which deletes/closes segment files) is attached without commit+publish before it (CommitState:ok=%v STATE.Store=%v): files could be deleted while metadata still lists them; path: %s", f.Must["MetaStore.CommitState:ok"], f.Must["STATE.Store"], trace(f)))
		case ev == "LOCK":
			f.Add("HELD")
		case ev == "UNLOCK":
			f.Drop("HELD")
		}
	}
	eng := newOrdEngine(p, spec)
	for _, root := range []*ssa.Function{sl, dr, rot, cl} {
		eng.RunRoot(root, nil)
	}
	finishEngine(r, eng)

	// (*state).release: the finalizer runs only when the count dropped to zero, after being swapped out
	nRun := 0
	rspec := v.baseSpec("release")
	base := rspec.Call
	rspec.Call = func(cx *Ctx, ci ssa.CallInstruction) CallInfo {
		cc := ci.Common()
		if cc.StaticCallee() == nil && !cc.IsInvoke() {
			if _, isB := cc.Value.(*ssa.Builtin); !isB && derivesFromCall(cc.Value, func(c *ssa.Call) bool {
				n := eventName(c)
				return strings.HasPrefix(n, "atomic.Value.") && len(c.Call.Args) > 0 && fieldOfAddr(c.Call.Args[0]) == v.finalizer
			}) {
				return CallInfo{Event: "FINRUN", Primitive: true}
			}
		}
		return base(cx, ci)
	}
	rspec.OnBranch = func(cx *Ctx, ifi *ssa.If, truth bool, f *Fact) {
		bo, ok := ifi.Cond.(*ssa.BinOp)
		if !ok {
			return
		}
		c, isC := bo.Y.(*ssa.Const)
		call, isCall := bo.X.(*ssa.Call)
		if !isC || !isCall || !strings.HasPrefix(eventName(call), "atomic.Add") || fieldOfAddr(call.Call.Args[0]) != v.refCount {
			return
		}
		if c.Int64() == 0 && (bo.Op == token.EQL) == truth {
			f.TS["rc"] = "zero"
		}
	}
	rspec.OnEvent = func(cx *Ctx, ev, phase string, ins ssa.Instruction, f *Fact) {
		if ev == "FINRUN" && phase == "call" {
			nRun++
			key := cx.Key(ins, "run-finalizer")
			ok := f.TS["rc"] == "zero" && f.Must["FIN.Swap"]
			r.Check(ok, key, posOf(p, ins), "finalizer invoked only on the count==0 branch, after being swapped out of the cell",
				fmt.Sprintf("the finalizer can run while readers still pin the state or can run twice (count==0 branch: %v, swapped out first: %v)", f.TS["rc"] == "zero", f.Must["FIN.Swap"]))
		}
	}
	e2 := newOrdEngine(p, rspec)
	e2.RunRoot(rel, nil)
	finishEngine(r, e2)
	if nRun == 0 {
		r.Fail("(*wal.state).release:run-finalizer", p.Position(rel.Pos()), "(*state).release never invokes the stored finalizer: truncated segment files are never closed or deleted")
	}
}

// ---------------------------------------------------------------- ORD-14

func runORD14(p *Prog, r *RuleRun) {
	v := newWalVocab(p)
	_, sl, _, _, _ := walRoots(p, v)
	if !checkWalAnchors(r, v, map[string]*ssa.Function{"StoreLogs": sl}) {
		return
	}
	spec := v.baseSpec("storelogs")
	base := spec.Call
	spec.Call = func(cx *Ctx, ci ssa.CallInstruction) CallInfo {
		info := base(cx, ci)
		// Sealed() and friends: infallible if every production implementation returns a constant nil error
		if ci.Common().IsInvoke() && info.Event != "" && resultErrIndex(ci.Common().Signature()) >= 0 {
			cands := cx.E.cgCallees(ci)
			all := len(cands) > 0
			for _, c := range cands {
				if !p.IsProdFunc(c) || !infallible(c) {
					all = false
				}
			}
			info.Infallible = all
		}
		return info
	}
	spec.OnReturn = func(cx *Ctx, ret *ssa.Return, class RetClass, f *Fact) {
		key := cx.Key(ret, "return")
		pos := posOf(p, ret)
		if class == RetSuccess || class == RetEither {
			if !f.May["LOCK"] {
				r.OK(key, pos, "early exit before the write lock (empty batch / closed): nothing to append")
			} else {
				r.Check(f.Must["SegmentWriter.Append:ok"], key, pos, "StoreLogs returns nil only after tail.Append succeeded",
					"StoreLogs returns nil on a path where the tail's Append did not succeed: entries are acknowledged but were never written; path: "+trace(f))
			}
		}
		if class == RetFailure || class == RetEither {
			r.Check(!f.May["SegmentWriter.Append:ok"], key+":fail", pos, "no failure return is reachable after Append:ok",
				"StoreLogs can return an error after the tail's Append succeeded: the batch is durable and visible but reported as failed (raft will retry/diverge); path: "+trace(f))
		}
	}
	eng := newOrdEngine(p, spec)
	eng.RunRoot(sl, nil)
	finishEngine(r, eng)
}

// ---------------------------------------------------------------- ORD-15

func runORD15(p *Prog, r *RuleRun) {
	v := newWalVocab(p)
	_, sl, dr, _, _ := walRoots(p, v)
	if !checkWalAnchors(r, v, map[string]*ssa.Function{"StoreLogs": sl, "DeleteRange": dr}) {
		return
	}
	spec := v.baseSpec("writers-serialise")
	spec.OnBranch = func(cx *Ctx, ifi *ssa.If, truth bool, f *Fact) {
		bo, ok := ifi.Cond.(*ssa.BinOp)
		if !ok || (bo.Op != token.EQL && bo.Op != token.NEQ) {
			return
		}
		c, isC := bo.Y.(*ssa.Const)
		if loadedField(bo.X) != v.await || !isC || !c.IsNil() {
			return
		}
		if (bo.Op == token.EQL) == truth && f.Must["HELD"] {
			f.TS["aw"] = "none-pending"
		}
	}
	spec.OnEvent = func(cx *Ctx, ev, phase string, ins ssa.Instruction, f *Fact) {
		switch ev {
		case "LOCK":
			f.Add("HELD")
		case "UNLOCK":
			f.Drop("HELD")
		case "RECV(await)":
			f.TS["aw"] = "waited"
		case "STATE.Load":
			if phase != "call" || f.TS["first-load"] != "" {
				return
			}
			f.TS["first-load"] = "seen"
			key := funcDisplay(cx.Fr.Root().Fn) + ":first-state-load"
			ok := f.Must["HELD"] && f.TS["aw"] != ""
			r.Check(ok, key, posOf(p, ins), "state loaded with writeMu held and pending rotation "+f.TS["aw"],
				fmt.Sprintf("%s loads the WAL state without holding writeMu (held=%v) or without first waiting for a pending rotation (await=%q): it would append to a sealed tail or race the rotation; path: %s", funcDisplay(cx.Fr.Root().Fn), f.Must["HELD"], f.TS["aw"], trace(f)))
		}
	}
	eng := newOrdEngine(p, spec)
	eng.RunRoot(sl, nil)
	eng.RunRoot(dr, nil)
	finishEngine(r, eng)
}

// ---------------------------------------------------------------- ORD-16

func runORD16(p *Prog, r *RuleRun) {
	v := newWalVocab(p)
	_, sl, _, _, rot := walRoots(p, v)
	if !checkWalAnchors(r, v, map[string]*ssa.Function{"StoreLogs": sl, "rotation goroutine": rot}) {
		return
	}
	nSend := 0
	spec := v.baseSpec("rotation-handoff")
	iterCheck := func(cx *Ctx, ins ssa.Instruction, f *Fact, where string) {
		key := funcDisplay(rot) + ":iteration-end:" + where
		ok := f.Must["AWAIT=nil"] && f.Must["CLOSE(await)"] && f.TS["clr"] == "locked"
		r.Check(ok, key, posOf(p, ins), "every completed rotation iteration clears the await field under the lock and closes the awaited channel",
			fmt.Sprintf("a rotation iteration can end without waking the writer that waits for it (field cleared under lock: %v, channel closed: %v): the next StoreLogs blocks forever; path: %s", f.Must["AWAIT=nil"] && f.TS["clr"] == "locked", f.Must["CLOSE(await)"], trace(f)))
	}
	spec.OnBranch = func(cx *Ctx, ifi *ssa.If, truth bool, f *Fact) {
		if o := v.closedObs(ifi, truth); o != "" {
			f.TS["c"] = o
		}
	}
	spec.OnEvent = func(cx *Ctx, ev, phase string, ins ssa.Instruction, f *Fact) {
		switch ev {
		case "LOCK":
			f.Add("HELD")
		case "UNLOCK":
			f.Drop("HELD")
		case "AWAIT=nil":
			if f.Must["HELD"] {
				f.TS["clr"] = "locked"
			} else {
				f.TS["clr"] = "unlocked"
			}
		case "SEND(trigger)":
			nSend++
			key := cx.Key(ins, "SEND(trigger)")
			ok := f.Must["AWAIT=make"] && f.Must["HELD"]
			r.Check(ok, key, posOf(p, ins), "rotation triggered with the await channel created and stored, under the lock",
				fmt.Sprintf("the rotation is triggered without the await channel in place (created: %v) or outside the lock (held: %v): the next writer cannot wait for it; path: %s", f.Must["AWAIT=make"], f.Must["HELD"], trace(f)))
		case "RECV(trigger)":
			if cx.Fr.Root().Fn != rot {
				return
			}
			if f.TS["iter"] == "1" {
				iterCheck(cx, ins, f, "loop")
			}
			f.TS["iter"] = "1"
			f.Must, f.May = tokset{}, tokset{}
			f.Trace = nil
			delete(f.TS, "clr")
			delete(f.TS, "c")
		}
	}
	spec.OnReturn = func(cx *Ctx, ret *ssa.Return, class RetClass, f *Fact) {
		if cx.Fr.Fn != rot {
			return
		}
		key := cx.Key(ret, "return")
		if f.TS["c"] == "closed" {
			r.Check(!f.May["TXN"] && !f.May["MetaStore.CommitState"], key, posOf(p, ret), "the goroutine exits on the closed flag without touching state",
				"the rotation goroutine mutates state on its closed-exit path: "+trace(f))
		} else {
			iterCheck(cx, ret, f, "exit")
		}
	}
	eng := newOrdEngine(p, spec)
	eng.RunRoot(sl, nil)
	eng.RunRoot(rot, nil)
	finishEngine(r, eng)
	if nSend == 0 {
		r.Fail(funcDisplay(sl)+":SEND(trigger)", p.Position(sl.Pos()), "StoreLogs never triggers the rotation of a sealed tail")
	}
}

// ---------------------------------------------------------------- ORD-17

func runORD17(p *Prog, r *RuleRun) {
	v := newWalVocab(p)
	open, _, _, _, rot := walRoots(p, v)
	if !checkWalAnchors(r, v, map[string]*ssa.Function{"Open": open}) {
		return
	}
	spec := v.baseSpec("open-finishes")
	spec.OnEvent = func(cx *Ctx, ev, phase string, ins ssa.Instruction, f *Fact) {
		if strings.HasPrefix(ev, "GO(") {
			f.Add("GO")
			return
		}
		if phase == "call" || phase == "" {
			switch {
			case ev == "STATE.Store", strings.HasPrefix(ev, "AWAIT="), ev == "MetaStore.CommitState", ev == "SegmentFiler.Delete":
				if f.May["GO"] {
					r.Fail(cx.Key(ins, ev+":after-go"), posOf(p, ins), "Open touches writer-side data ("+ev+") after it started the rotation goroutine, without the lock")
				}
			}
		}
	}
	spec.OnReturn = func(cx *Ctx, ret *ssa.Return, class RetClass, f *Fact) {
		if class != RetSuccess && class != RetEither {
			return
		}
		key := cx.Key(ret, "return")
		var miss []string
		if !f.Must["STATE.Store"] {
			miss = append(miss, "state never stored")
		}
		if !f.Must["GO"] {
			miss = append(miss, "rotation goroutine not started (a sealed tail would never be rotated; appends block/fail forever)")
		}
		if !f.Must["SegmentFiler.List:ok"] || !f.May["SegmentFiler.Delete"] {
			miss = append(miss, "orphan sweep (List + Delete of unlisted files) not performed")
		}
		r.Check(len(miss) == 0, key, posOf(p, ret), "Open succeeds with state stored, sweep reachable after List:ok, goroutine started",
			"Open returns success but: "+strings.Join(miss, "; ")+"; path: "+trace(f))
	}
	eng := newOrdEngine(p, spec)
	eng.RunRoot(open, nil)
	finishEngine(r, eng)
	if rot == nil {
		r.Fail(funcDisplay(open)+":go", p.Position(open.Pos()), "Open starts no goroutine: nothing rotates a sealed tail")
	}
}

// ---------------------------------------------------------------- ORD-18

func runORD18(p *Prog, r *RuleRun) {
	v := newWalVocab(p)
	open, _, _, _, _ := walRoots(p, v)
	if !checkWalAnchors(r, v, map[string]*ssa.Function{"Open": open}) {
		return
	}
	isNotExistTest := func(val ssa.Value) (*ssa.Call, bool) {
		c, ok := val.(*ssa.Call)
		if !ok || eventName(c) != "errors.Is" || len(c.Call.Args) != 2 {
			return nil, false
		}
		u, ok := c.Call.Args[1].(*ssa.UnOp)
		if !ok {
			return nil, false
		}
		g, ok := u.X.(*ssa.Global)
		if !ok || g.Pkg.Pkg.Path() != "io/fs" && g.Pkg.Pkg.Path() != "os" || g.Name() != "ErrNotExist" {
			return nil, false
		}
		if !derivesFromCall(c.Call.Args[0], func(cc *ssa.Call) bool { return eventName(cc) == "types.SegmentFiler.RecoverTail" }) {
			return nil, false
		}
		return c, true
	}
	found := 0
	var recoverArg ssa.Value
	spec := v.baseSpec("recreate-missing-tail")
	spec.OnBranch = func(cx *Ctx, ifi *ssa.If, truth bool, f *Fact) {
		if _, ok := isNotExistTest(ifi.Cond); ok && truth {
			f.TS["ne"] = "yes"
		} else if ok {
			f.TS["ne"] = "no"
		}
	}
	spec.OnEvent = func(cx *Ctx, ev, phase string, ins ssa.Instruction, f *Fact) {
		ci, _ := ins.(ssa.CallInstruction)
		if ev == "SegmentFiler.RecoverTail" && phase == "call" {
			recoverArg = ci.Common().Args[0]
			delete(f.TS, "ne")
		}
		if ev == "SegmentFiler.Create" && phase == "call" && f.TS["ne"] == "yes" {
			found++
			key := cx.Key(ins, "recreate-missing-tail")
			r.Check(sameLoad(ci.Common().Args[0], recoverArg), key, posOf(p, ins), "RecoverTail's os.ErrNotExist leads to SegmentFiler.Create with the same persisted SegmentInfo",
				"the missing tail is recreated with a different SegmentInfo than the one metadata lists")
			delete(f.TS, "ne")
		}
	}
	spec.OnReturn = func(cx *Ctx, ret *ssa.Return, class RetClass, f *Fact) {
		// a RecoverTail failure that is ErrNotExist must not make Open fail by itself
		if (class == RetFailure || class == RetEither) && f.TS["ne"] == "yes" && !f.May["SegmentFiler.Create"] {
			r.Fail(cx.Key(ret, "return:notexist"), posOf(p, ret), "Open fails when the tail file is missing instead of recreating it (a crash between the metadata commit and the file's directory fsync leaves exactly this state)")
		}
	}
	eng := newOrdEngine(p, spec)
	eng.RunRoot(open, nil)
	finishEngine(r, eng)
	if found == 0 {
		r.Fail(funcDisplay(open)+":recreate-missing-tail", p.Position(open.Pos()), "Open has no path on which a RecoverTail error that is os.ErrNotExist leads to SegmentFiler.Create: a tail file lost by a crash (metadata committed, directory entry not yet durable) makes the WAL unopenable")
	}
}

// ---------------------------------------------------------------- ORD-18 (layer contract part)

// errorPreserved: does the returned error value keep the identity of `cause` for errors.Is?
// Accepted: the very same value, or fmt.Errorf with a constant format containing %w that receives it.
func errorPreserved(ret ssa.Value, isCause func(v ssa.Value) bool, depth int) (bool, string) {
	if depth > 4 || ret == nil {
		return false, "too deep"
	}
	if isCause(ret) {
		return true, "returned unchanged"
	}
	switch x := ret.(type) {
	case *ssa.Phi:
		for _, e := range x.Edges {
			if ok, why := errorPreserved(e, isCause, depth+1); ok {
				return true, why
			}
		}
	case *ssa.ChangeInterface:
		return errorPreserved(x.X, isCause, depth+1)
	case *ssa.Call:
		if eventName(x) != "fmt.Errorf" || len(x.Call.Args) != 2 {
			return false, "wrapped by " + eventName(x)
		}
		format, ok := constStringOf(x.Call.Args[0])
		if !ok || !strings.Contains(format, "%w") {
			return false, fmt.Sprintf("re-created with fmt.Errorf(%q) without %%w: errors.Is no longer sees the cause", format)
		}
		// one of the variadic arguments must be the cause
		if sl, ok := x.Call.Args[1].(*ssa.Slice); ok {
			if arr, ok := sl.X.(*ssa.Alloc); ok {
				for _, ref := range *arr.Referrers() {
					if ia, ok := ref.(*ssa.IndexAddr); ok {
						for _, r2 := range *ia.Referrers() {
							if st, ok := r2.(*ssa.Store); ok {
								v := st.Val
								if ci, ok := v.(*ssa.ChangeInterface); ok {
									v = ci.X
								}
								if mi, ok := v.(*ssa.MakeInterface); ok {
									v = mi.X
								}
								if isCause(v) {
									return true, "wrapped with %w"
								}
							}
						}
					}
				}
			}
		}
		return false, "fmt.Errorf with %w but not of the cause"
	}
	return false, "replaced by " + strings.TrimSpace(ret.String())
}

// returnedErrors lists, per return of fn, the SSA value that is returned as the error (resolving result cells).
func returnedErrors(fn *ssa.Function) map[*ssa.Return]ssa.Value {
	out := map[*ssa.Return]ssa.Value{}
	ei := resultErrIndex(fn.Signature)
	if ei < 0 {
		return out
	}
	for _, b := range fn.Blocks {
		for i, ins := range b.Instrs {
			ret, ok := ins.(*ssa.Return)
			if !ok {
				continue
			}
			v := ret.Results[ei]
			if u, ok := v.(*ssa.UnOp); ok && u.Op == token.MUL {
				// result cell: the last store to it in this block
				for j := i - 1; j >= 0; j-- {
					if st, ok := b.Instrs[j].(*ssa.Store); ok && st.Addr == u.X {
						v = st.Val
						break
					}
				}
			}
			out[ret] = v
		}
	}
	return out
}

func init() {
	register(&Rule{ID: "ORD-18c", Title: "the not-found sentinel travels unchanged from the segment lookup to WAL.GetLog (it is compared with != on the way and is the API's raft.ErrLogNotFound)",
		Props: []string{"C05", "C06", "C03", "C11"}, Floor: 5, Run: runORD18c})
	register(&Rule{ID: "ORD-18b", Title: "the 'tail file does not exist' error keeps its os.ErrNotExist identity from the file system up to Open's errors.Is test",
		Props: []string{"C03", "C01", "C10", "C04"}, Floor: 2, Run: runORD18b})
}

type errLayer struct {
	fn    *ssa.Function
	cause string                 // event name of the call whose error must be preserved ("" when match is set)
	match func(c *ssa.Call) bool // alternative: a predicate on the call
	what  string
}

func runORD18b(p *Prog, r *RuleRun) {
	layers := []errLayer{
		{fn: p.methodImpl("segment", "Filer", "RecoverTail"), cause: "types.VFS.OpenWriter"},
		{fn: p.methodImpl("fs", "FS", "OpenWriter"), cause: "os.OpenFile"},
	}
	checkErrorLayers(p, r, layers, false, "a missing tail file no longer satisfies errors.Is(err, os.ErrNotExist) in wal.Open, so the recreate-missing-tail path is dead and a crash between the metadata commit and the new file's directory fsync leaves the WAL unopenable")
}

// checkErrorLayers: in every layer function, each return that hands the failure of the layer's cause upward returns
// that error itself (strict) or at least keeps it in the chain with %w.
func checkErrorLayers(p *Prog, r *RuleRun, layers []errLayer, strict bool, consequence string) {
	for _, l := range layers {
		l := l
		name := l.cause
		if name == "" {
			name = l.what
		}
		if l.fn == nil {
			r.Unknown("anchor:"+name, "?", "implementation not found for the layer above "+name)
			continue
		}
		causeCall := func(c *ssa.Call) bool {
			if l.match != nil {
				return l.match(c)
			}
			return eventName(c) == l.cause
		}
		var isCause func(v ssa.Value) bool
		// viaHelper: a same-package helper that calls the cause and hands its error on with its identity intact
		viaHelper := map[*ssa.Function]bool{}
		var helperPreserves func(callee *ssa.Function, depth int) bool
		helperPreserves = func(callee *ssa.Function, depth int) bool {
			if ok, seen := viaHelper[callee]; seen {
				return ok
			}
			viaHelper[callee] = false
			if depth > 2 || callee == nil || callee.Blocks == nil || callee.Pkg != l.fn.Pkg || resultErrIndex(callee.Signature) < 0 {
				return false
			}
			calls := false
			for _, b := range callee.Blocks {
				for _, ins := range b.Instrs {
					if c, ok := ins.(*ssa.Call); ok && causeCall(c) {
						calls = true
					}
				}
			}
			if !calls {
				return false
			}
			for _, v := range returnedErrors(callee) {
				if c, ok := v.(*ssa.Const); ok && c.IsNil() {
					continue
				}
				if ok, why := errorPreserved(v, isCause, 0); !ok || strict && why != "returned unchanged" {
					return false
				}
			}
			viaHelper[callee] = true
			return true
		}
		isCause = func(v ssa.Value) bool {
			var c *ssa.Call
			if ex, ok := v.(*ssa.Extract); ok {
				cc, ok := ex.Tuple.(*ssa.Call)
				if !ok || ex.Index != resultErrIndex(cc.Call.Signature()) {
					return false
				}
				c = cc
			} else if cc, ok := v.(*ssa.Call); ok && cc.Call.Signature().Results().Len() == 1 {
				c = cc
			}
			if c == nil {
				return false
			}
			if causeCall(c) {
				return true
			}
			if callee := c.Call.StaticCallee(); callee != nil && callee != l.fn && helperPreserves(callee, 0) {
				return true
			}
			return false
		}
		// the return(s) that hand the cause's failure upward: returns control-dependent on `cause err != nil`,
		// or (direct `return f(...)`) returns whose operands are the call's results
		n := 0
		for ret, v := range returnedErrors(l.fn) {
			relevant := false
			if isCause(v) {
				relevant = true
			}
			// failure branch of the cause's error test
			for _, pred := range ret.Block().Preds {
				if ifi, ok := pred.Instrs[len(pred.Instrs)-1].(*ssa.If); ok {
					if bo, ok := ifi.Cond.(*ssa.BinOp); ok && bo.Op == token.NEQ && isCause(bo.X) && pred.Succs[0] == ret.Block() {
						relevant = true
					}
				}
			}
			if !relevant {
				continue
			}
			n++
			ok, why := errorPreserved(v, isCause, 0)
			if strict && ok && why != "returned unchanged" {
				ok, why = false, why+", but the caller compares with == / !=, which a wrapped error does not satisfy"
			}
			r.Check(ok, funcDisplay(l.fn)+":"+name+":error-identity", posOf(p, ret), "the error of "+name+" is "+why,
				fmt.Sprintf("%s turns the error of %s into a new error (%s): %s", funcDisplay(l.fn), name, why, consequence))
		}
		if n == 0 {
			r.Unknown(funcDisplay(l.fn)+":"+name+":error-identity", p.Position(l.fn.Pos()), "no return handing the failure of "+name+" upward was found")
		}
	}
}

// ---------------------------------------------------------------- ORD-18c

func runORD18c(p *Prog, r *RuleRun) {
	static := func(fn *ssa.Function) func(c *ssa.Call) bool {
		return func(c *ssa.Call) bool { return fn != nil && c.Call.StaticCallee() == fn }
	}
	iface := func(method string) func(c *ssa.Call) bool {
		return func(c *ssa.Call) bool { return c.Call.IsInvoke() && c.Call.Method.Name() == method }
	}
	getLog := p.Func("", "state.getLog")
	findSeg := p.Func("", "state.findSegmentReader")
	rGet := p.methodImpl("segment", "Reader", "GetLog")
	ffo := p.Func("segment", "Reader.findFrameOffset")
	layers := []errLayer{
		{fn: p.Func("", "WAL.GetLog"), match: static(getLog), what: "state.getLog"},
		{fn: getLog, match: iface("GetLog"), what: "the segment's GetLog"},
		{fn: getLog, match: static(findSeg), what: "state.findSegmentReader"},
		{fn: p.methodImpl("segment", "Writer", "GetLog"), match: func(c *ssa.Call) bool { return static(rGet)(c) || iface("GetLog")(c) }, what: "Reader.GetLog"},
		{fn: rGet, match: static(ffo), what: "Reader.findFrameOffset"},
		{fn: ffo, match: iface("OffsetForFrame"), what: "the tail's OffsetForFrame"},
	}
	checkErrorLayers(p, r, layers, true, "the tail's \"not in this segment\" answer is no longer recognised by the snapshot lookup (it compares with != ErrNotFound), so a read of an index held by an older segment fails instead of falling back to it, and callers that test for raft.ErrLogNotFound no longer see it")
	// Generic part: wherever production code compares the error of a call with a package-level sentinel using
	// == or != , nothing that call can reach may wrap that sentinel in a new error (== does not look through %w).
	wrapsSentinel := func(c *ssa.Call, name string) bool {
		if eventName(c) != "fmt.Errorf" || len(c.Call.Args) != 2 {
			return false
		}
		sl, ok := c.Call.Args[1].(*ssa.Slice)
		if !ok {
			return false
		}
		arr, ok := sl.X.(*ssa.Alloc)
		if !ok {
			return false
		}
		for _, ref := range *arr.Referrers() {
			if ia, ok := ref.(*ssa.IndexAddr); ok {
				for _, r2 := range *ia.Referrers() {
					if st, ok := r2.(*ssa.Store); ok {
						val := st.Val
						if ci, ok := val.(*ssa.ChangeInterface); ok {
							val = ci.X
						}
						if isGlobalLoad(val, name) {
							return true
						}
					}
				}
			}
		}
		return false
	}
	nSites := 0
	ord := ordinal{}
	for _, fn := range p.Funcs {
		rel := pkgRelOf(p, fn)
		if rel == "cmd/waldump" {
			continue
		}
		for _, b := range fn.Blocks {
			for _, ins := range b.Instrs {
				bo, ok := ins.(*ssa.BinOp)
				if !ok || (bo.Op != token.EQL && bo.Op != token.NEQ) {
					continue
				}
				for _, pair := range [][2]ssa.Value{{bo.X, bo.Y}, {bo.Y, bo.X}} {
					u, ok := pair[1].(*ssa.UnOp)
					if !ok || u.Op != token.MUL {
						continue
					}
					g, ok := u.X.(*ssa.Global)
					if !ok || !isErrorType(g.Type().(*types.Pointer).Elem()) || g.Pkg == nil || !strings.HasPrefix(g.Pkg.Pkg.Path(), ModPath) {
						continue
					}
					// the compared error: result of which call?
					var call *ssa.Call
					switch x := pair[0].(type) {
					case *ssa.Extract:
						call, _ = x.Tuple.(*ssa.Call)
					case *ssa.Call:
						call = x
					}
					if call == nil {
						continue
					}
					nSites++
					key := ord.next(funcDisplay(fn) + ":==" + g.Name())
					var roots []*ssa.Function
					if callee := call.Call.StaticCallee(); callee != nil {
						roots = append(roots, callee)
					} else if p.CG != nil {
						if node := p.CG.Nodes[fn]; node != nil {
							for _, ed := range node.Out {
								if ed.Site == call {
									roots = append(roots, ed.Callee.Func)
								}
							}
						}
					}
					bad := ""
					for f2 := range p.reachableFuncs(roots...) {
						for _, b2 := range f2.Blocks {
							for _, i2 := range b2.Instrs {
								if c2, ok := i2.(*ssa.Call); ok && wrapsSentinel(c2, g.Name()) {
									bad = funcDisplay(f2) + " at " + posOf(p, c2)
								}
							}
						}
					}
					r.Check(bad == "", key, posOf(p, bo), "nothing the compared call can reach wraps "+g.Name()+" in a new error",
						fmt.Sprintf("%s compares an error with %s using %s, but %s wraps that sentinel in a new error (fmt.Errorf ... %%w): the comparison no longer recognises it (a tail whose header was never written is no longer re-initialised on recovery / a lookup no longer falls back to older segments)", funcDisplay(fn), g.Name(), bo.Op, bad))
				}
			}
		}
	}
	if nSites == 0 {
		r.Unknown("sentinel-comparisons", "?", "no == / != comparison of a call's error with a package sentinel found")
	}
}
