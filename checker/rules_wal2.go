package main

import (
	"fmt"
	"go/token"
	"go/types"
	"strings"

	"golang.org/x/tools/go/ssa"
)

func init() {
	register(&Rule{ID: "ORD-19", Title: "a possibly-sealed tail writer is never installed or left behind without asking Sealed() and rotating",
		Props: []string{"C03", "C01", "C05", "C04"}, Floor: 2, Run: runORD19})
	register(&Rule{ID: "ORD-20", Title: "a failed Open closes the metadata store and the segments it opened",
		Props: []string{"C11"}, Floor: 4, Run: runORD20})
	register(&Rule{ID: "ORD-21", Title: "Close protocol: swap-once, then under the lock trigger closed, state emptied, closers attached, meta store closed, waiter woken",
		Props: []string{"C14"}, Floor: 3, Run: runORD21})
	register(&Rule{ID: "ORD-22", Title: "every API method checks the closed flag first and never dereferences a state view that Close may have emptied",
		Props: []string{"C14", "C08"}, Floor: 12, Run: runORD22})
	register(&Rule{ID: "ORD-23", Title: "a segment is marked sealed only with the writer's own seal offset; truncations hand over a finalizer",
		Props: []string{"C04", "C09", "C01"}, Floor: 4, Run: runORD23})
}

// sealedTest: cond is result #0 of a SegmentWriter.Sealed() call.
func sealedTest(cond ssa.Value) bool {
	ex, ok := cond.(*ssa.Extract)
	if !ok || ex.Index != 0 {
		return false
	}
	c, ok := ex.Tuple.(*ssa.Call)
	return ok && eventName(c) == "types.SegmentWriter.Sealed"
}

// ---------------------------------------------------------------- ORD-19

func runORD19(p *Prog, r *RuleRun) {
	v := newWalVocab(p)
	open, sl, _, _, _ := walRoots(p, v)
	if !checkWalAnchors(r, v, map[string]*ssa.Function{"Open": open, "StoreLogs": sl}) {
		return
	}
	spec := v.baseSpec("tail-typestate")
	spec.OnBranch = func(cx *Ctx, ifi *ssa.If, truth bool, f *Fact) {
		if o := v.closedObs(ifi, truth); o != "" {
			f.TS["c"] = o
		}
		if sealedTest(ifi.Cond) {
			if truth {
				f.TS["tail"] = "SEALED"
			} else {
				f.TS["tail"] = "OPEN"
			}
		}
	}
	spec.OnEvent = func(cx *Ctx, ev, phase string, ins ssa.Instruction, f *Fact) {
		switch {
		case ev == "SegmentFiler.RecoverTail" && phase == "ok":
			f.TS["tail"] = "MAYBE_SEALED"
		case ev == "SegmentFiler.Create" && phase == "ok":
			f.TS["tail"] = "OPEN"
		case ev == "SegmentWriter.Append" && phase == "ok":
			f.TS["tail"] = "MAYBE_SEALED"
		case ev == "SEND(trigger)":
			if f.TS["tail"] == "SEALED" {
				f.TS["tail"] = "ROTATING"
			}
		}
	}
	spec.OnReturn = func(cx *Ctx, ret *ssa.Return, class RetClass, f *Fact) {
		if class != RetSuccess && class != RetEither {
			return
		}
		key := cx.Key(ret, "return")
		st := f.TS["tail"]
		root := funcDisplay(cx.Fr.Fn)
		switch {
		case st == "" || st == "OPEN" || st == "ROTATING":
			r.OK(key, posOf(p, ret), fmt.Sprintf("%s returns with the tail writer %s", root, orDefault(st, "untouched")))
		case st == "SEALED" && f.TS["c"] == "closed":
			r.OK(key, posOf(p, ret), "sealed tail left to recovery because the WAL is closing")
		case st == "MAYBE_SEALED":
			r.Fail(key, posOf(p, ret), root+" returns success leaving a tail writer that may already be sealed without asking Sealed(): if the crash hit after the append that sealed the segment but before the rotation's metadata commit, nothing rotates it and every later StoreLogs fails with ErrSealed; path: "+trace(f))
		default:
			r.Fail(key, posOf(p, ret), root+" returns success with a tail known to be sealed and no rotation triggered or completed; path: "+trace(f))
		}
	}
	eng := newOrdEngine(p, spec)
	eng.RunRoot(open, nil)
	eng.RunRoot(sl, nil)
	finishEngine(r, eng)
}

// ---------------------------------------------------------------- ORD-20

func runORD20(p *Prog, r *RuleRun) {
	v := newWalVocab(p)
	open, _, _, _, _ := walRoots(p, v)
	if !checkWalAnchors(r, v, map[string]*ssa.Function{"Open": open}) {
		return
	}
	spec := v.baseSpec("open-cleanup")
	spec.OnReturn = func(cx *Ctx, ret *ssa.Return, class RetClass, f *Fact) {
		if class != RetFailure && class != RetEither {
			return
		}
		if !f.May["MetaStore.Load"] {
			return // failed before anything was opened
		}
		key := cx.Key(ret, "return")
		var miss []string
		if !f.Must["MetaStore.Close"] {
			miss = append(miss, "the metadata store stays open (bolt keeps its file lock: the next Open of this directory in the process blocks forever)")
		}
		opened := f.May["SegmentFiler.Open:ok"] || f.May["SegmentFiler.RecoverTail:ok"] || f.May["SegmentFiler.Create:ok"]
		closes := f.May["Closer.Close"] || f.May["SegmentReader.Close"] || f.May["SegmentWriter.Close"]
		if opened && !closes {
			miss = append(miss, "segment files opened by this Open are never closed")
		}
		r.Check(len(miss) == 0, key, posOf(p, ret), "failure return releases the metadata store and opened segments",
			"Open fails here and leaks: "+strings.Join(miss, "; ")+"; path: "+trace(f))
	}
	eng := newOrdEngine(p, spec)
	eng.RunRoot(open, nil)
	finishEngine(r, eng)
	// The cleanup must see what was opened *by the time Open fails*: arguments of a deferred call are evaluated
	// when the defer statement runs, so a deferred cleanup that is handed the segment map (or any variable that
	// Open assigns again later) works on a snapshot taken before anything was opened.
	sameCell := func(a, b ssa.Value) bool {
		if a == b {
			return true
		}
		fa, ok1 := a.(*ssa.FieldAddr)
		fb, ok2 := b.(*ssa.FieldAddr)
		return ok1 && ok2 && fa.Field == fb.Field && fa.X == fb.X
	}
	closes := func(fn *ssa.Function) bool {
		return fn != nil && p.reaches(fn, func(ci ssa.CallInstruction) bool {
			cc := ci.Common()
			return cc.IsInvoke() && cc.Method.Name() == "Close"
		})
	}
	nDefer := 0
	for _, b := range open.Blocks {
		for i, ins := range b.Instrs {
			d, ok := ins.(*ssa.Defer)
			if !ok {
				continue
			}
			var callee *ssa.Function
			if mc, ok := d.Call.Value.(*ssa.MakeClosure); ok {
				callee = mc.Fn.(*ssa.Function)
			} else {
				callee = d.Call.StaticCallee()
			}
			if !closes(callee) {
				continue
			}
			nDefer++
			key := fmt.Sprintf("wal.Open:deferred-cleanup#%d", nDefer)
			stale := ""
			for _, a := range d.Call.Args {
				ld, ok := a.(*ssa.UnOp)
				if !ok || ld.Op != token.MUL {
					continue
				}
				// is the loaded variable assigned again after the defer statement?
				later := map[*ssa.BasicBlock]bool{}
				var walk func(x *ssa.BasicBlock)
				walk = func(x *ssa.BasicBlock) {
					if later[x] {
						return
					}
					later[x] = true
					for _, s2 := range x.Succs {
						walk(s2)
					}
				}
				for _, s2 := range b.Succs {
					walk(s2)
				}
				for _, b2 := range open.Blocks {
					for j, i2 := range b2.Instrs {
						st, ok := i2.(*ssa.Store)
						if !ok || !sameCell(st.Addr, ld.X) {
							continue
						}
						if later[b2] || (b2 == b && j > i) {
							what := a.Name()
							if fv := fieldOfAddr(ld.X); fv != nil {
								what = "field " + fv.Name()
							} else if al, ok := ld.X.(*ssa.Alloc); ok && al.Comment != "" {
								what = "variable " + al.Comment
							}
							stale = fmt.Sprintf("%s is read when the defer statement executes but assigned again at %s", what, posOf(p, st))
						}
					}
				}
			}
			r.Check(stale == "", key, posOf(p, d), "the deferred cleanup reads Open's variables when it runs, not when it was registered",
				"the cleanup deferred by Open is handed a snapshot taken at the defer statement ("+stale+"): segments opened afterwards are not in it and stay open when Open fails")
		}
	}
	if nDefer == 0 {
		r.Fail("wal.Open:deferred-cleanup", p.Position(open.Pos()), "Open registers no deferred cleanup that closes the segments it opened")
	}
}

// ---------------------------------------------------------------- ORD-21

func runORD21(p *Prog, r *RuleRun) {
	v := newWalVocab(p)
	_, _, _, cl, _ := walRoots(p, v)
	if !checkWalAnchors(r, v, map[string]*ssa.Function{"Close": cl}) {
		return
	}
	spec := v.baseSpec("close-protocol")
	spec.OnBranch = func(cx *Ctx, ifi *ssa.If, truth bool, f *Fact) {
		if o := v.closedObs(ifi, truth); o != "" {
			f.TS["c"] = o
		}
		if bo, ok := ifi.Cond.(*ssa.BinOp); ok && (bo.Op == token.EQL || bo.Op == token.NEQ) && loadedField(bo.X) == v.await {
			if c, ok := bo.Y.(*ssa.Const); ok && c.IsNil() && (bo.Op == token.EQL) == truth {
				f.TS["aw"] = "nil"
			}
		}
	}
	// STATE.Load: the state Close tears down is the one that is current while it holds the lock; a snapshot taken
	// before queueing for the lock misses whatever the writer ahead of it installed (its new tail is never closed,
	// its finalizer is overwritten)
	underLock := map[string]bool{"CLOSE(trigger)": true, "STATE.Store": true, "STATE.Load": true, "FIN.Store": true, "MetaStore.Close": true, "AWAIT=nil": true, "CLOSE(await)": true}
	spec.OnEvent = func(cx *Ctx, ev, phase string, ins ssa.Instruction, f *Fact) {
		switch ev {
		case "LOCK":
			r.Check(f.Must["CLOSED.SwapUint32"], cx.Key(ins, "LOCK"), posOf(p, ins), "the closed flag is set before Close waits for the write lock",
				"Close takes the write lock before setting the closed flag: calls that already hold or queue for the lock proceed on a WAL that is being torn down")
			f.Add("HELD")
		case "UNLOCK":
			f.Drop("HELD")
		}
		if underLock[ev] && (phase == "call" || phase == "") {
			r.Check(f.Must["HELD"], cx.Key(ins, ev+":locked"), posOf(p, ins), ev+" happens with writeMu held",
				"Close performs "+ev+" without holding writeMu: it races with an in-flight writer or rotation")
		}
	}
	spec.OnReturn = func(cx *Ctx, ret *ssa.Return, class RetClass, f *Fact) {
		key := cx.Key(ret, "return")
		pos := posOf(p, ret)
		if f.TS["c"] == "closed" {
			extra := []string{}
			for t := range f.May {
				if !strings.HasPrefix(t, "CLOSED.") {
					extra = append(extra, t)
				}
			}
			r.Check(len(extra) == 0, key, pos, "second Close is a no-op", "a repeated Close does more than return: "+strings.Join(extra, ","))
			return
		}
		var miss []string
		for _, t := range []string{"CLOSED.SwapUint32", "LOCK", "CLOSE(trigger)", "STATE.Store", "FIN.Store", "MetaStore.Close"} {
			if !f.Must[t] {
				miss = append(miss, t)
			}
		}
		if class == RetSuccess && !f.Must["MetaStore.Close:ok"] {
			miss = append(miss, "MetaStore.Close error not returned")
		}
		r.Check(len(miss) == 0, key, pos, "Close performed every teardown step", "Close returns without: "+strings.Join(miss, ", ")+"; path: "+trace(f))
		// wake-up pairing
		if f.May["AWAIT=nil"] {
			r.Check(f.Must["CLOSE(await)"] || f.TS["aw"] == "nil", key+":wakeup", pos, "a pending await channel is closed before the field is cleared",
				"Close clears the awaited-rotation field without closing the channel: a StoreLogs/DeleteRange already waiting for the rotation is never woken (the rotation goroutine exits on the closed flag) and blocks forever; path: "+trace(f))
		} else {
			r.OK(key+":wakeup", pos, "Close does not clear the await field (nothing to pair)")
		}
	}
	eng := newOrdEngine(p, spec)
	eng.RunRoot(cl, nil)
	finishEngine(r, eng)
}

// ---------------------------------------------------------------- ORD-22

func runORD22(p *Prog, r *RuleRun) {
	v := newWalVocab(p)
	if !checkWalAnchors(r, v, nil) {
		return
	}
	apis := v.apiMethods()
	if len(apis) < 9 {
		r.Unknown("anchor:api", "?", fmt.Sprintf("only %d raft.LogStore/StableStore methods found on *WAL", len(apis)))
	}
	spec := v.baseSpec("closed-means-closed")
	spec.OnBranch = func(cx *Ctx, ifi *ssa.If, truth bool, f *Fact) {
		o := v.closedObs(ifi, truth)
		if o == "" {
			return
		}
		f.TS["c"] = o
		if o == "open" {
			if f.TS["sl"] == "loaded" {
				f.TS["V"] = "valid"
			}
			if f.Must["HELD"] {
				f.TS["lockchk"] = "yes"
			}
		}
	}
	base := v.instr
	spec.Instr = func(cx *Ctx, ins ssa.Instruction, f *Fact) {
		base(cx, ins, f)
		u, ok := ins.(*ssa.UnOp)
		if !ok || u.Op != token.MUL {
			return
		}
		fv := fieldOfAddr(u.X)
		if fv != v.tail && fv != v.segments {
			return
		}
		root := funcDisplay(cx.Fr.Root().Fn)
		key := root + ":state-view"
		if f.TS["V"] == "valid" {
			r.OK(key, posOf(p, ins), "every dereference of the pinned state's tail/segments happens on a view known not to be the emptied one: closed flag read 0 after the state was pinned / under the uninterrupted lock")
		} else {
			r.Fail(key, posOf(p, ins), fmt.Sprintf("%s dereferences state.%s (in "+funcDisplay(cx.Fr.Fn)+") of a view that Close may already have replaced by the empty state (closed flag checked only before the state was loaded%s): a call racing with Close panics on the nil tail/segment map; path: %s",
				root, fv.Name(), map[bool]string{true: " / before the lock was (re)taken", false: ""}[f.May["LOCK"]], trace(f)))
		}
	}
	spec.OnEvent = func(cx *Ctx, ev, phase string, ins ssa.Instruction, f *Fact) {
		root := funcDisplay(cx.Fr.Root().Fn)
		if !strings.HasPrefix(ev, "CLOSED.") && f.TS["first"] == "" && (phase == "call" || phase == "") {
			f.TS["first"] = "seen"
			r.Check(f.TS["c"] == "open", root+":first-event", posOf(p, ins), "closed flag read as 0 before the first effect ("+ev+")",
				root+" performs "+ev+" before checking the closed flag: after Close it must return ErrClosed without touching anything")
		}
		switch ev {
		case "LOCK":
			f.Add("HELD")
		case "UNLOCK":
			f.Drop("HELD")
			delete(f.TS, "lockchk")
		case "STATE.Load":
			if phase == "call" {
				f.TS["sl"] = "loaded"
				if f.TS["lockchk"] == "yes" && f.Must["HELD"] {
					f.TS["V"] = "valid"
				} else {
					delete(f.TS, "V")
				}
			}
		}
	}
	eng := newOrdEngine(p, spec)
	for _, m := range apis {
		eng.RunRoot(m, nil)
	}
	finishEngine(r, eng)
	r.Stats["api_methods"] = len(apis)
}

// ---------------------------------------------------------------- ORD-23

func runORD23(p *Prog, r *RuleRun) {
	v := newWalVocab(p)
	open, sl, dr, _, rot := walRoots(p, v)
	if !checkWalAnchors(r, v, map[string]*ssa.Function{"Open": open, "StoreLogs": sl, "DeleteRange": dr, "rotation goroutine": rot}) {
		return
	}
	si := p.NamedType("types", "SegmentInfo")
	var sealTime, indexStart, maxIndex *types.Var
	if si != nil {
		sealTime = p.Field("types", "SegmentInfo", "SealTime")
		indexStart = p.Field("types", "SegmentInfo", "IndexStart")
		maxIndex = p.Field("types", "SegmentInfo", "MaxIndex")
	}
	if sealTime == nil || indexStart == nil {
		r.Unknown("anchor", "?", "types.SegmentInfo.SealTime / IndexStart not found")
		return
	}
	spec := v.baseSpec("seal-offset")
	spec.Value = func(cx *Ctx, val ssa.Value, f *Fact) (AV, bool) {
		switch x := val.(type) {
		case *ssa.UnOp:
			if x.Op == token.ARROW && v.chanName(x.X) == "trigger" {
				return AV{Tag: "sealoff"}, true
			}
		case *ssa.Call:
			cur := cx.Eval(x, f)
			switch eventName(x) {
			case "types.SegmentWriter.ForceSeal":
				if cur.K == avTuple && len(cur.Tup) == 2 {
					cur.Tup[0].Tag = "sealoff"
					return cur, true
				}
			case "types.SegmentWriter.Sealed":
				if cur.K == avTuple && len(cur.Tup) == 3 {
					cur.Tup[1].Tag = "sealoff"
					return cur, true
				}
			}
		}
		return v.value(cx, val, f)
	}
	base := v.instr
	nSend := 0
	spec.Instr = func(cx *Ctx, ins ssa.Instruction, f *Fact) {
		base(cx, ins, f)
		switch x := ins.(type) {
		case *ssa.Store:
			switch fieldOfAddr(x.Addr) {
			case sealTime:
				f.TS["sealtime"] = "set"
				f.note("store(SealTime)@" + p.Position(x.Pos()))
			case indexStart:
				if cx.Eval(x.Val, f).Tag == "sealoff" {
					f.TS["idx"] = "seal"
				} else {
					f.TS["idx"] = "other"
				}
			case maxIndex:
				f.TS["max"] = "set"
			}
		case *ssa.Send:
			if v.chanName(x.Chan) == "trigger" {
				nSend++
				r.Check(cx.Eval(x.X, f).Tag == "sealoff", cx.Key(ins, "SEND(trigger):value"), posOf(p, ins), "the offset handed to the rotation is result #1 of the tail's Sealed()",
					"the value sent to the rotation goroutine is not the seal offset reported by the tail writer's Sealed(): the IndexStart persisted for the sealed segment would not address its index frame")
			}
		}
	}
	spec.OnEvent = func(cx *Ctx, ev, phase string, ins ssa.Instruction, f *Fact) {
		if ev == "TXN" && phase == "call" {
			delete(f.TS, "sealtime")
			delete(f.TS, "idx")
			delete(f.TS, "max")
		}
	}
	spec.OnAnyReturn = func(cx *Ctx, ret *ssa.Return, class RetClass, f *Fact) {
		if !v.isTxnSig(cx.Fr.Fn.Signature) || class != RetSuccess {
			return
		}
		key := cx.Key(ret, "txn-return")
		pos := posOf(p, ret)
		if f.TS["sealtime"] == "set" {
			r.Check(f.TS["idx"] == "seal", key+":seal", pos, "segment marked sealed together with the seal offset obtained from the writer (ForceSeal / Sealed / rotation hand-off)",
				"a segment is marked sealed (SealTime set) in metadata without storing the index offset the writer reported for it: after reopen the sealed segment's index is read from the wrong place; path: "+trace(f))
			r.Check(f.TS["max"] == "set", key+":max", pos, "a segment marked sealed also gets its MaxIndex on the same path",
				"a segment is marked sealed without its MaxIndex being set: MaxIndex 0 means 'unbounded', so lookups beyond the segment's real end are sent to it and the next segment's base index (MaxIndex+1) is wrong; path: "+trace(f))
		}
		// truncation transactions (reachable from DeleteRange) must hand over a finalizer
		if cx.Fr.Root().Fn == dr {
			fa := cx.Eval(ret.Results[0], f)
			r.Check(fa.K == avFunc, key+":finalizer", pos, "truncation transaction returns a finalizer that closes/deletes what it dropped",
				"a truncation transaction succeeds without returning a finalizer: the segments it removed from the list are never closed or deleted")
		}
	}
	eng := newOrdEngine(p, spec)
	for _, root := range []*ssa.Function{open, sl, dr, rot} {
		eng.RunRoot(root, nil)
	}
	finishEngine(r, eng)
	if nSend == 0 {
		r.Unknown("anchor:send", "?", "no send on the rotation trigger channel found")
	}
}
