package main

import (
	"fmt"
	"go/types"
	"strings"

	"golang.org/x/tools/go/ssa"
)

func init() {
	register(&Rule{ID: "ORD-01", Title: "segment-writer mutators acknowledge only after write then fsync",
		Props: []string{"C01", "C07"}, Floor: 3, Run: func(p *Prog, r *RuleRun) { writerDurability(p, r, "ORD-01") }})
	register(&Rule{ID: "ORD-02", Title: "the commit index is published only when the batch is durable",
		Props: []string{"C01", "C02", "C06", "C10"}, Floor: 2, Run: func(p *Prog, r *RuleRun) { writerDurability(p, r, "ORD-02") }})
	register(&Rule{ID: "ORD-03", Title: "no failure return after the durability point of a mutator",
		Props: []string{"C01", "C10"}, Floor: 2, Run: func(p *Prog, r *RuleRun) { writerDurability(p, r, "ORD-03") }})
	register(&Rule{ID: "ORD-04", Title: "a seal marker set by a mutator is under the same write+fsync",
		Props: []string{"C01", "C04"}, Floor: 2, Run: func(p *Prog, r *RuleRun) { writerDurability(p, r, "ORD-04") }})
}

// writerAnchors resolves the fields and methods the segment-writer rules are about.
type writerAnchors struct {
	commitIdx, commitBuf, indexStart, writeOffset, crc, offsets *types.Var
	writerT                                                     *types.Named
	mutators                                                    []*ssa.Function
	missing                                                     []string
}

func isCallTo(ci ssa.CallInstruction, names ...string) bool {
	n := eventName(ci)
	for _, x := range names {
		if n == x {
			return true
		}
	}
	return false
}

func resolveWriterAnchors(p *Prog) *writerAnchors {
	a := &writerAnchors{}
	get := func(path string) *types.Var {
		v := p.Field("segment", "Writer", path)
		if v == nil {
			a.missing = append(a.missing, "segment.Writer."+path)
		}
		return v
	}
	a.commitIdx = get("commitIdx")
	a.commitBuf = get("writer.commitBuf")
	a.indexStart = get("writer.indexStart")
	a.writeOffset = get("writer.writeOffset")
	a.crc = get("writer.crc")
	a.offsets = get("offsets")
	a.writerT = p.NamedType("segment", "Writer")
	sw := p.NamedType("types", "SegmentWriter")
	if sw == nil || a.writerT == nil {
		a.missing = append(a.missing, "types.SegmentWriter / segment.Writer")
		return a
	}
	if p.IfaceMethod("types", "WritableFile", "Sync") == nil {
		a.missing = append(a.missing, "types.WritableFile.Sync")
	}
	// mutators: methods declared directly in types.SegmentWriter whose implementation
	// on *segment.Writer can store to the pending-write buffer
	for _, m := range directIfaceMethods(sw) {
		impl := p.methodImpl("segment", "Writer", m.Name())
		if impl == nil {
			a.missing = append(a.missing, "(*segment.Writer)."+m.Name())
			continue
		}
		if p.reachesInstr(impl, func(ins ssa.Instruction) bool {
			st, ok := ins.(*ssa.Store)
			return ok && fieldOfAddr(st.Addr) == a.commitBuf
		}) {
			a.mutators = append(a.mutators, impl)
		}
	}
	return a
}

var atomicWriteFuncs = map[string]bool{
	"atomic.StoreUint64": true, "atomic.AddUint64": true, "atomic.SwapUint64": true, "atomic.CompareAndSwapUint64": true,
	"atomic.StoreUint32": true, "atomic.AddUint32": true, "atomic.SwapUint32": true, "atomic.CompareAndSwapUint32": true,
	"atomic.StoreInt32": true, "atomic.AddInt32": true, "atomic.SwapInt32": true, "atomic.CompareAndSwapInt32": true,
	"atomic.StoreInt64": true, "atomic.AddInt64": true, "atomic.SwapInt64": true, "atomic.CompareAndSwapInt64": true,
}

func writerDurability(p *Prog, r *RuleRun, which string) {
	a := resolveWriterAnchors(p)
	if len(a.missing) > 0 {
		r.Unknown("anchor", "?", "unresolved anchors: "+strings.Join(a.missing, ", "))
		return
	}
	if len(a.mutators) == 0 {
		r.Unknown("anchor:mutators", "?", "no method of types.SegmentWriter implemented by *segment.Writer reaches WritableFile.WriteAt")
		return
	}
	observedStores := map[ssa.Instruction]bool{}
	publish := func(cx *Ctx, ins ssa.Instruction, f *Fact) {
		observedStores[ins] = true
		if which != "ORD-02" {
			return
		}
		key := cx.Key(ins, "publish(commitIdx)")
		if f.TS["ws"] == "S" {
			r.OK(key, posOf(p, ins), "commit index stored with write:ok, fsync:ok on every path ("+cx.Fr.Stack()+")")
		} else {
			r.Fail(key, posOf(p, ins), fmt.Sprintf("commit index is published while the batch is not durable (write/fsync state %q, want S) via %s; path: %s",
				orDefault(f.TS["ws"], "N"), cx.Fr.Stack(), strings.Join(f.Trace, " > ")))
		}
	}
	spec := &OrdSpec{
		Name: "writer-durability",
		Call: func(cx *Ctx, ci ssa.CallInstruction) CallInfo {
			n := eventName(ci)
			switch n {
			case "types.WritableFile.WriteAt":
				return CallInfo{Event: "WriteAt", Primitive: true}
			case "types.WritableFile.Sync":
				return CallInfo{Event: "Sync", Primitive: true}
			}
			if atomicWriteFuncs[n] && len(ci.Common().Args) > 0 && fieldOfAddr(ci.Common().Args[0]) == a.commitIdx {
				return CallInfo{Event: "PUBLISH", Primitive: true}
			}
			return CallInfo{}
		},
		OnEvent: func(cx *Ctx, ev, phase string, ins ssa.Instruction, f *Fact) {
			switch {
			case ev == "WriteAt" && phase == "call":
				f.TS["ws"] = "W"
			case ev == "WriteAt" && phase == "ok":
				if f.TS["seal"] == "pending" {
					f.TS["seal"] = "written"
				}
			case ev == "Sync" && phase == "ok":
				if f.TS["ws"] == "W" && f.Must["WriteAt:ok"] {
					f.TS["ws"] = "S"
				}
				if f.TS["seal"] == "written" {
					f.TS["seal"] = "durable"
				}
			case ev == "PUBLISH" && phase == "call":
				publish(cx, ins, f)
			}
		},
		Instr: func(cx *Ctx, ins ssa.Instruction, f *Fact) {
			st, ok := ins.(*ssa.Store)
			if !ok {
				return
			}
			switch fieldOfAddr(st.Addr) {
			case a.commitBuf:
				f.Add("DIRTY")
			case a.indexStart:
				f.TS["seal"] = "pending"
				f.note("store(indexStart)@" + p.Position(st.Pos()))
			case a.commitIdx:
				publish(cx, ins, f)
			}
		},
		OnReturn: func(cx *Ctx, ret *ssa.Return, class RetClass, f *Fact) {
			root := funcDisplay(cx.Fr.Fn)
			key := cx.Key(ret, "return")
			pos := posOf(p, ret)
			ws := orDefault(f.TS["ws"], "N")
			trace := strings.Join(f.Trace, " > ")
			if class == RetSuccess || class == RetEither {
				switch which {
				case "ORD-01":
					switch {
					case ws == "S":
						r.OK(key, pos, "success return of "+root+" after WriteAt:ok then Sync:ok")
					case ws == "N" && !f.May["DIRTY"]:
						r.OK(key, pos, "success return of "+root+" with nothing buffered (early exit)")
					default:
						r.Fail(key, pos, fmt.Sprintf("%s returns nil (%s) with write/fsync state %q (buffered=%v): bytes acknowledged before write then fsync; path: %s", root, class, ws, f.May["DIRTY"], trace))
					}
				case "ORD-04":
					switch f.TS["seal"] {
					case "", "durable":
						r.OK(key, pos, "seal marker state at success: "+orDefault(f.TS["seal"], "untouched"))
					default:
						r.Fail(key, pos, fmt.Sprintf("%s returns nil with the seal marker set but its index frame %s: path: %s", root, map[string]string{"pending": "never written", "written": "not fsynced"}[f.TS["seal"]], trace))
					}
				}
			}
			if (class == RetFailure || class == RetEither) && which == "ORD-03" {
				if f.May["Sync:ok"] {
					r.Fail(key, pos, fmt.Sprintf("%s can return an error (%s) after the fsync succeeded: the batch is durable but reported failed; path: %s", root, class, trace))
				} else {
					r.OK(key, pos, "failure return of "+root+" is not reachable after Sync:ok")
				}
			}
		},
	}
	eng := newOrdEngine(p, spec)
	for _, m := range a.mutators {
		exits := eng.RunRoot(m, nil)
		if len(exits) == 0 {
			r.Unknown("root:"+funcDisplay(m), p.Position(m.Pos()), "no exit of the mutator was reached by the analysis")
		}
	}
	if eng.Aborted != "" {
		r.Unknown("engine", "?", eng.Aborted)
	}
	r.Stats["engine_steps"] = eng.Steps
	r.Stats["functions_inlined"] = len(eng.Inlined)
	r.Stats["roots"] = len(a.mutators)
	if which == "ORD-02" {
		// every store to the commit index anywhere in production code must have been seen
		// from a mutator root, or lie in code that runs before the Writer is shared
		rt := p.methodImpl("segment", "Filer", "RecoverTail")
		cr := p.methodImpl("segment", "Filer", "Create")
		pre := p.reachableFuncs(rt, cr)
		mut := p.reachableFuncs(a.mutators...)
		ord := ordinal{}
		for _, fn := range p.Funcs {
			for _, b := range fn.Blocks {
				for _, ins := range b.Instrs {
					isStore := false
					if st, ok := ins.(*ssa.Store); ok && fieldOfAddr(st.Addr) == a.commitIdx {
						isStore = true
					}
					if ci, ok := ins.(ssa.CallInstruction); ok && atomicWriteFuncs[eventName(ci)] && len(ci.Common().Args) > 0 && fieldOfAddr(ci.Common().Args[0]) == a.commitIdx {
						isStore = true
					}
					if !isStore || observedStores[ins] {
						continue
					}
					key := ord.next(funcDisplay(fn) + ":publish(commitIdx)")
					if pre[fn] && !mut[fn] {
						r.OK(key, posOf(p, ins), "store in code reachable only from Filer.RecoverTail/Create: the Writer is not yet shared (exempt, see ACC-01)")
					} else {
						r.Fail(key, posOf(p, ins), "store to the commit index outside every analysed mutator path and outside recovery: it is not ordered after write+fsync")
					}
				}
			}
		}
	}
}
