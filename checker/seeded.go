package main

import (
	"encoding/json"
	"fmt"
	"os"
	"os/exec"
	"path/filepath"
	"sort"
	"strings"
)

// runSeeded applies each independently seeded change (seeded/*/patch.diff) to a
// scratch copy of the repository under the system temp directory, runs the
// checks of the property it was written against, and expects a violation.
// The scratch copy is removed immediately afterwards.
func runSeeded(repo string, only []string) int {
	vdir := verifDir()
	dirs, _ := filepath.Glob(filepath.Join(vdir, "seeded", "*", "patch.diff"))
	sort.Strings(dirs)
	bad, declined := 0, 0
	for _, pf := range dirs {
		name := filepath.Base(filepath.Dir(pf))
		if len(only) > 0 {
			m := false
			for _, o := range only {
				if strings.Contains(name, o) {
					m = true
				}
			}
			if !m {
				continue
			}
		}
		prop := strings.SplitN(name, "-", 2)[0]
		var meta struct {
			Property   string `json:"property"`
			OutOfReach string `json:"out_of_reach"` // set by me after triage: why no sound static rule exists (see DESIGN.md section 10)
		}
		if b, err := os.ReadFile(filepath.Join(filepath.Dir(pf), "meta.json")); err == nil {
			_ = json.Unmarshal(b, &meta)
			if meta.Property != "" {
				prop = meta.Property
			}
		}
		tmp, err := os.MkdirTemp("", "walcheck-seed-")
		if err != nil {
			fmt.Println("FAIL", name, err)
			bad++
			continue
		}
		res := func() string {
			defer os.RemoveAll(tmp)
			if out, err := exec.Command("rsync", "-a", "--exclude", ".git", repo+"/", tmp+"/").CombinedOutput(); err != nil {
				return "cannot copy repo: " + string(out)
			}
			cmd := exec.Command("patch", "-p1", "-s", "-i", pf)
			cmd.Dir = tmp
			if out, err := cmd.CombinedOutput(); err != nil {
				return "STALE: patch no longer applies: " + strings.TrimSpace(string(out))
			}
			p, err := loadProg(LoadConfig{RepoDir: tmp})
			if err != nil {
				return "variant does not load: " + err.Error()
			}
			var fired []string
			for _, rule := range rulesFor(prop, "quick") {
				rr := execRule(p, rule, "quick")
				for _, o := range rr.Obls {
					if o.Status != Discharged {
						fired = append(fired, o.Key)
						break
					}
				}
			}
			if len(fired) == 0 {
				extra := ""
				if os.Getenv("SEEDED_ALL") != "" {
					// triage aid: which rules registered under other properties report this change?
					var sib []string
					for _, rule := range allRules {
						if rule.ThoroughOnly {
							continue
						}
						rr := execRule(p, rule, "quick")
						for _, o := range rr.Obls {
							if o.Status != Discharged {
								sib = append(sib, o.Key+"["+strings.Join(rule.Props, ",")+"]")
								break
							}
						}
					}
					extra = " (other rules: " + strings.Join(sib, " ") + ")"
				}
				return "NOT DETECTED by the checks of " + prop + extra
			}
			return "ok " + strings.Join(fired, " ")
		}()
		st := "ok  "
		switch {
		case meta.OutOfReach != "" && strings.HasPrefix(res, "NOT DETECTED"):
			// a documented limit of the technique: it must stay *silent for all properties* here, a later
			// accidental detection would most likely be a rule firing for the wrong reason
			st, res = "decl", "declined: "+meta.OutOfReach
			declined++
		case meta.OutOfReach != "":
			st, res = "FAIL", "marked out of reach but reported by: "+strings.TrimPrefix(res, "ok ")+" (check the reason: a rule may be firing on the shape, not on the defect)"
			bad++
		case !strings.HasPrefix(res, "ok "):
			st = "FAIL"
			bad++
		}
		fmt.Printf("%s %-48s %s\n", st, name, strings.TrimPrefix(res, "ok "))
	}
	fmt.Printf("seeded: %d changes, %d not detected, %d declined (out of reach, documented)\n", len(dirs), bad, declined)
	if bad > 0 {
		return 1
	}
	return 0
}

// runRefactors applies each behaviour-preserving patch under refactors/*/ to a scratch
// copy and expects every rule to stay silent: any report is a false alarm of the checker.
func runRefactors(repo string, only []string) int {
	vdir := verifDir()
	files, _ := filepath.Glob(filepath.Join(vdir, "refactors", "*", "*.diff"))
	sort.Strings(files)
	bad, n, nOpen, stale := 0, 0, 0, 0
	// refactors/OPEN.txt: "<Rn/rk.diff> <why the checker still alarms on it>" - known, documented limitations
	open := map[string]string{}
	if b, err := os.ReadFile(filepath.Join(vdir, "refactors", "OPEN.txt")); err == nil {
		for _, ln := range strings.Split(string(b), "\n") {
			ln = strings.TrimSpace(ln)
			if ln == "" || strings.HasPrefix(ln, "#") {
				continue
			}
			k, v, _ := strings.Cut(ln, " ")
			open[k] = strings.TrimSpace(v)
		}
	}
	for _, pf := range files {
		name := filepath.Base(filepath.Dir(pf)) + "/" + filepath.Base(pf)
		if len(only) > 0 {
			m := false
			for _, o := range only {
				if strings.Contains(name, o) {
					m = true
				}
			}
			if !m {
				continue
			}
		}
		n++
		tmp, err := os.MkdirTemp("", "walcheck-refactor-")
		if err != nil {
			fmt.Println("FAIL", name, err)
			bad++
			continue
		}
		res := func() string {
			defer os.RemoveAll(tmp)
			if out, err := exec.Command("rsync", "-a", "--exclude", ".git", repo+"/", tmp+"/").CombinedOutput(); err != nil {
				return "cannot copy repo: " + string(out)
			}
			cmd := exec.Command("patch", "-p1", "-s", "-i", pf)
			cmd.Dir = tmp
			if out, err := cmd.CombinedOutput(); err != nil {
				return "STALE: patch no longer applies: " + strings.TrimSpace(string(out))
			}
			p, err := loadProg(LoadConfig{RepoDir: tmp})
			if err != nil {
				return "variant does not load: " + err.Error()
			}
			var noisy []string
			for _, rule := range allRules {
				if rule.ThoroughOnly {
					continue
				}
				rr := execRule(p, rule, "quick")
				for _, o := range rr.Obls {
					if o.Status != Discharged {
						noisy = append(noisy, o.Key)
					}
				}
			}
			sort.Strings(noisy)
			if len(noisy) > 0 {
				return "FALSE ALARM: " + strings.Join(noisy, ", ")
			}
			return "ok"
		}()
		st := "ok  "
		if res != "ok" {
			st = "FAIL"
			switch {
			case strings.HasPrefix(res, "STALE"):
				stale++
			case open[name] != "":
				// a documented, still open false alarm (refactors/OPEN.txt, DESIGN.md section 10.6)
				st = "open"
				nOpen++
				res += "   [open: " + open[name] + "]"
			default:
				bad++
			}
		} else if open[name] != "" {
			res = "ok (listed in OPEN.txt but silent now: remove the entry)"
		}
		fmt.Printf("%s %-16s %s\n", st, name, strings.TrimPrefix(res, "ok"))
	}
	fmt.Printf("refactors: %d behaviour-preserving patches, %d with false alarms, %d open (documented in refactors/OPEN.txt), %d stale\n", n, bad, nOpen, stale)
	if bad > 0 {
		return 1
	}
	return 0
}
