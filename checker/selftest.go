package main

import (
	"fmt"
	"os"
	"path/filepath"
	"regexp"
	"sort"
	"strings"
	"sync"
)

// edit is one textual replacement applied to the *current* source of /repo as
// an in-memory overlay. Old must occur exactly once (otherwise the corpus entry
// is stale, which is a selftest failure, never a verdict about raft-wal).
type edit struct {
	File, Old, New string
}

// mutant is one entry of the checker's own regression corpus.
type mutant struct {
	Name   string
	Edits  []edit
	Fire   []string // rules that must report a non-discharged obligation
	Silent bool     // behaviour-preserving edit: every rule must stay silent
	Note   string
	// Renames are whole-identifier renames applied to every production .go file (old -> new).
	Renames map[string]string
}

var corpus []mutant

func addMutant(m mutant) { corpus = append(corpus, m) }

func applyEdits(repo string, edits []edit) (map[string][]byte, error) {
	ov := map[string][]byte{}
	for _, ed := range edits {
		path := filepath.Join(repo, ed.File)
		src, ok := ov[path]
		if !ok {
			b, err := os.ReadFile(path)
			if err != nil {
				return nil, err
			}
			src = b
		}
		n := strings.Count(string(src), ed.Old)
		if n != 1 {
			return nil, fmt.Errorf("stale corpus entry: %q occurs %d times in %s", ed.Old, n, ed.File)
		}
		ov[path] = []byte(strings.Replace(string(src), ed.Old, ed.New, 1))
	}
	return ov, nil
}

type selfResult struct {
	Name string
	OK   bool
	Msg  string
}

// applyRenames rewrites whole identifiers in every production source file of the repository.
func applyRenames(repo string, renames map[string]string, ov map[string][]byte) error {
	if len(renames) == 0 {
		return nil
	}
	hit := map[string]bool{}
	err := filepath.Walk(repo, func(path string, info os.FileInfo, err error) error {
		if err != nil {
			return err
		}
		if info.IsDir() {
			if strings.HasPrefix(info.Name(), ".") && path != repo {
				return filepath.SkipDir
			}
			return nil
		}
		if !strings.HasSuffix(path, ".go") || strings.HasSuffix(path, "_test.go") {
			return nil
		}
		src, ok := ov[path]
		if !ok {
			b, err := os.ReadFile(path)
			if err != nil {
				return err
			}
			src = b
		}
		out := string(src)
		for old, nw := range renames {
			re := regexp.MustCompile(`\b` + regexp.QuoteMeta(old) + `\b`)
			if re.MatchString(out) {
				hit[old] = true
				out = re.ReplaceAllString(out, nw)
			}
		}
		if out != string(src) {
			ov[path] = []byte(out)
		}
		return nil
	})
	if err != nil {
		return err
	}
	for old := range renames {
		if !hit[old] {
			return fmt.Errorf("stale corpus entry: identifier %q no longer occurs", old)
		}
	}
	return nil
}

func runMutant(repo string, m mutant) selfResult {
	ov, err := applyEdits(repo, m.Edits)
	if err != nil {
		return selfResult{m.Name, false, err.Error()}
	}
	if err := applyRenames(repo, m.Renames, ov); err != nil {
		return selfResult{m.Name, false, err.Error()}
	}
	p, err := loadProg(LoadConfig{RepoDir: repo, Overlay: ov})
	if err != nil {
		return selfResult{m.Name, false, "variant does not load: " + err.Error()}
	}
	if m.Silent {
		var noisy []string
		for _, rule := range allRules {
			if rule.ThoroughOnly {
				continue
			}
			rr := execRule(p, rule, "quick")
			for _, o := range rr.Obls {
				if o.Status != Discharged && !baselineNoise[o.Key] {
					noisy = append(noisy, o.Key)
				}
			}
		}
		if len(noisy) > 0 {
			sort.Strings(noisy)
			return selfResult{m.Name, false, "behaviour-preserving edit reported: " + strings.Join(noisy, ", ")}
		}
		return selfResult{m.Name, true, "silent"}
	}
	var missed, fired []string
	for _, id := range m.Fire {
		rule := ruleByID(id)
		if rule == nil {
			missed = append(missed, id+"(not implemented)")
			continue
		}
		rr := execRule(p, rule, "quick")
		n := 0
		first := ""
		for _, o := range rr.Obls {
			if o.Status != Discharged && !baselineNoise[o.Key] {
				if n == 0 {
					first = o.Key
				}
				n++
			}
		}
		if n == 0 {
			missed = append(missed, id)
		} else {
			fired = append(fired, fmt.Sprintf("%s:%d[%s]", id, n, first))
		}
	}
	if len(missed) > 0 {
		return selfResult{m.Name, false, "NOT DETECTED by " + strings.Join(missed, ",") + " (fired: " + strings.Join(fired, " ") + ")"}
	}
	return selfResult{m.Name, true, strings.Join(fired, " ")}
}

// baselineNoise holds obligations that are not discharged on the unmodified
// tree (known findings); they are ignored when judging a mutant.
var baselineNoise = map[string]bool{}

func runSelftest(repo string, args []string) int {
	// baseline
	p, err := loadProg(LoadConfig{RepoDir: repo})
	if err != nil {
		fmt.Fprintln(os.Stderr, "walcheck:", err)
		return 2
	}
	for _, rule := range allRules {
		rr := execRule(p, rule, "quick")
		for _, o := range rr.Obls {
			if o.Status != Discharged {
				baselineNoise[o.Key] = true
			}
		}
	}
	if len(baselineNoise) > 0 {
		fmt.Printf("baseline: %d obligations not discharged on the unmodified tree (ignored below)\n", len(baselineNoise))
	}
	var todo []mutant
	for _, m := range corpus {
		if len(args) > 0 {
			match := false
			for _, a := range args {
				if strings.Contains(m.Name, a) {
					match = true
				}
			}
			if !match {
				continue
			}
		}
		todo = append(todo, m)
	}
	res := make([]selfResult, len(todo))
	sem := make(chan struct{}, 10)
	var wg sync.WaitGroup
	for i, m := range todo {
		wg.Add(1)
		go func(i int, m mutant) {
			defer wg.Done()
			sem <- struct{}{}
			defer func() { <-sem }()
			defer func() {
				if e := recover(); e != nil {
					res[i] = selfResult{m.Name, false, fmt.Sprint("panic: ", e)}
				}
			}()
			res[i] = runMutant(repo, m)
		}(i, m)
	}
	wg.Wait()
	bad := 0
	for _, r := range res {
		st := "ok  "
		if !r.OK {
			st = "FAIL"
			bad++
		}
		fmt.Printf("%s %-44s %s\n", st, r.Name, r.Msg)
	}
	fmt.Printf("selftest: %d entries, %d failed\n", len(res), bad)
	if bad > 0 {
		return 1
	}
	return 0
}
