package main

// runThorough adds the thorough-tier work for a property; see thorough tier in DESIGN.md section 7.
func runThorough(prop, repo string, rules []*Rule, base *Prog) (map[string]any, []Obligation) {
	return thoroughImpl(prop, repo, rules, base)
}
