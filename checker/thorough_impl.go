package main

import (
	"fmt"
	"math/rand"
	"os"
	"sort"
	"strconv"
	"sync"
)

// thoroughConfigs are the extra build configurations every rule must also pass on.
var thoroughConfigs = []LoadConfig{
	{GOOS: "linux", GOARCH: "arm64"},
	{GOOS: "darwin", GOARCH: "amd64"},
	{GOOS: "linux", GOARCH: "386"},
	{GOOS: "linux", GOARCH: "amd64", Tags: "hashicorpmetrics"},
}

// thoroughImpl: (1) the property's rules again on other GOOS/GOARCH/tag
// configurations; (2) witness sensitivity: every corpus mutant that targets one
// of the property's rules is applied as an in-memory overlay of the *current*
// source and the rule must report it (INSENSITIVE otherwise; informational).
func thoroughImpl(prop, repo string, rules []*Rule, base *Prog) (map[string]any, []Obligation) {
	extra := map[string]any{}
	var obls []Obligation
	ruleSet := map[string]bool{}
	for _, r := range rules {
		ruleSet[r.ID] = true
	}
	// (1) configurations
	var cfgNames []string
	type cfgRes struct {
		name string
		obls []Obligation
		err  error
		n    int
	}
	results := make([]cfgRes, len(thoroughConfigs))
	var wg sync.WaitGroup
	sem := make(chan struct{}, 2)
	for i, cfg := range thoroughConfigs {
		wg.Add(1)
		go func(i int, cfg LoadConfig) {
			defer wg.Done()
			sem <- struct{}{}
			defer func() { <-sem }()
			cfg.RepoDir = repo
			name := cfg.GOOS + "/" + cfg.GOARCH
			if cfg.Tags != "" {
				name += "+" + cfg.Tags
			}
			results[i].name = name
			p, err := loadProg(cfg)
			if err != nil {
				results[i].err = err
				return
			}
			for _, rule := range rules {
				rr := execRule(p, rule, "thorough")
				results[i].n += len(rr.Obls)
				for _, o := range rr.Obls {
					if o.Status != Discharged {
						o.Key += "@" + name
						o.Detail = "[" + name + "] " + o.Detail
						results[i].obls = append(results[i].obls, o)
					}
				}
			}
		}(i, cfg)
	}
	wg.Wait()
	cfgSummary := map[string]any{}
	for _, res := range results {
		cfgNames = append(cfgNames, res.name)
		if res.err != nil {
			// a configuration the sandbox cannot build is reported, not silently skipped
			cfgSummary[res.name] = "not analysable here: " + res.err.Error()
			fmt.Printf("note: configuration %s could not be loaded: %v\n", res.name, res.err)
			continue
		}
		cfgSummary[res.name] = fmt.Sprintf("%d obligations, %d not discharged", res.n, len(res.obls))
		obls = append(obls, res.obls...)
	}
	extra["configurations"] = cfgSummary

	// (2) witness sensitivity
	var todo []mutant
	for _, m := range corpus {
		if m.Silent {
			continue
		}
		for _, id := range m.Fire {
			if ruleSet[id] {
				todo = append(todo, m)
				break
			}
		}
	}
	seed := int64(0)
	if s := os.Getenv("VERIF_SEED"); s != "" {
		if n, err := strconv.ParseInt(s, 10, 64); err == nil {
			seed = n
		}
	}
	rng := rand.New(rand.NewSource(seed))
	rng.Shuffle(len(todo), func(i, j int) { todo[i], todo[j] = todo[j], todo[i] })
	limit := 24
	if len(todo) > limit {
		todo = todo[:limit]
	}
	// baseline noise
	for _, rule := range rules {
		rr := execRule(base, rule, "quick")
		for _, o := range rr.Obls {
			if o.Status != Discharged {
				baselineNoise[o.Key] = true
			}
		}
	}
	res := make([]selfResult, len(todo))
	sem2 := make(chan struct{}, 8)
	for i, m := range todo {
		wg.Add(1)
		go func(i int, m mutant) {
			defer wg.Done()
			sem2 <- struct{}{}
			defer func() { <-sem2 }()
			defer func() {
				if e := recover(); e != nil {
					res[i] = selfResult{m.Name, false, fmt.Sprint("panic: ", e)}
				}
			}()
			// only the rules of this property count
			mm := m
			mm.Fire = nil
			for _, id := range m.Fire {
				if ruleSet[id] {
					mm.Fire = append(mm.Fire, id)
				}
			}
			res[i] = runMutant(repo, mm)
		}(i, m)
	}
	wg.Wait()
	sens, insens, stale := 0, 0, 0
	var samples []map[string]string
	sort.Slice(res, func(i, j int) bool { return res[i].Name < res[j].Name })
	for _, r0 := range res {
		switch {
		case r0.OK:
			sens++
		case len(r0.Msg) > 5 && (r0.Msg[:5] == "stale" || r0.Msg[:7] == "variant"):
			stale++
			fmt.Printf("note: sensitivity variant %s skipped: %s\n", r0.Name, r0.Msg)
		default:
			insens++
			fmt.Printf("INSENSITIVE %s: %s\n", r0.Name, r0.Msg)
		}
		if len(samples) < 8 {
			samples = append(samples, map[string]string{"variant": r0.Name, "result": r0.Msg})
		}
	}
	extra["witness_sensitivity"] = map[string]any{"variants_tried": len(res), "detected": sens, "insensitive": insens, "skipped_stale_or_not_compiling": stale, "samples": samples,
		"note": "each variant is the current /repo source with one seeded fault applied as an in-memory overlay; the rule must report it. Informational: a statement about the checker, not about raft-wal."}
	return extra, obls
}
