package main

func thoroughImpl(prop, repo string, rules []*Rule, base *Prog) (map[string]any, []Obligation) {
	return map[string]any{}, nil
}

