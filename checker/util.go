package main

import (
	"fmt"
	"go/ast"
	"go/constant"
	"go/token"
	"go/types"
	"sort"
	"strings"

	"golang.org/x/tools/go/packages"
	"golang.org/x/tools/go/ssa"
	"golang.org/x/tools/go/types/typeutil"
)

// astCall is a call expression in a production package together with its
// resolved callee and enclosing function declaration.
type astCall struct {
	Pkg    *packages.Package
	Rel    string
	Call   *ast.CallExpr
	Callee types.Object // *types.Func, *types.Builtin or nil (dynamic)
	Encl   string       // display name of the enclosing top-level function
	File   *ast.File
}

func isTestFile(p *Prog, f *ast.File) bool {
	return strings.HasSuffix(p.Fset.Position(f.Pos()).Filename, "_test.go")
}

// enclName renders the enclosing FuncDecl of a node list.
func declName(rel string, fd *ast.FuncDecl) string {
	pk := rel
	if pk == "" {
		pk = "wal"
	}
	if fd.Recv != nil && len(fd.Recv.List) > 0 {
		t := fd.Recv.List[0].Type
		star := ""
		if s, ok := t.(*ast.StarExpr); ok {
			t = s.X
			star = "*"
		}
		if ix, ok := t.(*ast.IndexExpr); ok {
			t = ix.X
		}
		if id, ok := t.(*ast.Ident); ok {
			return fmt.Sprintf("(%s%s.%s).%s", star, pk, id.Name, fd.Name.Name)
		}
	}
	return pk + "." + fd.Name.Name
}

// eachCall visits every call expression of the given production packages.
func (p *Prog) eachCall(rels []string, fn func(c astCall)) {
	for _, rel := range rels {
		pk := p.Pkg[rel]
		if pk == nil {
			continue
		}
		for _, f := range pk.Syntax {
			if isTestFile(p, f) {
				continue
			}
			for _, d := range f.Decls {
				fd, ok := d.(*ast.FuncDecl)
				encl := "init"
				var body ast.Node = d
				if ok {
					encl = declName(rel, fd)
					if fd.Body == nil {
						continue
					}
					body = fd.Body
				}
				ast.Inspect(body, func(n ast.Node) bool {
					ce, ok := n.(*ast.CallExpr)
					if !ok {
						return true
					}
					fn(astCall{Pkg: pk, Rel: rel, Call: ce, Callee: typeutil.Callee(pk.TypesInfo, ce), Encl: encl, File: f})
					return true
				})
			}
		}
	}
}

// constString returns the compile-time string value of e, if any.
func constString(info *types.Info, e ast.Expr) (string, bool) {
	tv, ok := info.Types[e]
	if !ok || tv.Value == nil || tv.Value.Kind() != constant.String {
		return "", false
	}
	return constant.StringVal(tv.Value), true
}

func constInt(info *types.Info, e ast.Expr) (int64, bool) {
	tv, ok := info.Types[e]
	if !ok || tv.Value == nil {
		return 0, false
	}
	v := constant.ToInt(tv.Value)
	if v.Kind() != constant.Int {
		return 0, false
	}
	n, exact := constant.Int64Val(v)
	if !exact {
		u, ok := constant.Uint64Val(v)
		return int64(u), ok
	}
	return n, true
}

// sameFunc reports whether a and b denote the same function object (also
// across generic instantiation origins).
func sameFunc(a, b *types.Func) bool {
	if a == nil || b == nil {
		return false
	}
	return a.Origin() == b.Origin()
}

// ordinal keeps per-(function,event) counters so construct keys are stable.
type ordinal map[string]int

func (o ordinal) next(k string) string {
	o[k]++
	return fmt.Sprintf("%s#%d", k, o[k])
}

func sortedKeys[V any](m map[string]V) []string {
	ks := make([]string, 0, len(m))
	for k := range m {
		ks = append(ks, k)
	}
	sort.Strings(ks)
	return ks
}

// ---------------------------------------------------------------- SSA helpers

// calleeOf returns the statically known callee types.Func of a call
// instruction: a static function, an interface method (invoke mode), or nil.
func calleeOf(c ssa.CallInstruction) *types.Func {
	cc := c.Common()
	if cc.IsInvoke() {
		return cc.Method
	}
	if fn := cc.StaticCallee(); fn != nil {
		if o, ok := fn.Object().(*types.Func); ok {
			return o
		}
		// bound method closures / wrappers
		if fn.Synthetic != "" {
			if o := fn.Origin(); o != nil {
				if of, ok := o.Object().(*types.Func); ok {
					return of
				}
			}
		}
		return nil
	}
	return nil
}

// isBuiltinCall reports a call of the named builtin (close, append, delete, ...).
func isBuiltinCall(c ssa.CallInstruction, name string) bool {
	b, ok := c.Common().Value.(*ssa.Builtin)
	return ok && b.Name() == name
}

// fieldOfAddr resolves the struct field a FieldAddr/Field value addresses.
func fieldOfAddr(v ssa.Value) *types.Var {
	switch x := v.(type) {
	case *ssa.FieldAddr:
		st := derefStruct(x.X.Type())
		if st != nil {
			return st.Field(x.Field)
		}
	case *ssa.Field:
		st, _ := x.X.Type().Underlying().(*types.Struct)
		if st != nil {
			return st.Field(x.Field)
		}
	}
	return nil
}

func derefStruct(t types.Type) *types.Struct {
	if pt, ok := t.Underlying().(*types.Pointer); ok {
		t = pt.Elem()
	}
	st, _ := t.Underlying().(*types.Struct)
	return st
}

func isErrorType(t types.Type) bool {
	return types.Identical(t, types.Universe.Lookup("error").Type())
}

// resultErrIndex returns the index of the (last) error result of a signature, or -1.
func resultErrIndex(sig *types.Signature) int {
	rs := sig.Results()
	for i := rs.Len() - 1; i >= 0; i-- {
		if isErrorType(rs.At(i).Type()) {
			return i
		}
	}
	return -1
}

func posOf(p *Prog, ins ssa.Instruction) string {
	pos := ins.Pos()
	if !pos.IsValid() {
		// fall back to the nearest positioned instruction in the block, then the function
		if b := ins.Block(); b != nil {
			for _, i2 := range b.Instrs {
				if i2.Pos().IsValid() {
					pos = i2.Pos()
					break
				}
			}
		}
		if !pos.IsValid() && ins.Parent() != nil {
			pos = ins.Parent().Pos()
		}
	}
	return p.Position(pos)
}

var _ = token.NoPos
