package main

import (
	"go/token"
	"go/types"
	"strings"

	"golang.org/x/tools/go/ssa"
)

// walVocab resolves the fields of wal.WAL / wal.state by role (type), with the
// conventional name as tie-breaker, and classifies instructions of package wal
// into the events of DESIGN.md Appendix A.
type walVocab struct {
	p                                                                 *Prog
	walT, stateT                                                      *types.Named
	closed, stateCell, writeMu, trigger, await, metaDB, sf            *types.Var
	refCount, finalizer, tail, segments, nextSegmentID, nextBaseIndex *types.Var
	missing                                                           []string
	txnSig                                                            *types.Signature
}

func fieldWhere(n *types.Named, prefer string, pred func(v *types.Var) bool) *types.Var {
	if n == nil {
		return nil
	}
	st, ok := n.Underlying().(*types.Struct)
	if !ok {
		return nil
	}
	var cands []*types.Var
	// direct fields and the fields promoted from embedded structs (a configuration struct embedded in WAL, say)
	var collect func(st *types.Struct, depth int)
	collect = func(st *types.Struct, depth int) {
		for i := 0; i < st.NumFields(); i++ {
			f := st.Field(i)
			if pred(f) {
				cands = append(cands, f)
			}
			if f.Embedded() && depth < 2 {
				t := f.Type()
				if pt, ok := t.(*types.Pointer); ok {
					t = pt.Elem()
				}
				if inner, ok := t.Underlying().(*types.Struct); ok {
					collect(inner, depth+1)
				}
			}
		}
	}
	collect(st, 0)
	if len(cands) == 1 {
		return cands[0]
	}
	for _, c := range cands {
		if c.Name() == prefer {
			return c
		}
	}
	return nil
}

func typeIs(t types.Type, s string) bool { return t.String() == s }

func newWalVocab(p *Prog) *walVocab {
	v := &walVocab{p: p}
	v.walT = p.NamedType("", "WAL")
	v.stateT = p.NamedType("", "state")
	need := func(name string, f *types.Var) *types.Var {
		if f == nil {
			v.missing = append(v.missing, name)
		}
		return f
	}
	isChanOf := func(elem string) func(*types.Var) bool {
		return func(f *types.Var) bool {
			c, ok := f.Type().Underlying().(*types.Chan)
			return ok && c.Elem().String() == elem
		}
	}
	isAtomicCell := func(t types.Type) bool {
		return typeIs(t, "sync/atomic.Value") || strings.HasPrefix(t.String(), "sync/atomic.Pointer[")
	}
	v.closed = need("WAL.closed", fieldWhere(v.walT, "closed", func(f *types.Var) bool {
		return typeIs(f.Type(), "uint32") || typeIs(f.Type(), "sync/atomic.Uint32")
	}))
	v.stateCell = need("WAL.s", fieldWhere(v.walT, "s", func(f *types.Var) bool { return isAtomicCell(f.Type()) }))
	v.writeMu = need("WAL.writeMu", fieldWhere(v.walT, "writeMu", func(f *types.Var) bool { return typeIs(f.Type(), "sync.Mutex") }))
	v.trigger = need("WAL.triggerRotate", fieldWhere(v.walT, "triggerRotate", isChanOf("uint64")))
	v.await = need("WAL.awaitRotate", fieldWhere(v.walT, "awaitRotate", isChanOf("struct{}")))
	v.metaDB = need("WAL.metaDB", fieldWhere(v.walT, "metaDB", func(f *types.Var) bool { return typeIs(f.Type(), ModPath+"/types.MetaStore") }))
	v.sf = need("WAL.sf", fieldWhere(v.walT, "sf", func(f *types.Var) bool { return typeIs(f.Type(), ModPath+"/types.SegmentFiler") }))
	v.refCount = need("state.refCount", fieldWhere(v.stateT, "refCount", func(f *types.Var) bool {
		return typeIs(f.Type(), "int32") || typeIs(f.Type(), "sync/atomic.Int32")
	}))
	v.finalizer = need("state.finalizer", fieldWhere(v.stateT, "finalizer", func(f *types.Var) bool { return isAtomicCell(f.Type()) }))
	v.tail = need("state.tail", fieldWhere(v.stateT, "tail", func(f *types.Var) bool { return typeIs(f.Type(), ModPath+"/types.SegmentWriter") }))
	v.segments = need("state.segments", fieldWhere(v.stateT, "segments", func(f *types.Var) bool { return strings.Contains(f.Type().String(), "immutable.SortedMap") }))
	// the ID counter is the uint64 field of the snapshot that Persistent() copies into PersistentState.NextSegmentID;
	// the (optional) other uint64 field is the base-index hint for the next segment
	var idField *types.Var
	if pf := p.Func("", "state.Persistent"); pf != nil {
		for _, b := range pf.Blocks {
			for _, ins := range b.Instrs {
				if st, ok := ins.(*ssa.Store); ok {
					if dst := fieldOfAddr(st.Addr); dst != nil && dst.Name() == "NextSegmentID" {
						if src := loadedField(st.Val); src != nil {
							idField = src
						}
					}
				}
			}
		}
	}
	if idField == nil {
		idField = fieldWhere(v.stateT, "nextSegmentID", func(f *types.Var) bool { return typeIs(f.Type(), "uint64") })
	}
	v.nextSegmentID = need("state.nextSegmentID", idField)
	v.nextBaseIndex = fieldWhere(v.stateT, "nextBaseIndex", func(f *types.Var) bool { return typeIs(f.Type(), "uint64") && f != idField })
	if tn := p.NamedType("", "stateTxn"); tn != nil {
		v.txnSig, _ = tn.Underlying().(*types.Signature)
	}
	if v.txnSig == nil {
		v.missing = append(v.missing, "wal.stateTxn")
	}
	return v
}

// isTxnSig reports whether sig has the stateTxn shape: results (func(), func() error, error).
func (v *walVocab) isTxnSig(sig *types.Signature) bool {
	return sig != nil && v.txnSig != nil && types.Identical(sig.Results(), v.txnSig.Results()) && sig.Results().Len() == 3
}

// loadedField: v is `*(&x.f)`; returns f.
func loadedField(val ssa.Value) *types.Var {
	if u, ok := val.(*ssa.UnOp); ok && u.Op == token.MUL {
		return fieldOfAddr(u.X)
	}
	return nil
}

// chanName names the WAL channel a value denotes ("trigger"/"await"/"").
func (v *walVocab) chanName(val ssa.Value) string {
	switch loadedField(val) {
	case v.trigger:
		return "trigger"
	case v.await:
		return "await"
	}
	if phi, ok := val.(*ssa.Phi); ok {
		for _, e := range phi.Edges {
			if n := v.chanName(e); n != "" {
				return n
			}
		}
	}
	return ""
}

// call names a call site in the wal vocabulary.
func (v *walVocab) call(cx *Ctx, ci ssa.CallInstruction) CallInfo {
	cc := ci.Common()
	n := eventName(ci)
	if cc.IsInvoke() {
		if strings.HasPrefix(n, "types.") {
			return CallInfo{Event: strings.TrimPrefix(n, "types."), Primitive: true}
		}
		switch n {
		case "io.Closer.Close":
			return CallInfo{Event: "Closer.Close", Primitive: true}
		case "wal.Codec.Encode", "wal.Codec.Decode", "wal.Codec.ID":
			return CallInfo{Event: strings.TrimPrefix(n, "wal."), Primitive: true}
		}
		return CallInfo{Primitive: true}
	}
	if len(cc.Args) > 0 {
		f := fieldOfAddr(cc.Args[0])
		switch {
		case strings.HasPrefix(n, "atomic.Value."):
			m := strings.TrimPrefix(n, "atomic.Value.")
			if f == v.stateCell {
				return CallInfo{Event: "STATE." + m, Primitive: true}
			}
			if f == v.finalizer {
				return CallInfo{Event: "FIN." + m, Primitive: true}
			}
		case strings.HasPrefix(n, "atomic.") && f == v.closed:
			return CallInfo{Event: "CLOSED." + strings.TrimPrefix(n, "atomic."), Primitive: true}
		case strings.HasPrefix(n, "atomic.") && f == v.refCount:
			return CallInfo{Event: "REF." + strings.TrimPrefix(n, "atomic."), Primitive: true}
		case n == "sync.Mutex.Lock" && f == v.writeMu:
			return CallInfo{Event: "LOCK", Primitive: true}
		case n == "sync.Mutex.Unlock" && f == v.writeMu:
			return CallInfo{Event: "UNLOCK", Primitive: true}
		}
	}
	if b, ok := cc.Value.(*ssa.Builtin); ok {
		if b.Name() == "close" && len(cc.Args) == 1 {
			if cn := v.chanName(cc.Args[0]); cn != "" {
				return CallInfo{Event: "CLOSE(" + cn + ")"}
			}
			return CallInfo{Event: "CLOSE(?)"}
		}
		return CallInfo{}
	}
	// dynamic calls: the transaction body and its post-commit step
	if cc.StaticCallee() == nil {
		sig := cc.Signature()
		if v.isTxnSig(sig) {
			return CallInfo{Event: "TXN"}
		}
		if cx.E != nil && cx.F != nil {
			// the transaction's results keep their role wherever they are passed (helpers, struct fields)
			switch cx.Eval(cc.Value, cx.F).Tag {
			case "~postcommit":
				return CallInfo{Event: "POSTCOMMIT"}
			case "~finalizer":
				return CallInfo{Event: "FINCALL"}
			}
		}
		if ex, ok := cc.Value.(*ssa.Extract); ok {
			if c, ok := ex.Tuple.(*ssa.Call); ok && v.isTxnSig(c.Call.Signature()) {
				switch ex.Index {
				case 1:
					return CallInfo{Event: "POSTCOMMIT"}
				case 0:
					return CallInfo{Event: "FINCALL"}
				}
			}
		}
	}
	return CallInfo{}
}

// instr turns non-call instructions into events.
func (v *walVocab) instr(cx *Ctx, ins ssa.Instruction, f *Fact) {
	emit := func(ev string) { cx.E.emit(cx, ev, "", ins, f) }
	switch x := ins.(type) {
	case *ssa.Send:
		if cn := v.chanName(x.Chan); cn != "" {
			emit("SEND(" + cn + ")")
		}
	case *ssa.UnOp:
		if x.Op == token.ARROW {
			if cn := v.chanName(x.X); cn != "" {
				emit("RECV(" + cn + ")")
			}
		}
	case *ssa.Store:
		switch fieldOfAddr(x.Addr) {
		case v.await:
			switch val := x.Val.(type) {
			case *ssa.Const:
				if val.IsNil() {
					emit("AWAIT=nil")
					return
				}
			case *ssa.MakeChan:
				emit("AWAIT=make")
				return
			}
			emit("AWAIT=?")
		case v.nextSegmentID:
			emit("STORE(nextSegmentID)")
			if bo, ok := x.Val.(*ssa.BinOp); ok && bo.Op == token.ADD && (loadedField(bo.X) == v.nextSegmentID || loadedField(bo.Y) == v.nextSegmentID) {
				emit("ALLOC-ID")
			}
		case v.tail:
			emit("STORE(tail)")
		}
	case *ssa.Go:
		emit("GO(" + eventName(x) + ")")
	}
}

// closedObs reports what an If edge says about the closed flag: "open", "closed" or "".
func (v *walVocab) closedObs(ifi *ssa.If, truth bool) string {
	bo, ok := ifi.Cond.(*ssa.BinOp)
	if !ok || (bo.Op != token.EQL && bo.Op != token.NEQ) {
		return ""
	}
	isRead := func(val ssa.Value) bool {
		c, ok := val.(*ssa.Call)
		if !ok || len(c.Call.Args) == 0 {
			return false
		}
		n := eventName(c)
		return (n == "atomic.LoadUint32" || n == "atomic.SwapUint32") && fieldOfAddr(c.Call.Args[0]) == v.closed
	}
	var c *ssa.Const
	switch {
	case isRead(bo.X):
		c, _ = bo.Y.(*ssa.Const)
	case isRead(bo.Y):
		c, _ = bo.X.(*ssa.Const)
	}
	if c == nil {
		return ""
	}
	eq := (bo.Op == token.EQL) == truth
	zero := c.Int64() == 0
	if eq == zero {
		return "open"
	}
	return "closed"
}

// value tags the results of a transaction body with their role.
func (v *walVocab) value(cx *Ctx, val ssa.Value, f *Fact) (AV, bool) {
	c, ok := val.(*ssa.Call)
	if ok && c.Call.IsInvoke() && eventName(c) == "types.MetaStore.Load" {
		// what the meta store returns is, by definition, named by durable metadata
		a := cx.Eval(val, f)
		t := AV{K: avTuple, Tup: make([]AV, 2)}
		if a.K == avTuple {
			copy(t.Tup, a.Tup)
		}
		t.Tup[0].Tag = "~persisted"
		return t, true
	}
	if !ok || c.Call.IsInvoke() || c.Call.StaticCallee() != nil || !v.isTxnSig(c.Call.Signature()) {
		return AV{}, false
	}
	a := cx.Eval(val, f)
	t := AV{K: avTuple, Tup: make([]AV, 3)}
	if a.K == avTuple {
		copy(t.Tup, a.Tup)
	}
	t.Tup[0].Tag = "~finalizer"
	t.Tup[1].Tag = "~postcommit"
	return t, true
}

// isPostCommit: does val denote the post-commit step returned by the transaction body?
func (v *walVocab) isPostCommit(cx *Ctx, val ssa.Value, f *Fact) bool {
	if cx.E != nil && f != nil && cx.Eval(val, f).Tag == "~postcommit" {
		return true
	}
	ex, ok := val.(*ssa.Extract)
	if !ok || ex.Index != 1 {
		return false
	}
	c, ok := ex.Tuple.(*ssa.Call)
	return ok && v.isTxnSig(c.Call.Signature())
}

// baseSpec wires the vocabulary into an OrdSpec; rules add their own callbacks.
func (v *walVocab) baseSpec(name string) *OrdSpec {
	return &OrdSpec{Name: name, Call: v.call, Instr: v.instr, Value: v.value}
}

// apiMethods returns the methods of *WAL that implement raft.LogStore / raft.StableStore.
func (v *walVocab) apiMethods() []*ssa.Function {
	var out []*ssa.Function
	seen := map[string]bool{}
	for _, pk := range v.p.SSA.AllPackages() {
		if pk.Pkg.Path() != "github.com/hashicorp/raft" {
			continue
		}
		for _, in := range []string{"LogStore", "StableStore"} {
			obj := pk.Pkg.Scope().Lookup(in)
			if obj == nil {
				continue
			}
			it, ok := obj.Type().Underlying().(*types.Interface)
			if !ok {
				continue
			}
			for i := 0; i < it.NumMethods(); i++ {
				m := it.Method(i).Name()
				if seen[m] {
					continue
				}
				seen[m] = true
				if fn := v.p.Func("", "WAL."+m); fn != nil {
					out = append(out, fn)
				}
			}
		}
	}
	return out
}
