package reprowal

import (
	"errors"
	"testing"

	"github.com/hashicorp/raft"
	wal "github.com/hashicorp/raft-wal"
)

// F12 (C05): after a head truncation that ends inside the live tail segment,
// GetLog still returns entries below FirstIndex (the tail writer consults its
// construction-time copy of MinIndex); after a reopen the same call returns
// ErrLogNotFound, so behaviour also differs across a clean reopen.
func TestF12ReadBelowFirstIndex(t *testing.T) {
	dir := t.TempDir()
	w, err := wal.Open(dir)
	if err != nil {
		t.Fatal(err)
	}
	for idx := uint64(1); idx <= 10; idx++ {
		if err := w.StoreLog(&raft.Log{Index: idx, Data: []byte{byte(idx)}}); err != nil {
			t.Fatal(err)
		}
	}
	if err := w.DeleteRange(1, 5); err != nil {
		t.Fatal(err)
	}
	first, _ := w.FirstIndex()
	var l raft.Log
	errBefore := w.GetLog(3, &l)
	w.Close()

	w2, err := wal.Open(dir)
	if err != nil {
		t.Fatal(err)
	}
	defer w2.Close()
	errAfter := w2.GetLog(3, &l)
	t.Logf("FirstIndex=%d GetLog(3): before reopen err=%v, after reopen err=%v", first, errBefore, errAfter)
	if !errors.Is(errBefore, raft.ErrLogNotFound) {
		t.Errorf("F12 CONFIRMED: FirstIndex=%d but GetLog(3) returned err=%v (index %d) before reopen; after reopen err=%v",
			first, errBefore, l.Index, errAfter)
	}
}
