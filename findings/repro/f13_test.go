package reprowal

import (
	"testing"
	"time"

	"github.com/hashicorp/raft"
	"github.com/hashicorp/raft-wal/metrics"
	"github.com/hashicorp/raft-wal/verifier"
)

// F13 (C16): a tail truncation followed by re-appended entries between two
// checkpoints makes the verifier report a checksum mismatch although every
// entry in the range is stored and read back exactly as written: DeleteRange
// is forwarded without restarting the running checksum, so the sum the leader
// publishes still contains the truncated entry.
func TestF13FalseAlarmAfterTailTruncation(t *testing.T) {
	store := raft.NewInmemStore()
	reports := make(chan verifier.VerificationReport, 4)
	isCP := func(l *raft.Log) (bool, error) { return string(l.Data) == "CHECKPOINT", nil }
	ls := verifier.NewLogStore(store, isCP, func(r verifier.VerificationReport) { reports <- r },
		metrics.NewAtomicCollector(verifier.MetricDefinitions))
	defer ls.Close()

	must := func(err error) {
		t.Helper()
		if err != nil {
			t.Fatal(err)
		}
	}
	// index 1 is skipped by the verifier only when it is a configuration entry; use commands
	must(ls.StoreLogs([]*raft.Log{
		{Index: 1, Term: 1, Type: raft.LogCommand, Data: []byte("a")},
		{Index: 2, Term: 1, Type: raft.LogCommand, Data: []byte("b")},
		{Index: 3, Term: 1, Type: raft.LogCommand, Data: []byte("old-leader")},
	}))
	must(ls.DeleteRange(3, 3)) // conflicting suffix removed
	must(ls.StoreLogs([]*raft.Log{{Index: 3, Term: 2, Type: raft.LogCommand, Data: []byte("new-leader")}}))
	must(ls.StoreLogs([]*raft.Log{{Index: 4, Term: 2, Type: raft.LogCommand, Data: []byte("CHECKPOINT")}}))

	select {
	case r := <-reports:
		t.Logf("report: range=%s expected=%x written=%x read=%x err=%v", r.Range, r.ExpectedSum, r.WrittenSum, r.ReadSum, r.Err)
		if r.Err != nil {
			t.Errorf("F13 CONFIRMED: nothing is corrupt, yet the report carries: %v", r.Err)
		}
	case <-time.After(3 * time.Second):
		t.Fatal("no report")
	}
}
