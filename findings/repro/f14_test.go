package reprowal

import (
	"errors"
	"fmt"
	"runtime"
	"sync"
	"sync/atomic"
	"testing"

	wal "github.com/hashicorp/raft-wal"
)

// F14 (C14): StableStore calls racing with Close.  BoltMetaDB.Close clears its
// db handle without synchronisation while GetStable/SetStable read it: a Get
// that passed the closed-check returns bolt's "database not open" (neither a
// normal result nor ErrClosed), can nil-dereference, and `go test -race`
// reports the data race on BoltMetaDB.db.
func TestF14StableRacingWithClose(t *testing.T) {
	var odd atomic.Value
	var panics int32
	for iter := 0; iter < 400 && odd.Load() == nil && atomic.LoadInt32(&panics) == 0; iter++ {
		dir := t.TempDir()
		w, err := wal.Open(dir)
		if err != nil {
			t.Fatal(err)
		}
		w.Set([]byte("k"), []byte("v"))
		var wg sync.WaitGroup
		var started int32
		for g := 0; g < 4; g++ {
			wg.Add(1)
			go func() {
				defer wg.Done()
				defer func() {
					if r := recover(); r != nil {
						atomic.AddInt32(&panics, 1)
						odd.Store(fmt.Sprintf("panic: %v", r))
					}
				}()
				for i := 0; i < 200000; i++ {
					if i == 10 {
						atomic.AddInt32(&started, 1)
					}
					_, err := w.Get([]byte("k"))
					if err != nil {
						if !errors.Is(err, wal.ErrClosed) {
							odd.Store(fmt.Sprintf("error: %v", err))
						}
						return
					}
				}
			}()
		}
		for atomic.LoadInt32(&started) < 4 {
			runtime.Gosched()
		}
		w.Close()
		wg.Wait()
	}
	if v := odd.Load(); v != nil {
		t.Errorf("F14 CONFIRMED: Get racing with Close gave %v", v)
	}
}
