package reprowal

import (
	"os"
	"path/filepath"
	"testing"

	"github.com/hashicorp/raft-wal/fs"
)

// F15 (C07/C01): fs.File.Sync marks the file "no longer new" *before* the
// directory fsync.  If that first directory fsync fails (here: the directory
// is briefly renamed away, so os.Open(dir) fails), the error is reported once,
// but every later Sync skips the directory fsync and reports success (here even
// while the directory is still unreachable): commits
// into the new segment are then acknowledged although its directory entry was
// never made durable.  (Under `strace -f -e trace=fsync,fdatasync` the second
// Sync issues exactly one fsync, on the file.)
func TestF15DirSyncNotRetried(t *testing.T) {
	parent := t.TempDir()
	dir := filepath.Join(parent, "wal")
	if err := os.Mkdir(dir, 0755); err != nil {
		t.Fatal(err)
	}
	f, err := fs.New().Create(dir, "seg.wal", 4096)
	if err != nil {
		t.Fatal(err)
	}
	defer f.Close()
	if _, err := f.WriteAt([]byte("batch-1"), 0); err != nil {
		t.Fatal(err)
	}
	moved := filepath.Join(parent, "moved")
	if err := os.Rename(dir, moved); err != nil {
		t.Fatal(err)
	}
	defer os.Rename(moved, dir)
	err1 := f.Sync() // file fsync ok, directory fsync fails
	if err1 == nil {
		t.Skip("could not make the directory fsync fail on this system")
	}
	if _, err := f.WriteAt([]byte("batch-2"), 8); err != nil {
		t.Fatal(err)
	}
	// The directory is still unreachable, so a Sync that really retried the
	// directory fsync must fail again.
	err2 := f.Sync()
	t.Logf("first Sync: %v; second Sync: %v", err1, err2)
	if err2 == nil {
		t.Errorf("F15 CONFIRMED: the only directory fsync attempt failed (%v), yet the next Sync reports success without attempting it again", err1)
	}
}
