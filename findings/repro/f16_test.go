package reprowal

import (
	"errors"
	"testing"

	"github.com/hashicorp/raft"
	wal "github.com/hashicorp/raft-wal"
	"github.com/hashicorp/raft-wal/fs"
	"github.com/hashicorp/raft-wal/segment"
	"github.com/hashicorp/raft-wal/types"
)

// createFaultVFS fails the next Create when armed.
type createFaultVFS struct {
	types.VFS
	failCreate bool
}

func (v *createFaultVFS) Create(dir, name string, size uint64) (types.WritableFile, error) {
	if v.failCreate {
		v.failCreate = false
		return nil, errors.New("injected: ENOSPC on create")
	}
	return v.VFS.Create(dir, name, size)
}

// F16 (C10): a state transaction whose metadata commit succeeded but whose
// post-commit step (creating the new tail's file) failed returns an error and
// keeps the OLD in-memory state, although the NEW state is what is durable.
// For a head truncation that removes every segment the old tail stays writable
// in memory: the next StoreLogs is acknowledged into a segment the metadata no
// longer lists, and after a clean reopen that entry is gone.
func TestF16PostCommitFailureDivergence(t *testing.T) {
	dir := t.TempDir()
	vfs := &createFaultVFS{VFS: fs.New()}
	w, err := wal.Open(dir, wal.WithSegmentFiler(segment.NewFiler(dir, vfs)))
	if err != nil {
		t.Fatal(err)
	}
	for i := uint64(1); i <= 5; i++ {
		if err := w.StoreLog(&raft.Log{Index: i, Term: 1, Data: []byte("x")}); err != nil {
			t.Fatal(err)
		}
	}
	vfs.failCreate = true
	derr := w.DeleteRange(1, 5) // removes everything: commit ok, Create of the new tail fails
	if derr == nil {
		t.Fatal("expected the injected create failure to surface")
	}
	t.Logf("DeleteRange: %v", derr)
	// The caller carries on (raft only logs a failed compaction).
	serr := w.StoreLog(&raft.Log{Index: 6, Term: 1, Data: []byte("acknowledged")})
	t.Logf("StoreLog(6) after the failed DeleteRange: %v", serr)
	if err := w.Close(); err != nil {
		t.Fatal(err)
	}
	w2, err := wal.Open(dir)
	if err != nil {
		t.Fatalf("reopen: %v", err)
	}
	defer w2.Close()
	first, _ := w2.FirstIndex()
	last, _ := w2.LastIndex()
	t.Logf("after reopen first=%d last=%d", first, last)
	if serr == nil {
		var l raft.Log
		if gerr := w2.GetLog(6, &l); gerr != nil {
			t.Errorf("F16 CONFIRMED: StoreLog(6) returned nil after the failed DeleteRange, but after a clean reopen GetLog(6) = %v (first=%d last=%d)", gerr, first, last)
		}
	}
}
