package reprowal

import (
	"testing"

	"github.com/hashicorp/raft"
	wal "github.com/hashicorp/raft-wal"
	"github.com/hashicorp/raft-wal/metadb"
	"github.com/hashicorp/raft-wal/metrics"
)

// F17 (C20): head_truncations / tail_truncations / segment_rotations are
// incremented inside (or before) the state transaction, i.e. before the
// metadata commit.  When the commit fails the operation returns an error and
// nothing was removed or rotated, yet the counter has moved: it no longer
// equals "the number of entries actually removed".
func TestF17CountersMoveOnFailedCommit(t *testing.T) {
	dir := t.TempDir()
	fm := &failMeta{MetaStore: &metadb.BoltMetaDB{}}
	mc := metrics.NewAtomicCollector(wal.MetricDefinitions)
	w, err := wal.Open(dir, wal.WithMetaStore(fm), wal.WithMetricsCollector(mc))
	if err != nil {
		t.Fatal(err)
	}
	defer w.Close()
	for i := uint64(1); i <= 10; i++ {
		if err := w.StoreLog(&raft.Log{Index: i, Term: 1, Data: []byte("x")}); err != nil {
			t.Fatal(err)
		}
	}
	fm.failCommit = true
	if err := w.DeleteRange(1, 4); err == nil {
		t.Fatal("expected the injected commit failure")
	}
	if err := w.DeleteRange(8, 10); err == nil {
		t.Fatal("expected the injected commit failure")
	}
	fm.failCommit = false
	first, _ := w.FirstIndex()
	last, _ := w.LastIndex()
	s := mc.Summary()
	t.Logf("after two FAILED truncations: first=%d last=%d head_truncations=%d tail_truncations=%d", first, last, s.Counters["head_truncations"], s.Counters["tail_truncations"])
	if first != 1 {
		t.Fatalf("the failed head truncation must not be applied, first=%d", first)
	}
	if s.Counters["head_truncations"] != 0 {
		t.Errorf("F17 CONFIRMED: head_truncations=%d although no entry was removed (the DeleteRange failed)", s.Counters["head_truncations"])
	}
}
