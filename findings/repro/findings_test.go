package reprowal

import (
	"bytes"
	"context"
	"math/rand"
	"os"
	"path/filepath"
	"runtime/debug"
	"testing"
	"time"

	"github.com/hashicorp/raft"
	wal "github.com/hashicorp/raft-wal"
	"github.com/hashicorp/raft-wal/fs"
	"github.com/hashicorp/raft-wal/metadb"
	"github.com/hashicorp/raft-wal/metrics"
	"github.com/hashicorp/raft-wal/migrate"
	"github.com/hashicorp/raft-wal/segment"
	"github.com/hashicorp/raft-wal/types"
)

// F01 (C03): crash after the append that sealed the tail, before the rotation's
// metadata commit.  After reopen every StoreLogs is refused with ErrSealed.
func TestF01SealedTailAfterCrash(t *testing.T) {
	dir := t.TempDir()
	fm := &failMeta{MetaStore: &metadb.BoltMetaDB{}}
	w, err := wal.Open(dir, wal.WithSegmentSize(4096), wal.WithMetaStore(fm))
	if err != nil {
		t.Fatal(err)
	}
	fm.failCommit = true // the background rotation "crashes" at its commit point
	idx := uint64(1)
	for ; idx < 20; idx++ {
		if err := w.StoreLog(&raft.Log{Index: idx, Data: bytes.Repeat([]byte{1}, 600)}); err != nil {
			break
		}
	}
	t.Logf("acknowledged 1..%d, then abandon the process state", idx-1)
	fm.MetaStore.Close() // only releases the bolt flock; nothing else is flushed

	w2, err := wal.Open(dir, wal.WithSegmentSize(4096))
	if err != nil {
		t.Fatalf("reopen: %v", err)
	}
	defer w2.Close()
	last, _ := w2.LastIndex()
	if err := w2.StoreLog(&raft.Log{Index: last + 1, Data: []byte("x")}); err != nil {
		t.Errorf("F01 CONFIRMED: recovered WAL (last=%d) refuses appends: %v", last, err)
	}
}

// F02 (C03/C02): the batch that seals the tail is torn (its commit frame never
// reached the disk).  Recovery rolls the entries back but keeps the seal marker.
func TestF02StaleSealMarker(t *testing.T) {
	dir := t.TempDir()
	f := segment.NewFiler(dir, fs.New())
	info := types.SegmentInfo{ID: 1, BaseIndex: 1, MinIndex: 1, SizeLimit: 4096}
	w, err := f.Create(info)
	if err != nil {
		t.Fatal(err)
	}
	if err := w.Append([]types.LogEntry{{Index: 1, Data: bytes.Repeat([]byte{1}, 100)}}); err != nil {
		t.Fatal(err)
	}
	if err := w.Append([]types.LogEntry{{Index: 2, Data: bytes.Repeat([]byte{2}, 5000)}}); err != nil {
		t.Fatal(err)
	}
	_, is, _ := w.Sealed()
	w.Close()
	name := filepath.Join(dir, segment.FileName(info))
	bs, _ := os.ReadFile(name)
	commitOff := int(is) - 8 + 16 // index frame = 8 header + 2*4 payload
	for i := 0; i < 8; i++ {
		bs[commitOff+i] = 0 // torn write: commit frame sector lost
	}
	os.WriteFile(name, bs, 0644)

	w2, err := f.RecoverTail(info)
	if err != nil {
		t.Fatalf("recover: %v", err)
	}
	sealed, is2, _ := w2.Sealed()
	if sealed {
		t.Errorf("F02 CONFIRMED: batch 2 rolled back (last=%d) but tail still reports sealed, indexStart=%d; append: %v",
			w2.LastIndex(), is2, w2.Append([]types.LogEntry{{Index: 2, Data: []byte("new")}}))
	}
}

// F03 (C11): decoding damaged bytes panics instead of returning an error.
func TestF03CodecPanic(t *testing.T) {
	defer func() {
		if r := recover(); r != nil {
			t.Errorf("F03 CONFIRMED: Decode panicked: %v", r)
		}
	}()
	var l raft.Log
	err := (&wal.BinaryCodec{}).Decode(bytes.Repeat([]byte{0xff}, 12), &l)
	if err == nil {
		t.Errorf("F03: overlong varint decoded without error")
	}
}

// F04 (C11): a failed Open leaves the bolt DB open+locked; the next Open of the
// same directory in the same process blocks.
func TestF04FailedOpenLeavesLock(t *testing.T) {
	dir := t.TempDir()
	w, err := wal.Open(dir, wal.WithSegmentSize(4096))
	if err != nil {
		t.Fatal(err)
	}
	for idx := uint64(1); idx < 30; idx++ {
		if err := w.StoreLog(&raft.Log{Index: idx, Data: bytes.Repeat([]byte{1}, 600)}); err != nil {
			t.Fatal(err)
		}
	}
	w.Close()
	ents, _ := os.ReadDir(dir)
	os.Remove(filepath.Join(dir, ents[0].Name())) // a sealed segment goes missing
	if _, err = wal.Open(dir, wal.WithSegmentSize(4096)); err == nil {
		t.Fatal("open with a missing sealed segment must fail")
	}
	done := make(chan error, 1)
	go func() {
		w, err := wal.Open(dir, wal.WithSegmentSize(4096))
		if w != nil {
			w.Close()
		}
		done <- err
	}()
	select {
	case err := <-done:
		t.Logf("second Open returned: %v", err)
	case <-time.After(3 * time.Second):
		t.Errorf("F04 CONFIRMED: second Open still blocked after 3s")
	}
}

// F05 (C14): StoreLogs that passed its closed-check before Close panics on the
// emptied state (nil tail / nil segment map).
func TestF05CloseRacePanic(t *testing.T) {
	for iter := 0; iter < 3000; iter++ {
		dir := t.TempDir()
		w, err := wal.Open(dir, wal.WithSegmentSize(512))
		if err != nil {
			t.Fatal(err)
		}
		done := make(chan string, 1)
		go func() {
			defer func() {
				if r := recover(); r != nil {
					done <- string(debug.Stack())
					return
				}
				done <- ""
			}()
			for idx := uint64(1); idx < 1000; idx++ {
				if err := w.StoreLog(&raft.Log{Index: idx, Data: bytes.Repeat([]byte{1}, 600)}); err != nil {
					return
				}
			}
		}()
		time.Sleep(time.Duration(rand.Intn(2000)) * time.Microsecond)
		w.Close()
		select {
		case st := <-done:
			if st != "" {
				t.Fatalf("F05 CONFIRMED (iter %d): StoreLog racing with Close panicked:\n%s", iter, st)
			}
		case <-time.After(2 * time.Second):
			// that is F06; not what this test looks for
		}
	}
}

// F06 (C14): a StoreLogs waiting for the pending rotation is never woken when
// Close takes the write lock before the rotation goroutine does.
func TestF06CloseLostWakeup(t *testing.T) {
	for iter := 0; iter < 3000; iter++ {
		dir := t.TempDir()
		w, err := wal.Open(dir, wal.WithSegmentSize(512))
		if err != nil {
			t.Fatal(err)
		}
		done := make(chan struct{})
		go func() {
			defer close(done)
			defer func() { recover() }() // F05 is a different finding
			for idx := uint64(1); idx < 1000; idx++ {
				if err := w.StoreLog(&raft.Log{Index: idx, Data: bytes.Repeat([]byte{1}, 600)}); err != nil {
					return
				}
			}
		}()
		time.Sleep(time.Duration(rand.Intn(2000)) * time.Microsecond)
		w.Close()
		select {
		case <-done:
		case <-time.After(3 * time.Second):
			t.Fatalf("F06 CONFIRMED (iter %d): writer still blocked 3s after Close returned", iter)
		}
	}
}

// F07 (C15): an entry whose frame exceeds MaxEntrySize is acknowledged and can
// then never be read.
func TestF07TooBigAccepted(t *testing.T) {
	dir := t.TempDir()
	w, err := wal.Open(dir)
	if err != nil {
		t.Fatal(err)
	}
	defer w.Close()
	err = w.StoreLog(&raft.Log{Index: 1, Data: make([]byte, 64*1024*1024+1)})
	if err == nil {
		var l raft.Log
		if err = w.GetLog(1, &l); err != nil {
			t.Errorf("F07 CONFIRMED: acknowledged entry unreadable: %v", err)
		}
	}
}

// F08 (C20): head truncation that also removes an empty tail under-counts
// head_truncations (unsigned wrap-around).
func TestF08HeadTruncationCounter(t *testing.T) {
	dir := t.TempDir()
	mc := metrics.NewAtomicCollector(wal.MetricDefinitions)
	w, err := wal.Open(dir, wal.WithSegmentSize(4096), wal.WithMetricsCollector(mc))
	if err != nil {
		t.Fatal(err)
	}
	defer w.Close()
	for idx := uint64(1); mc.Summary().Counters["segment_rotations"] == 0; idx++ {
		if err := w.StoreLog(&raft.Log{Index: idx, Data: bytes.Repeat([]byte{1}, 600)}); err != nil {
			t.Fatal(err)
		}
		time.Sleep(5 * time.Millisecond)
	}
	first, _ := w.FirstIndex()
	last, _ := w.LastIndex()
	if err := w.DeleteRange(first, last+5); err != nil {
		t.Fatal(err)
	}
	if got := mc.Summary().Counters["head_truncations"]; got != last-first+1 {
		t.Errorf("F08 CONFIRMED: removed %d entries, head_truncations=%d", last-first+1, got)
	}
}

// F09 (C19): CopyLogs of an empty source returns an error.
func TestF09CopyEmptyLog(t *testing.T) {
	err := migrate.CopyLogs(context.Background(), raft.NewInmemStore(), raft.NewInmemStore(), 1024, nil)
	if err != nil {
		t.Errorf("F09 CONFIRMED: %v", err)
	}
}

type customCodec struct{ wal.BinaryCodec }

func (c *customCodec) ID() uint64 { return wal.FirstExternalCodecID + 7 }

// F10 (C12): a WAL created with a custom codec cannot be reopened with it.
func TestF10CustomCodecReopen(t *testing.T) {
	dir := t.TempDir()
	w, err := wal.Open(dir, wal.WithCodec(&customCodec{}))
	if err != nil {
		t.Fatal(err)
	}
	if err := w.StoreLog(&raft.Log{Index: 1, Data: []byte("x")}); err != nil {
		t.Fatal(err)
	}
	w.Close()
	// NB: while F04 is present this failed Open also leaves the directory locked.
	w2, err := wal.Open(dir, wal.WithCodec(&customCodec{}))
	if err != nil {
		t.Errorf("F10 CONFIRMED: reopen with the same custom codec: %v", err)
		return
	}
	w2.Close()
}

// F11 (C10): a transient write error inside the forced seal of a tail
// truncation is not rolled back; the retried truncation then records an index
// block that was never written and the retained entries are lost after reopen.
func TestF11ForceSealNoRollback(t *testing.T) {
	dir := t.TempDir()
	fails := 0
	vfs := &faultVFS{VFS: fs.New(), failWrites: &fails}
	w, err := wal.Open(dir, wal.WithSegmentFiler(segment.NewFiler(dir, vfs)))
	if err != nil {
		t.Fatal(err)
	}
	for idx := uint64(1); idx <= 10; idx++ {
		if err := w.StoreLog(&raft.Log{Index: idx, Data: bytes.Repeat([]byte{byte(idx)}, 100)}); err != nil {
			t.Fatal(err)
		}
	}
	fails = 1
	if err := w.DeleteRange(8, 10); err == nil {
		t.Fatal("expected the injected write error")
	}
	if err := w.DeleteRange(8, 10); err != nil {
		t.Fatalf("retry: %v", err)
	}
	w.Close()
	w2, err := wal.Open(dir)
	if err != nil {
		t.Fatalf("F11 CONFIRMED (reopen fails): %v", err)
	}
	defer w2.Close()
	var l raft.Log
	for idx := uint64(1); idx <= 7; idx++ {
		if err := w2.GetLog(idx, &l); err != nil {
			t.Errorf("F11 CONFIRMED: acknowledged entry %d lost: %v", idx, err)
			return
		}
	}
}
