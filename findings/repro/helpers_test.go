package reprowal

import (
	"errors"

	"github.com/hashicorp/raft-wal/types"
)

// failMeta lets a test make the next metadata commits fail, which is how we
// stop the process "crashing" at the metadata commit point without killing it.
type failMeta struct {
	types.MetaStore
	failCommit bool
}

func (f *failMeta) CommitState(s types.PersistentState) error {
	if f.failCommit {
		return errors.New("injected: crash before metadata commit")
	}
	return f.MetaStore.CommitState(s)
}

// faultVFS fails the next *failWrites WriteAt calls on any writable file.
type faultVFS struct {
	types.VFS
	failWrites *int
}

type faultFile struct {
	types.WritableFile
	failWrites *int
}

func (f *faultFile) WriteAt(p []byte, off int64) (int, error) {
	if *f.failWrites > 0 {
		*f.failWrites--
		return 0, errors.New("injected EIO")
	}
	return f.WritableFile.WriteAt(p, off)
}

func (v *faultVFS) Create(dir, name string, size uint64) (types.WritableFile, error) {
	f, err := v.VFS.Create(dir, name, size)
	if err != nil {
		return nil, err
	}
	return &faultFile{f, v.failWrites}, nil
}

func (v *faultVFS) OpenWriter(dir, name string) (types.WritableFile, error) {
	f, err := v.VFS.OpenWriter(dir, name)
	if err != nil {
		return nil, err
	}
	return &faultFile{f, v.failWrites}, nil
}
