#!/bin/sh
# Runs every claimed check's quick command (rewrites evidence/*.json). Exit status = number of failing checks.
cd "$(dirname "$0")"
fail=0
for p in $(python3 -c "import json;print(' '.join(c['property_id'] for c in json.load(open('MANIFEST.json'))['checks']))"); do
  bin/walcheck -prop $p -tier ${1:-quick} | tail -1 || fail=$((fail+1))
done
exit $fail
