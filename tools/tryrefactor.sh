#!/bin/sh
# usage: tools/tryrefactor.sh <dir with r*.diff all.diff>  -- every alarm on these behaviour-preserving patches is a FALSE ALARM
cd /verif
for d in "$1"/r*.diff "$1"/all.diff; do
  [ -f "$d" ] || continue
  git -C /repo diff --quiet || { echo "/repo dirty"; exit 2; }
  git -C /repo apply "$d" || { echo "$d does not apply"; continue; }
  echo "=== $(basename $d)"
  for p in $(python3 -c "import json;print(' '.join(c['property_id'] for c in json.load(open('MANIFEST.json'))['checks']))"); do
    out=$(bin/walcheck -prop $p -tier quick 2>&1); rc=$?
    if [ $rc -ne 0 ]; then echo "  FALSE ALARM? $p exit=$rc"; echo "$out" | grep -E '^(VIOLATED|UNDECIDED|walcheck:)' | cut -c1-230 | head -6; fi
  done
  git -C /repo checkout -- .
done
./runall.sh >/dev/null 2>&1
echo finished
