#!/bin/sh
# usage: tools/tryseed.sh <patch.diff> [props...]  -- applies a seeded change to /repo, runs the checks, reverts.
set -u
patch="$1"; shift
cd /verif
git -C /repo diff --quiet || { echo "/repo has local changes"; exit 2; }
git -C /repo apply "$patch" || { echo "patch does not apply"; exit 2; }
props="${*:-$(python3 -c "import json;print(' '.join(c['property_id'] for c in json.load(open('MANIFEST.json'))['checks']))")}"
for p in $props; do
  out=$(bin/walcheck -prop $p -tier quick 2>&1); rc=$?
  if [ $rc -ne 0 ]; then echo "== $p exit=$rc"; echo "$out" | grep -E '^(VIOLATED|UNDECIDED|VIOLATION|walcheck:)' | cut -c1-260 | head -12; fi
done
git -C /repo checkout -- . ; git -C /repo status --short | head -3
# restore evidence of the unchanged tree for the props we touched
for p in $props; do bin/walcheck -prop $p -tier quick >/dev/null 2>&1; done
echo done
