#!/bin/sh
# usage: tools/tryseed2.sh <patch.diff> [props...] -- applies a seeded change to a scratch COPY of /repo (removed afterwards)
# and runs the quick checks of the given properties (default: all) against the copy. /repo and evidence/ are untouched.
patch="$1"; shift
tmp=$(mktemp -d /tmp/ts-XXXXXX)
rsync -a --exclude .git /repo/ $tmp/
( cd $tmp && patch -p1 -s -i "$patch" ) || { echo "patch does not apply"; rm -rf $tmp; exit 2; }
props="${*:-C01 C02 C03 C04 C05 C06 C07 C08 C09 C10 C11 C12 C13 C14 C15 C16 C17 C18 C19 C20}"
cd /verif
for p in $props; do
  out=$(bin/walcheck -prop $p -tier quick -repo $tmp -noevidence 2>&1); rc=$?
  if [ $rc -ne 0 ]; then echo "== $p exit=$rc"; echo "$out" | grep -E '^(VIOLATED|UNDECIDED|violated|undecided|walcheck:)' | cut -c1-300 | head -8; fi
done
rm -rf $tmp
echo done
