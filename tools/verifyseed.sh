#!/bin/bash
# usage: tools/verifyseed.sh <patch.diff> '<demo command>' <demo file src>:<dest path in repo> [...]
# In a fresh scratch worktree of /repo HEAD: the demo must PASS without the change, FAIL with it, and the
# repository's own suite must pass with the change (demo moved aside). The worktree is removed afterwards.
export GOFLAGS=-mod=mod GOPROXY=off GOSUMDB=off GOTOOLCHAIN=local
patch="$1"; demo="$2"; shift 2
wt=$(mktemp -d /tmp/vs-XXXXXX); rmdir $wt
git -C /repo worktree add -q --detach $wt HEAD || exit 2
cd $wt
dests=""
for pair in "$@"; do src="${pair%%:*}"; dst="${pair##*:}"; mkdir -p "$(dirname "$dst")"; cp "$src" "$dst"; dests="$dests $dst"; done
echo "--- demo WITHOUT change (expect PASS)"
( eval "$demo" ) > /tmp/vs_without.out 2>&1; without=$?; tail -2 /tmp/vs_without.out
git apply "$patch" || { echo "patch does not apply"; cd /; git -C /repo worktree remove --force $wt; exit 2; }
echo "--- demo WITH change (expect FAIL)"
( eval "$demo" ) > /tmp/vs_with.out 2>&1; with=$?; tail -4 /tmp/vs_with.out
for d in $dests; do rm -f "$d"; done
echo "--- existing suite WITH change"
suite=1
for i in 1 2 3; do
  go test -vet=off -count=1 ./... > /tmp/vs_suite.out 2>&1; suite=$?
  [ $suite -eq 0 ] && break
  grep -q -- '--- FAIL: TestFrameCodecFuzz' /tmp/vs_suite.out || break
done
grep -E '^(FAIL|---)' /tmp/vs_suite.out | head -5
cd /; git -C /repo worktree remove --force $wt
echo "RESULT demo_without_change_exit=$without demo_with_change_exit=$with suite_exit=$suite"
